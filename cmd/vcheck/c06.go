package main

import (
	"bufio"
	"fmt"
	"io"
	"math/rand"
	"net"
	"sync"
	"sync/atomic"
	"time"

	"github.com/samaritan-proxy/samaritan/host"
	hcpb "github.com/samaritan-proxy/samaritan/pb/config/hc"
	"github.com/samaritan-proxy/samaritan/pb/config/service"
	"github.com/samaritan-proxy/samaritan/proc/verifx"

	"verif/internal/ev"
	"verif/internal/lclock"
	"verif/internal/sutc"
	"verif/internal/tcpsim"
)

func init() {
	register(&Check{ID: "C06", Level: "exploration", Drive: c06})
	apiParts["C06/policy"] = func(r *ev.Run) { c06Policy(r, 1) }
	apiParts["C06/policy-race"] = func(r *ev.Run) { c06Policy(r, 8) }
}

func mkHosts(n int) []*host.Host {
	hs := make([]*host.Host, n)
	for i := range hs {
		hs[i] = host.New(fmt.Sprintf("10.6.0.%d:80", i+1))
	}
	return hs
}

func c06Policy(r *ev.Run, div int) {
	rnd := rand.New(rand.NewSource(r.Seed))
	// round robin: exactly n*k concurrent selections -> every host exactly k times
	ks := []int{1, 2, 7, 50}
	if r.Tier == "thorough" {
		ks = []int{1, 2, 3, 7, 20, 50, 200}
	}
	for n := 1; n <= 17; n++ {
		for _, k := range ks {
			for _, g := range []int{1, 4, 32} {
				if div > 1 && (n+k+g)%div != 0 {
					continue
				}
				hosts := mkHosts(n)
				lb := verifx.NewBalancer(service.LoadBalancePolicy_ROUND_ROBIN)
				// a previous, unrelated number of selections (any start index)
				for i := rnd.Intn(40); i > 0; i-- {
					lb.PickHost(hosts)
				}
				total := n * k * g
				counts := make([]int64, n)
				idx := map[*host.Host]int{}
				for i, h := range hosts {
					idx[h] = i
				}
				var wg sync.WaitGroup
				var gate int32
				var foreign int64
				for gi := 0; gi < g; gi++ {
					wg.Add(1)
					go func() {
						defer wg.Done()
						for atomic.LoadInt32(&gate) == 0 {
						}
						for i := 0; i < n*k; i++ {
							h := lb.PickHost(hosts)
							if j, ok := idx[h]; ok {
								atomic.AddInt64(&counts[j], 1)
							} else {
								atomic.AddInt64(&foreign, 1)
							}
						}
					}()
				}
				atomic.StoreInt32(&gate, 1)
				wg.Wait()
				okc := foreign == 0
				for _, c := range counts {
					if c != int64(k*g) {
						okc = false
					}
				}
				if !okc {
					r.Violation("C06:round-robin-uneven", fmt.Sprintf("round robin over %d unchanged hosts: %d consecutive selections from %d goroutines gave %v, want exactly %d each", n, total, g, counts, k*g),
						map[string]interface{}{"hosts": n, "k": k * g, "goroutines": g, "counts": counts, "not_a_candidate": foreign})
				}
				r.Case(fmt.Sprintf("rr/n%d/g%d", n, g))
				r.Count("round_robin_selections", int64(total))
			}
		}
	}
	// random and least connection: member of the candidate list; least connection never the strictly busier sample
	for _, pol := range []service.LoadBalancePolicy{service.LoadBalancePolicy_RANDOM, service.LoadBalancePolicy_LEAST_CONNECTION} {
		for n := 0; n <= 17; n++ {
			hosts := mkHosts(n)
			for _, h := range hosts {
				for c := rnd.Intn(4); c > 0; c-- {
					h.IncConnCount()
				}
			}
			member := map[*host.Host]bool{}
			for _, h := range hosts {
				member[h] = true
			}
			lb := verifx.NewBalancer(pol)
			var samples []int
			old := verifx.SetRandInt(func() int {
				v := rnd.Intn(1 << 30)
				samples = append(samples, v)
				return v
			})
			rounds := 400 / div
			for i := 0; i < rounds; i++ {
				samples = samples[:0]
				h := lb.PickHost(hosts)
				if n == 0 {
					if h != nil {
						r.Violation("C06:pick-from-empty-list", "a host was picked from an empty candidate list", map[string]interface{}{"policy": pol.String()})
					}
					continue
				}
				if h == nil || !member[h] {
					r.Violation("C06:picked-non-candidate:"+pol.String(), "the picked host is not a member of the candidate list", map[string]interface{}{"policy": pol.String(), "hosts": n})
					continue
				}
				if pol == service.LoadBalancePolicy_LEAST_CONNECTION && len(samples) == 2 {
					a, b := hosts[samples[0]%n], hosts[samples[1]%n]
					if h != a && h != b {
						r.Violation("C06:least-connection-not-a-sample", "least connection returned a host that is neither of its two samples", map[string]interface{}{"hosts": n})
					} else {
						other := a
						if h == a {
							other = b
						}
						if h.ConnCount() > other.ConnCount() {
							r.Violation("C06:least-connection-prefers-busier", fmt.Sprintf("least connection preferred the strictly busier of its two samples (%d > %d connections)", h.ConnCount(), other.ConnCount()),
								map[string]interface{}{"hosts": n, "picked": h.Addr, "picked_connections": h.ConnCount(), "other": other.Addr, "other_connections": other.ConnCount()})
						}
					}
					r.Count("least_connection_sample_pairs_judged", 1)
				}
				if rnd.Intn(3) == 0 {
					h.IncConnCount()
				} else if h.ConnCount() > 0 && rnd.Intn(2) == 0 {
					h.DecConnCount()
				}
			}
			verifx.SetRandInt(old)
			r.Case(fmt.Sprintf("%s/n%d", pol, n))
		}
	}
}

type c06Backend struct {
	idx      int
	b        *tcpsim.Backend
	healthy  int32 // scripted probe outcome
	probes   int64
	relayed  int64
	arrivals chan c06Arrival
}

type c06Arrival struct {
	backend int
	id      string
	at      int64
}

func c06(r *ev.Run) {
	r.Rule("policy: round robin over n in 1..17 hosts x k x {1,4,32} goroutines doing exactly n*k selections each after an arbitrary start index; random / least connection over list sizes 0..17 with a recorded sample source; end to end: PRNG histories of host add / remove / replace (main and backup), scripted health-probe outcomes served by the backends themselves (atcp HC?/OK, 25 ms interval, fall = rise = 2), settled connection bursts (sequential and concurrent) under all three policies, connections kept open across a host removal; distinct = distinct (policy, hosts, goroutines) / (policy, membership shape, usable-set shape) tuples")
	r.Assume("end-to-end verdicts are taken in settled windows: every member backend has served at least fall+3 probes since the last scripted change, so the hosts the proxy must consider healthy are certain; racy bursts are judged only on 'never a host whose removal had returned before the connection started'")
	runAPIPart(r, "policy", false, nil, 10*time.Minute)
	runAPIPart(r, "policy-race", true, []string{"proc/internal/lb/lb.go"}, 10*time.Minute)
	c06EndToEnd(r)
	c06HealthCheckToggled(r)
	c06ConfigUpdateAndFlapping(r)
	c06PolicySwitchRace(r)
	c06LeastConnAfterFailedConnects(r)
	r.Require("least_connection_sample_pairs_judged", 1000)
	r.Require("settled_bursts_judged", 20)
	r.Require("connections_closed_on_host_removal", 3)
	r.Require("held_half_closed_streaming_connections", 1)
}

func c06EndToEnd(r *ev.Run) {
	s, err := startSUT(r, false, 0, 0)
	if err != nil {
		r.Internal("start sut: %v", err)
		return
	}
	defer s.Close()
	rnd := rand.New(rand.NewSource(r.Seed + 6))
	histories := 6
	if r.Tier == "thorough" {
		histories = 60
	}
	policies := []service.LoadBalancePolicy{service.LoadBalancePolicy_ROUND_ROBIN, service.LoadBalancePolicy_LEAST_CONNECTION, service.LoadBalancePolicy_RANDOM}
	for hi := 0; hi < histories; hi++ {
		if sutDied(r, s, "between histories") {
			return
		}
		c06History(r, s, rnd, policies[hi%3], hi)
	}
}

func c06History(r *ev.Run, s *sutc.SUT, rnd *rand.Rand, policy service.LoadBalancePolicy, hi int) {
	m := 2 + rnd.Intn(5)
	arrivals := make(chan c06Arrival, 4096)
	backends := make([]*c06Backend, m)
	for i := range backends {
		be := &c06Backend{idx: i, healthy: 1, arrivals: arrivals}
		b, err := tcpsim.NewBackend(func(_ *tcpsim.Backend, c net.Conn) {
			defer c.Close()
			var first [3]byte
			c.SetReadDeadline(time.Now().Add(5 * time.Second))
			if _, err := io.ReadFull(c, first[:]); err != nil {
				return
			}
			if string(first[:]) == "HC?" {
				atomic.AddInt64(&be.probes, 1)
				if atomic.LoadInt32(&be.healthy) == 1 {
					c.Write([]byte("OK"))
				} else {
					c.Write([]byte("NO"))
				}
				return
			}
			var id [8]byte
			if _, err := io.ReadFull(c, id[:]); err != nil {
				return
			}
			atomic.AddInt64(&be.relayed, 1)
			be.arrivals <- c06Arrival{backend: be.idx, id: string(id[:]), at: lclock.Tick()}
			fmt.Fprintf(c, "B%d\n", be.idx)
			c.SetReadDeadline(time.Now().Add(60 * time.Second))
			if id[0] == 'S' {
				// streaming mode: keep sending after the client finished its direction, until the connection breaks
				go io.Copy(io.Discard, c)
				for i := 0; i < 3000; i++ {
					c.SetWriteDeadline(time.Now().Add(2 * time.Second))
					if _, err := c.Write([]byte("tick\n")); err != nil {
						return
					}
					time.Sleep(10 * time.Millisecond)
				}
				return
			}
			io.Copy(io.Discard, c) // until the client (or the proxy) closes
		})
		if err != nil {
			r.Internal("backend: %v", err)
			return
		}
		be.b = b
		backends[i] = be
		defer b.Close()
	}
	hc := &hcpb.HealthCheck{Interval: 25 * time.Millisecond, Timeout: time.Second, FallThreshold: 2, RiseThreshold: 2,
		Checker: &hcpb.HealthCheck_AtcpChecker{AtcpChecker: &hcpb.ATCPChecker{Action: []*hcpb.ATCPChecker_Action{{Send: []byte(`"HC?"`), Expect: []byte(`"OK"`)}}}}}
	// membership model: backend index -> backup?
	member := map[int]bool{}
	var initial []sutc.Host
	for i := 0; i < m; i++ {
		if rnd.Intn(4) != 0 {
			bk := rnd.Intn(3) == 0
			member[i] = bk
			initial = append(initial, sutc.Host{Addr: backends[i].b.Addr, Backup: bk})
		}
	}
	svc, err := startTCPSvc(s, initial, TCPOpts{Policy: policy, HealthCheck: hc})
	if err != nil {
		r.Internal("%v", err)
		return
	}
	defer s.StopProc(svc.Name, 20*time.Second)
	var trace []string
	connSeq := 0
	// settle waits until every member backend served >= 5 probes since now.
	settle := func() bool {
		base := make([]int64, m)
		for i, b := range backends {
			base[i] = atomic.LoadInt64(&b.probes)
		}
		deadline := time.Now().Add(6 * time.Second)
		for time.Now().Before(deadline) {
			ok := true
			for i := range member {
				if atomic.LoadInt64(&backends[i].probes)-base[i] < 5 {
					ok = false
				}
			}
			if ok {
				time.Sleep(40 * time.Millisecond) // the round's results are applied
				return true
			}
			time.Sleep(10 * time.Millisecond)
		}
		return false
	}
	usable := func() map[int]bool {
		out := map[int]bool{}
		anyMain := false
		for i, bk := range member {
			if !bk && atomic.LoadInt32(&backends[i].healthy) == 1 {
				anyMain = true
			}
		}
		for i, bk := range member {
			if atomic.LoadInt32(&backends[i].healthy) == 1 && bk == !anyMain {
				out[i] = true
			}
		}
		return out
	}
	drain := func() {
		for {
			select {
			case <-arrivals:
			default:
				return
			}
		}
	}
	// connect opens one connection through the proxy; returns the backend index (-1: closed without a backend) and the conn.
	streaming := false
	connect := func(keep bool) (int, net.Conn) {
		connSeq++
		c, err := net.DialTimeout("tcp", svc.Addr, 3*time.Second)
		if err != nil {
			return -2, nil
		}
		id := fmt.Sprintf("%08d", connSeq)
		if streaming {
			id = "S" + id[1:]
		}
		c.Write([]byte("CON" + id))
		c.SetReadDeadline(time.Now().Add(4 * time.Second))
		line, err := bufio.NewReader(c).ReadString('\n')
		if err != nil {
			c.Close()
			return -1, nil
		}
		var idx int
		fmt.Sscanf(line, "B%d", &idx)
		if !keep {
			c.Close()
			return idx, nil
		}
		return idx, c
	}
	steps := 6 + rnd.Intn(8)
	for st := 0; st < steps; st++ {
		// a scripted change
		switch x := rnd.Intn(10); {
		case x < 3:
			i := rnd.Intn(m)
			v := int32(rnd.Intn(2))
			atomic.StoreInt32(&backends[i].healthy, v)
			trace = append(trace, fmt.Sprintf("probe-outcome b%d=%d", i, v))
		case x < 5:
			i := rnd.Intn(m)
			if _, ok := member[i]; !ok {
				bk := rnd.Intn(3) == 0
				s.HostOp("host_add", svc.Name, []sutc.Host{{Addr: backends[i].b.Addr, Backup: bk}})
				member[i] = bk
				trace = append(trace, fmt.Sprintf("add b%d backup=%v", i, bk))
			}
		case x < 7:
			i := rnd.Intn(m)
			if _, ok := member[i]; ok {
				// keep two connections open to that host when possible, they must be closed by the removal
				var held []net.Conn
				if settle() && usable()[i] {
					for tries := 0; tries < 12 && len(held) < 2; tries++ {
						streaming = len(held) == 1 // the second held connection: client half-closed, backend keeps streaming
						idx, c := connect(true)
						streaming = false
						if c != nil {
							if idx == i {
								if len(held) == 1 {
									c.(*net.TCPConn).CloseWrite()
									r.Count("held_half_closed_streaming_connections", 1)
								}
								held = append(held, c)
							} else {
								c.Close()
							}
						}
					}
				}
				s.HostOp("host_remove", svc.Name, []sutc.Host{{Addr: backends[i].b.Addr, Backup: rnd.Intn(2) == 0}})
				delete(member, i)
				trace = append(trace, fmt.Sprintf("remove b%d (holding %d connections)", i, len(held)))
				for _, c := range held {
					deadline := time.Now().Add(4 * time.Second)
					c.SetReadDeadline(deadline)
					buf := make([]byte, 4096)
					var err error
					for err == nil { // a streaming backend keeps the data flowing until the proxy closes the connection
						_, err = c.Read(buf)
					}
					if ne, ok := err.(net.Error); ok && ne.Timeout() {
						r.Violation("C06:connection-survives-host-removal", "an established connection to a host was still open 4 s after the host was removed", map[string]interface{}{"policy": policy.String(), "trace": trace})
					} else {
						r.Count("connections_closed_on_host_removal", 1)
					}
					c.Close()
				}
			}
		default:
			member = map[int]bool{}
			var hs []sutc.Host
			for i := 0; i < m; i++ {
				if rnd.Intn(3) != 0 {
					bk := rnd.Intn(3) == 0
					member[i] = bk
					hs = append(hs, sutc.Host{Addr: backends[i].b.Addr, Backup: bk})
				}
			}
			if len(hs) == 0 {
				member[0] = false
				hs = []sutc.Host{{Addr: backends[0].b.Addr}}
			}
			s.HostOp("host_replace", svc.Name, hs)
			trace = append(trace, fmt.Sprintf("replace %v", member))
		}
		if rnd.Intn(3) == 0 {
			continue // several changes before the next judged window
		}
		if !settle() {
			r.Inconclusive("probes-did-not-settle")
			continue
		}
		use := usable()
		drain()
		n := len(use)
		k := 1 + rnd.Intn(4)
		total := n * k
		if n == 0 {
			total = 3
		}
		concurrent := rnd.Intn(2) == 0
		landed := make([]int, total)
		if concurrent {
			var wg sync.WaitGroup
			var mu sync.Mutex
			for i := 0; i < total; i++ {
				wg.Add(1)
				go func(i int) {
					defer wg.Done()
					mu.Lock()
					connSeq++
					mu.Unlock()
					c, err := net.DialTimeout("tcp", svc.Addr, 3*time.Second)
					if err != nil {
						landed[i] = -2
						return
					}
					defer c.Close()
					c.Write([]byte(fmt.Sprintf("CON%08d", 900000+i)))
					c.SetReadDeadline(time.Now().Add(4 * time.Second))
					line, err := bufio.NewReader(c).ReadString('\n')
					if err != nil {
						landed[i] = -1
						return
					}
					fmt.Sscanf(line, "B%d", &landed[i])
				}(i)
			}
			wg.Wait()
		} else {
			for i := 0; i < total; i++ {
				landed[i], _ = connect(false)
			}
		}
		counts := map[int]int{}
		w := map[string]interface{}{"policy": policy.String(), "members(backend->backup)": fmt.Sprint(member), "usable": fmt.Sprint(use), "landed": landed, "concurrent": concurrent, "trace": trace}
		bad := false
		for _, b := range landed {
			counts[b]++
			switch {
			case n == 0 && b >= 0:
				r.Violation("C06:connection-relayed-without-usable-host", "a connection was relayed although no host is usable", w)
				bad = true
			case n > 0 && b == -1:
				r.Violation("C06:connection-closed-although-host-usable", "a connection was closed although usable hosts exist", w)
				bad = true
			case b >= 0:
				if _, isMember := member[b]; !isMember {
					r.Violation("C06:relayed-to-removed-host", "a connection was relayed to a host that is not in the current endpoint set", w)
					bad = true
				} else if !use[b] {
					key := "C06:relayed-to-unhealthy-host"
					if atomic.LoadInt32(&backends[b].healthy) == 1 {
						key = "C06:relayed-to-backup-while-main-healthy"
						if !member[b] {
							key = "C06:relayed-outside-usable-set"
						}
					}
					r.Violation(key, "a connection was relayed to a host outside the usable set (healthy members of the preferred tier)", w)
					bad = true
				}
			}
			if bad {
				break
			}
		}
		if !bad && n > 0 && policy == service.LoadBalancePolicy_ROUND_ROBIN {
			for b := range use {
				if counts[b] != k {
					r.Violation("C06:round-robin-uneven-e2e", fmt.Sprintf("%d consecutive connections over %d unchanged usable hosts were not spread exactly %d each: %v", total, n, k, counts), w)
					break
				}
			}
		}
		r.Count("settled_bursts_judged", 1)
		r.Count("connections_judged", int64(total))
		shape := fmt.Sprintf("%s/m%d/u%d/conc=%v", policy, len(member), n, concurrent)
		r.Case(shape)
		if hi == 0 && st < 3 {
			r.Sample(map[string]interface{}{"policy": policy.String(), "members": fmt.Sprint(member), "usable": fmt.Sprint(use), "landed": landed})
		}
	}
}

// c06HealthCheckToggled: health checking is switched off and on again by configuration updates of a running service. While it is
// off every member is considered healthy (as in a service started without a health check), also the one the monitor had marked
// unhealthy before; while it is on the failing member gets no connection once the monitor has seen it fail.
func c06HealthCheckToggled(r *ev.Run) {
	s, err := startSUT(r, false, 0, 0)
	if err != nil {
		r.Internal("start sut: %v", err)
		return
	}
	defer s.Close()
	type be struct {
		b       *tcpsim.Backend
		good    int32
		probes  int64
		relayed int64
	}
	bes := make([]*be, 2)
	for i := range bes {
		e := &be{good: 1}
		b, err := tcpsim.NewBackend(func(_ *tcpsim.Backend, c net.Conn) {
			defer c.Close()
			var first [3]byte
			c.SetReadDeadline(time.Now().Add(5 * time.Second))
			if _, err := io.ReadFull(c, first[:]); err != nil {
				return
			}
			if string(first[:]) == "HC?" {
				atomic.AddInt64(&e.probes, 1)
				if atomic.LoadInt32(&e.good) == 1 {
					c.Write([]byte("OK"))
				} else {
					c.Write([]byte("NO"))
				}
				return
			}
			atomic.AddInt64(&e.relayed, 1)
			c.Write([]byte("hi\n"))
			io.Copy(io.Discard, c)
		})
		if err != nil {
			r.Internal("backend: %v", err)
			return
		}
		e.b = b
		bes[i] = e
		defer b.Close()
	}
	hc := &hcpb.HealthCheck{Interval: 25 * time.Millisecond, Timeout: time.Second, FallThreshold: 2, RiseThreshold: 2,
		Checker: &hcpb.HealthCheck_AtcpChecker{AtcpChecker: &hcpb.ATCPChecker{Action: []*hcpb.ATCPChecker_Action{{Send: []byte(`"HC?"`), Expect: []byte(`"OK"`)}}}}}
	opts := TCPOpts{Policy: service.LoadBalancePolicy_ROUND_ROBIN, HealthCheck: hc}
	svc, err := startTCPSvc(s, []sutc.Host{{Addr: bes[0].b.Addr}, {Addr: bes[1].b.Addr}}, opts)
	if err != nil {
		r.Internal("%v", err)
		return
	}
	defer s.StopProc(svc.Name, 20*time.Second)
	atomic.StoreInt32(&bes[1].good, 0) // member 1 fails its probes from now on
	connect := func(n int) (got [2]int64, failed int) {
		base := [2]int64{atomic.LoadInt64(&bes[0].relayed), atomic.LoadInt64(&bes[1].relayed)}
		for i := 0; i < n; i++ {
			c, err := net.DialTimeout("tcp", svc.Addr, 2*time.Second)
			if err != nil {
				failed++
				continue
			}
			c.SetDeadline(time.Now().Add(3 * time.Second))
			c.Write([]byte("REQ-12345678"))
			buf := make([]byte, 8)
			if k, _ := c.Read(buf); k == 0 {
				failed++
			}
			c.Close()
		}
		time.Sleep(30 * time.Millisecond)
		return [2]int64{atomic.LoadInt64(&bes[0].relayed) - base[0], atomic.LoadInt64(&bes[1].relayed) - base[1]}, failed
	}
	waitProbes := func(n int64) bool {
		base := atomic.LoadInt64(&bes[1].probes)
		for i := 0; i < 400; i++ {
			if atomic.LoadInt64(&bes[1].probes)-base >= n {
				time.Sleep(40 * time.Millisecond)
				return true
			}
			time.Sleep(10 * time.Millisecond)
		}
		return false
	}
	rounds := 3
	if r.Tier == "thorough" {
		rounds = 15
	}
	for round := 0; round < rounds; round++ {
		// (1) health check on: after >= 5 failed probes member 1 gets nothing
		if !waitProbes(5) {
			if round == 0 || !s.Alive() {
				r.Inconclusive("health-check-toggled:no-probes")
				return
			}
			// the previous round ended with an accepted configuration update that adds the health check: its probes must arrive
			got, failed := connect(12)
			r.Violation("C06:unhealthy-host-used:health-check-added-by-update", "a configuration update that adds a health check (interval 25ms) was accepted, but the member that fails its probes saw fewer than 5 probes in 4s: nothing will ever take it out of the selection",
				map[string]interface{}{"round": round, "relayed_to_healthy_member": got[0], "relayed_to_failing_member": got[1], "connections_not_served": failed, "probes_seen_by_failing_member_in_total": atomic.LoadInt64(&bes[1].probes)})
			return
		}
		got, failed := connect(12)
		w := map[string]interface{}{"round": round, "relayed_to_healthy_member": got[0], "relayed_to_failing_member": got[1], "connections_not_served": failed}
		if got[1] != 0 || failed != 0 || got[0] != 12 {
			r.Violation("C06:unhealthy-host-used:health-check-on", "with the health check on, connections were relayed to the member that fails its probes (or not served)", w)
		}
		// (2) health check switched off by a configuration update
		off := opts
		off.HealthCheck = nil
		if err := s.ConfigUpdate(svc.Name, tcpConfigJSON(svc.Port, off)); err != nil {
			if sutDied(r, s, map[string]interface{}{"step": "configuration update that removes the health check", "round": round}) {
				return
			}
			r.Violation("C06:config-update-rejected:health-check-removed", "a valid configuration update that removes the health check was rejected: "+err.Error(), w)
			return
		}
		if sutDied(r, s, map[string]interface{}{"step": "configuration update that removes the health check", "round": round}) {
			return
		}
		got, failed = connect(12)
		w = map[string]interface{}{"round": round, "relayed_to_member_0": got[0], "relayed_to_member_1": got[1], "connections_not_served": failed}
		if failed != 0 || got[0]+got[1] != 12 {
			r.Violation("C06:connection-not-served:health-check-off", "with the health check switched off, connections were not served", w)
		} else if got[0] != 6 || got[1] != 6 {
			r.Violation("C06:round-robin-uneven:health-check-off", "with the health check switched off every member is considered healthy: round robin over 2 members must give each 6 of 12 connections", w)
		}
		// (3) and on again
		if err := s.ConfigUpdate(svc.Name, tcpConfigJSON(svc.Port, opts)); err != nil {
			r.Violation("C06:config-update-rejected:health-check-added", "a valid configuration update that adds a health check was rejected: "+err.Error(), w)
			return
		}
		if sutDied(r, s, map[string]interface{}{"step": "configuration update that adds the health check", "round": round}) {
			return
		}
		r.Count("health_check_toggles", 1)
		r.Case("hc-toggled")
	}
	// (4) the checker is left out of the health check ("if the checker is null, then TCP checker will be selected"): a running
	// monitor is reconfigured from the scripted atcp probes to plain connects - both members accept connects, both are used again
	noChecker := opts
	noChecker.HealthCheck = &hcpb.HealthCheck{Interval: 25 * time.Millisecond, Timeout: time.Second, FallThreshold: 2, RiseThreshold: 2}
	for step, o := range []TCPOpts{noChecker, opts, noChecker} {
		what := []string{"checker removed from the health check", "atcp checker configured again", "checker removed from the health check"}[step]
		err := s.ConfigUpdate(svc.Name, tcpConfigJSON(svc.Port, o))
		if sutDied(r, s, map[string]interface{}{"step": "configuration update: " + what}) {
			return
		}
		if err != nil {
			r.Violation("C06:config-update-rejected:health-check-without-checker", "a valid configuration update ("+what+") was rejected: "+err.Error(), nil)
			return
		}
		if o.HealthCheck.Checker != nil {
			if !waitProbes(5) {
				r.Inconclusive("health-check-toggled:no-probes-after-checker-change")
				return
			}
			continue
		}
		time.Sleep(400 * time.Millisecond) // >= 3 rise rounds of plain connects
		got, failed := connect(12)
		w := map[string]interface{}{"step": what, "relayed_to_member_0": got[0], "relayed_to_member_1": got[1], "connections_not_served": failed}
		if failed != 0 || got[0]+got[1] != 12 {
			r.Violation("C06:connection-not-served:default-checker", "with the default (connect-only) checker configured by an update, connections were not served", w)
		} else if got[0] != 6 || got[1] != 6 {
			r.Violation("C06:round-robin-uneven:default-checker", "with the default (connect-only) checker both members are healthy: round robin over 2 members must give each 6 of 12 connections", w)
		}
		r.Count("default_checker_updates", 1)
		r.Case("hc-default-checker")
	}
	r.Require("health_check_toggles", 2)
}

// c06ConfigUpdateAndFlapping: (1) round robin keeps its place across a configuration update that does not change the policy: every
// window of n consecutive selections over n unchanged hosts names each host once, also a window that spans the update; (2) the only
// host of a service is removed and added again in a loop while connections keep arriving: each connection is served or closed, and
// the process survives (a selection must never act on "a host is available" and then find none).
func c06ConfigUpdateAndFlapping(r *ev.Run) {
	s, err := startSUT(r, false, 0, 0)
	if err != nil {
		r.Internal("start sut: %v", err)
		return
	}
	defer s.Close()
	rnd := rand.New(rand.NewSource(r.Seed + 66))
	// ---- (1)
	reps := 4
	if r.Tier == "thorough" {
		reps = 30
	}
	for rep := 0; rep < reps; rep++ {
		n := 2 + rnd.Intn(4)
		var mu sync.Mutex
		var seq []int
		var probesSeen int64
		var bes []*tcpsim.Backend
		var hosts []sutc.Host
		for i := 0; i < n; i++ {
			i := i
			b, err := tcpsim.NewBackend(func(_ *tcpsim.Backend, c net.Conn) {
				defer c.Close()
				buf := make([]byte, 4)
				c.SetReadDeadline(time.Now().Add(5 * time.Second))
				if _, err := io.ReadFull(c, buf); err != nil || string(buf) != "REQ!" {
					atomic.AddInt64(&probesSeen, 1)
					return // the listener probe of the harness
				}
				mu.Lock()
				seq = append(seq, i)
				mu.Unlock()
				c.Write([]byte("ok"))
			})
			if err != nil {
				r.Internal("backend: %v", err)
				return
			}
			defer b.Close()
			bes = append(bes, b)
			hosts = append(hosts, sutc.Host{Addr: b.Addr})
		}
		opts := TCPOpts{Policy: service.LoadBalancePolicy_ROUND_ROBIN, ConnTimeout: time.Second}
		svc, err := startTCPSvc(s, hosts, opts)
		if err != nil {
			r.Internal("%v", err)
			return
		}
		one := func() bool {
			c, err := net.DialTimeout("tcp", svc.Addr, 2*time.Second)
			if err != nil {
				return false
			}
			defer c.Close()
			c.SetDeadline(time.Now().Add(3 * time.Second))
			c.Write([]byte("REQ!"))
			buf := make([]byte, 2)
			_, err = io.ReadFull(c, buf)
			return err == nil
		}
		// the harness's own probe of the listener takes one selection; it must be over before selections are counted
		for i := 0; i < 300 && atomic.LoadInt64(&probesSeen) == 0; i++ {
			time.Sleep(10 * time.Millisecond)
		}
		if atomic.LoadInt64(&probesSeen) == 0 {
			r.Inconclusive("rr-config-update:probe-not-seen")
			s.StopProc(svc.Name, 10*time.Second)
			continue
		}
		before := 1 + rnd.Intn(2*n)
		okAll := true
		for i := 0; i < before; i++ {
			okAll = one() && okAll
		}
		opts.ConnTimeout = time.Duration(1500+rnd.Intn(1000)) * time.Millisecond // anything but the policy
		if err := s.ConfigUpdate(svc.Name, tcpConfigJSON(svc.Port, opts)); err != nil {
			r.Internal("config update: %v", err)
			return
		}
		for i := 0; i < 2*n+1; i++ {
			okAll = one() && okAll
		}
		mu.Lock()
		got := append([]int{}, seq...)
		mu.Unlock()
		w := map[string]interface{}{"hosts": n, "selections": got, "configuration_update_after_selection": before, "changed": "connect timeout only"}
		if !okAll || len(got) != before+2*n+1 {
			r.Violation("C06:connection-not-served:config-update", "a connection was not served around a configuration update", w)
		} else {
			for i := 0; i+n <= len(got); i++ {
				seen := map[int]bool{}
				for _, h := range got[i : i+n] {
					seen[h] = true
				}
				if len(seen) != n {
					w["window_starts_at"] = i
					r.Violation("C06:round-robin-uneven:across-config-update", fmt.Sprintf("a window of %d consecutive round-robin selections over %d unchanged hosts does not name each host once", n, n), w)
					break
				}
			}
		}
		r.Count("round_robin_windows_across_config_update", 1)
		r.Case(fmt.Sprintf("rr-config-update/n%d", n))
		s.StopProc(svc.Name, 10*time.Second)
	}
	// ---- (2)
	b, err := tcpsim.NewBackend(nil)
	if err != nil {
		r.Internal("backend: %v", err)
		return
	}
	defer b.Close()
	svc, err := startTCPSvc(s, []sutc.Host{{Addr: b.Addr}}, TCPOpts{})
	if err != nil {
		r.Internal("%v", err)
		return
	}
	stop := make(chan struct{})
	var served, closed int64
	var wg sync.WaitGroup
	for g := 0; g < 32; g++ {
		wg.Add(1)
		go func() {
			defer wg.Done()
			for {
				select {
				case <-stop:
					return
				default:
				}
				c, err := net.DialTimeout("tcp", svc.Addr, time.Second)
				if err != nil {
					time.Sleep(time.Millisecond)
					continue
				}
				c.SetDeadline(time.Now().Add(2 * time.Second))
				c.Write([]byte("x"))
				buf := make([]byte, 1)
				if n, _ := c.Read(buf); n == 1 {
					atomic.AddInt64(&served, 1)
				} else {
					atomic.AddInt64(&closed, 1)
				}
				c.Close()
			}
		}()
	}
	// flaps until enough connections have met them (bounded by a number of flaps, not by time)
	wantConns := int64(120000)
	maxFlaps := 80000
	if r.Tier == "thorough" {
		wantConns, maxFlaps = 600000, 400000
	}
	hs := []sutc.Host{{Addr: b.Addr}}
	flaps := 0
	for ; flaps < maxFlaps && atomic.LoadInt64(&served)+atomic.LoadInt64(&closed) < wantConns && s.Alive(); flaps++ {
		s.HostOp("host_remove", svc.Name, hs)
		s.HostOp("host_add", svc.Name, hs)
		if flaps%7 == 0 {
			time.Sleep(time.Duration(rnd.Intn(200)) * time.Microsecond)
		}
	}
	close(stop)
	wg.Wait()
	if sutDied(r, s, map[string]interface{}{"scenario": "the only host of a tcp service removed and added in a loop under arriving connections", "flaps": flaps}) {
		return
	}
	// ---- (3) the balancing policy is changed back and forth by configuration updates while connections keep arriving: every
	// connection is served by a member, the process survives
	if svc2, err := startTCPSvc(s, []sutc.Host{{Addr: b.Addr}}, TCPOpts{Policy: service.LoadBalancePolicy_ROUND_ROBIN}); err == nil {
		stop2 := make(chan struct{})
		var served2, failed2 int64
		var wg2 sync.WaitGroup
		for g := 0; g < 32; g++ {
			wg2.Add(1)
			go func() {
				defer wg2.Done()
				for {
					select {
					case <-stop2:
						return
					default:
					}
					c, err := net.DialTimeout("tcp", svc2.Addr, time.Second)
					if err != nil {
						time.Sleep(time.Millisecond)
						continue
					}
					c.SetDeadline(time.Now().Add(2 * time.Second))
					c.Write([]byte("x"))
					buf := make([]byte, 1)
					if n, _ := c.Read(buf); n == 1 {
						atomic.AddInt64(&served2, 1)
					} else {
						atomic.AddInt64(&failed2, 1)
					}
					c.Close()
				}
			}()
		}
		wantConns2, maxSwitches := int64(100000), 30000
		if r.Tier == "thorough" {
			wantConns2, maxSwitches = 1000000, 300000
		}
		policies := []service.LoadBalancePolicy{service.LoadBalancePolicy_ROUND_ROBIN, service.LoadBalancePolicy_RANDOM, service.LoadBalancePolicy_LEAST_CONNECTION}
		switches := 0
		for ; switches < maxSwitches && atomic.LoadInt64(&served2)+atomic.LoadInt64(&failed2) < wantConns2 && s.Alive(); switches++ {
			s.ConfigUpdate(svc2.Name, tcpConfigJSON(svc2.Port, TCPOpts{Policy: policies[switches%3]}))
		}
		close(stop2)
		wg2.Wait()
		if sutDied(r, s, map[string]interface{}{"scenario": "balancing policy of a tcp service switched by configuration updates under arriving connections", "switches": switches}) {
			return
		}
		if f := atomic.LoadInt64(&failed2); f > 0 {
			r.Violation("C06:connection-not-served:policy-switch", fmt.Sprintf("%d connections were not served while only the balancing policy was being changed (the host was a healthy member the whole time)", f), map[string]interface{}{"switches": switches, "served": atomic.LoadInt64(&served2)})
		}
		r.Count("policy_switches_under_connections", int64(switches))
		r.Count("connections_served_while_switching_policy", atomic.LoadInt64(&served2))
		r.Case("policy-switching")
		s.StopProc(svc2.Name, 10*time.Second)
	}
	r.Count("last_host_flaps", int64(flaps))
	r.Count("connections_served_while_flapping", atomic.LoadInt64(&served))
	r.Count("connections_closed_while_flapping", atomic.LoadInt64(&closed))
	r.Case("last-host-flapping")
	s.StopProc(svc.Name, 10*time.Second)
	r.Require("connections_served_while_flapping", 20)
	r.Require("connections_closed_while_flapping", 1)
	r.Require("policy_switches_under_connections", 100)
}

// c06PolicySwitchRace: the same policy switching on a race-instrumented proxy: a selection that reads the balancer while a
// configuration update replaces it is a data race (the balancer is a two-word interface value: a torn read pairs one policy's type
// with another's data and crashes the process - about once per thousand switches under saturated accepts, far too rare to wait for).
func c06PolicySwitchRace(r *ev.Run) {
	s, err := startSUT(r, true, 0, 0)
	if err != nil {
		r.Internal("start race sut: %v", err)
		return
	}
	defer s.Close()
	b, err := tcpsim.NewBackend(nil)
	if err != nil {
		r.Internal("backend: %v", err)
		return
	}
	defer b.Close()
	svc, err := startTCPSvc(s, []sutc.Host{{Addr: b.Addr}}, TCPOpts{Policy: service.LoadBalancePolicy_ROUND_ROBIN})
	if err != nil {
		r.Internal("%v", err)
		return
	}
	stop := make(chan struct{})
	var wg sync.WaitGroup
	var served int64
	for g := 0; g < 8; g++ {
		wg.Add(1)
		go func() {
			defer wg.Done()
			for {
				select {
				case <-stop:
					return
				default:
				}
				c, err := net.DialTimeout("tcp", svc.Addr, time.Second)
				if err != nil {
					time.Sleep(time.Millisecond)
					continue
				}
				c.SetDeadline(time.Now().Add(2 * time.Second))
				c.Write([]byte("x"))
				buf := make([]byte, 1)
				if n, _ := c.Read(buf); n == 1 {
					atomic.AddInt64(&served, 1)
				}
				c.Close()
			}
		}()
	}
	policies := []service.LoadBalancePolicy{service.LoadBalancePolicy_ROUND_ROBIN, service.LoadBalancePolicy_RANDOM, service.LoadBalancePolicy_LEAST_CONNECTION}
	n := 300
	if r.Tier == "thorough" {
		n = 3000
	}
	for i := 0; i < n && s.Alive(); i++ {
		s.ConfigUpdate(svc.Name, tcpConfigJSON(svc.Port, TCPOpts{Policy: policies[i%3], ConnTimeout: time.Duration(1000+i) * time.Millisecond}))
	}
	close(stop)
	wg.Wait()
	s.StopProc(svc.Name, 10*time.Second)
	if sutDied(r, s, "policy switching on the race build") {
		return
	}
	for _, rr := range raceReports(s, []string{"proc/tcp/proc.go", "proc/internal/lb/lb.go"}) {
		r.Violation("C06:race:"+rr.Key, "data race between concurrent selections, or between a selection and a configuration update that replaces the balancer / the configuration", map[string]interface{}{"report": rr.Text})
	}
	r.Count("policy_switches_on_the_race_build", int64(n))
	r.Count("connections_served_on_the_race_build", atomic.LoadInt64(&served))
	r.Case("policy-switching-race")
	r.Require("connections_served_on_the_race_build", 100)
}

// c06LeastConnAfterFailedConnects: least-connection compares the hosts' numbers of open connections. A connect that fails must not
// stay charged to its host: after a backend was down for a while (connects refused while it was still listed) and is back, long-lived
// connections are spread evenly again (every selection that samples both hosts goes to the one with fewer open connections).
func c06LeastConnAfterFailedConnects(r *ev.Run) {
	s, err := startSUT(r, false, 0, 0)
	if err != nil {
		r.Internal("start sut: %v", err)
		return
	}
	defer s.Close()
	var counts [2]int64
	mk := func(i int) (*tcpsim.Backend, error) {
		return tcpsim.NewBackend(func(_ *tcpsim.Backend, c net.Conn) {
			defer c.Close()
			buf := make([]byte, 4)
			c.SetReadDeadline(time.Now().Add(5 * time.Second))
			if _, err := io.ReadFull(c, buf); err != nil || string(buf) != "HOLD" {
				return
			}
			atomic.AddInt64(&counts[i], 1)
			c.Write([]byte("ok"))
			c.SetReadDeadline(time.Now().Add(60 * time.Second))
			io.Copy(io.Discard, c) // held until the client closes
		})
	}
	a, err1 := mk(0)
	b, err2 := mk(1)
	if err1 != nil || err2 != nil {
		r.Internal("backend")
		return
	}
	defer a.Close()
	defer b.Close()
	svc, err := startTCPSvc(s, []sutc.Host{{Addr: a.Addr}, {Addr: b.Addr}}, TCPOpts{Policy: service.LoadBalancePolicy_LEAST_CONNECTION, ConnTimeout: 300 * time.Millisecond})
	if err != nil {
		r.Internal("%v", err)
		return
	}
	defer s.StopProc(svc.Name, 20*time.Second)
	// B refuses connections for a while (no health check: it stays listed)
	b.StopListening()
	for i := 0; i < 120; i++ {
		if c, err := net.DialTimeout("tcp", svc.Addr, time.Second); err == nil {
			c.SetDeadline(time.Now().Add(time.Second))
			c.Write([]byte("HOLD"))
			buf := make([]byte, 2)
			c.Read(buf)
			c.Close()
		}
	}
	if err := b.Listen(); err != nil {
		r.Inconclusive("least-conn:backend-did-not-come-back")
		return
	}
	time.Sleep(100 * time.Millisecond)
	atomic.StoreInt64(&counts[0], 0)
	atomic.StoreInt64(&counts[1], 0)
	var held []net.Conn
	n := 80
	for i := 0; i < n; i++ {
		c, err := net.DialTimeout("tcp", svc.Addr, time.Second)
		if err != nil {
			continue
		}
		c.SetDeadline(time.Now().Add(3 * time.Second))
		c.Write([]byte("HOLD"))
		buf := make([]byte, 2)
		if _, err := io.ReadFull(c, buf); err != nil {
			c.Close()
			continue
		}
		held = append(held, c)
	}
	ca, cb := atomic.LoadInt64(&counts[0]), atomic.LoadInt64(&counts[1])
	for _, c := range held {
		c.Close()
	}
	w := map[string]interface{}{"connections_held": len(held), "on_the_host_that_was_never_down": ca, "on_the_host_that_had_refused_connects": cb, "refused_connects_before": "about 60 of 120"}
	if len(held) < n*9/10 {
		r.Inconclusive("least-conn:connections-not-established")
	} else if cb*100 < int64(len(held))*38 || ca*100 < int64(len(held))*38 {
		r.Violation("C06:least-connection-skewed-after-failed-connects", fmt.Sprintf("of %d long-lived connections opened after a backend had been refusing connects for a while, %d went to the host that was never down and %d to the other: failed connects are still counted as open connections of that host", len(held), ca, cb), w)
	} else {
		r.Count("least_connection_balanced_after_failed_connects", 1)
	}
	r.Case("least-conn-after-failed-connects")
}
