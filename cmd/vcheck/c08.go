package main

import (
	"encoding/json"
	"fmt"
	"math/rand"
	"sort"
	"strings"
	"sync"
	"sync/atomic"
	"time"

	"github.com/samaritan-proxy/samaritan/config"
	"github.com/samaritan-proxy/samaritan/controller"
	"github.com/samaritan-proxy/samaritan/host"
	"github.com/samaritan-proxy/samaritan/pb/common"
	"github.com/samaritan-proxy/samaritan/pb/config/bootstrap"
	"github.com/samaritan-proxy/samaritan/pb/config/protocol"
	"github.com/samaritan-proxy/samaritan/pb/config/service"
	"github.com/samaritan-proxy/samaritan/proc"

	"verif/internal/ev"
)

func init() {
	register(&Check{ID: "C08", Level: "exploration", Drive: c08})
	apiParts["C08/histories"] = func(r *ev.Run) { c08Histories(r, 1) }
	apiParts["C08/histories-race"] = func(r *ev.Run) { c08Histories(r, 6) }
}

// recProc is a recording processor registered through the public builder registry.
type recProc struct {
	name    string
	reg     *recRegistry
	mu      sync.Mutex
	cfg     *service.Config
	hosts   *host.Set
	started int
	stopped int
	delay   func()
}

type recRegistry struct {
	mu    sync.Mutex
	procs []*recProc
	rnd   *rand.Rand
	stall time.Duration // the Start of the next processor built takes this long (once): the event loop is busy meanwhile
}

func (g *recRegistry) Build(params proc.BuildParams) (proc.Proc, error) {
	g.mu.Lock()
	defer g.mu.Unlock()
	d := time.Duration(g.rnd.Intn(2000)) * time.Microsecond
	slow := g.rnd.Intn(3) == 0
	stall := g.stall
	g.stall = 0
	p := &recProc{name: params.Name, reg: g, cfg: params.Cfg, hosts: host.NewSet(params.Hosts...), delay: func() {
		if stall > 0 {
			time.Sleep(stall)
			stall = 0
		}
		if slow {
			time.Sleep(d)
		}
	}}
	g.procs = append(g.procs, p)
	return p, nil
}

func (p *recProc) Name() string            { return p.name }
func (p *recProc) Address() string         { return "" }
func (p *recProc) Config() *service.Config { p.mu.Lock(); defer p.mu.Unlock(); return p.cfg }
func (p *recProc) OnSvcHostAdd(hs []*host.Host) error {
	p.delay()
	p.hosts.Add(hs...)
	return nil
}
func (p *recProc) OnSvcHostRemove(hs []*host.Host) error {
	p.delay()
	p.hosts.Remove(hs...)
	return nil
}
func (p *recProc) OnSvcAllHostReplace(hs []*host.Host) error {
	p.delay()
	p.hosts.ReplaceAll(hs)
	return nil
}
func (p *recProc) OnSvcConfigUpdate(c *service.Config) error {
	p.delay()
	if err := c.Validate(); err != nil {
		return err
	}
	p.mu.Lock()
	p.cfg = c
	p.mu.Unlock()
	return nil
}
func (p *recProc) Start() error      { p.delay(); p.mu.Lock(); p.started++; p.mu.Unlock(); return nil }
func (p *recProc) StopListen() error { return nil }
func (p *recProc) Stop() error       { p.delay(); p.mu.Lock(); p.stopped++; p.mu.Unlock(); return nil }

func (g *recRegistry) running() map[string][]*recProc {
	g.mu.Lock()
	defer g.mu.Unlock()
	out := map[string][]*recProc{}
	for _, p := range g.procs {
		p.mu.Lock()
		if p.started > p.stopped {
			out[p.name] = append(out[p.name], p)
		}
		p.mu.Unlock()
	}
	return out
}

var c08Registry = &recRegistry{rnd: rand.New(rand.NewSource(1))}
var c08Once sync.Once

func c08Cfg(port int, variant int) *service.Config {
	d := time.Duration(1+variant) * time.Second
	return &service.Config{Listener: &service.Listener{Address: &common.Address{Ip: "127.0.0.1", Port: uint32(port)}}, Protocol: protocol.MySQL, ConnectTimeout: &d}
}

func c08InvalidCfg(kind int) *service.Config {
	switch kind % 3 {
	case 0:
		return &service.Config{Protocol: protocol.MySQL} // no listener
	case 1:
		return &service.Config{Listener: &service.Listener{Address: &common.Address{Ip: "not-an-ip", Port: 1}}, Protocol: protocol.MySQL}
	}
	return &service.Config{Listener: &service.Listener{Address: &common.Address{Ip: "127.0.0.1", Port: 1}}} // protocol unset
}

func ep(i int, backup bool) *service.Endpoint {
	t := service.Endpoint_MAIN
	if backup {
		t = service.Endpoint_BACKUP
	}
	return &service.Endpoint{Address: &common.Address{Ip: fmt.Sprintf("10.8.0.%d", 1+i), Port: 80}, Type: t}
}

func epsStr(es []*service.Endpoint) string {
	s := []string{}
	for _, e := range es {
		t := "M"
		if e.Type == service.Endpoint_BACKUP {
			t = "B"
		}
		if e.Address == nil {
			s = append(s, "<no address>/"+t)
			continue
		}
		s = append(s, fmt.Sprintf("%s:%d/%s", e.Address.Ip, e.Address.Port, t))
	}
	return "[" + strings.Join(s, " ") + "]"
}

type storeSvc struct {
	Name      string            `json:"name"`
	Config    json.RawMessage   `json:"config"`
	Endpoints []json.RawMessage `json:"endpoints"`
}

func c08Histories(r *ev.Run, div int) {
	c08Once.Do(func() { proc.RegisterBuilder(protocol.MySQL, c08Registry) })
	nh := 400 / div
	if r.Tier == "thorough" {
		nh = 8000 / div
	}
	for hi := 0; hi < nh; hi++ {
		if !c08History(r, r.Seed*1000003+int64(hi), hi) {
			return
		}
		if r.Violations() >= 3 {
			return // enough witnesses (a stuck event loop costs 20 s per history)
		}
	}
}

func c08History(r *ev.Run, seed int64, hi int) bool {
	rnd := rand.New(rand.NewSource(seed))
	c08Registry.mu.Lock()
	c08Registry.rnd = rand.New(rand.NewSource(seed + 1))
	c08Registry.procs = nil
	c08Registry.mu.Unlock()
	prefix := fmt.Sprintf("h%d.", hi)
	npool := 1 + rnd.Intn(6)
	names := make([]string, npool)
	for i := range names {
		names[i] = fmt.Sprintf("%ssvc%d", prefix, i)
	}
	b := &bootstrap.Bootstrap{Admin: &bootstrap.Admin{Bind: &common.Address{Ip: "127.0.0.1", Port: 1}}}
	nstatic := rnd.Intn(3)
	for i := 0; i < nstatic; i++ {
		b.StaticServices = append(b.StaticServices, &bootstrap.StaticService{Name: fmt.Sprintf("%sstatic%d", prefix, i), Config: c08Cfg(2000+i, 0), Endpoints: []*service.Endpoint{ep(i, false), ep(i+1, true)}})
	}
	cfg, err := config.New(b)
	if err != nil {
		r.Internal("config.New: %v", err)
		return false
	}
	ctl, err := controller.New(cfg.Subscribe())
	if err != nil {
		r.Internal("controller.New: %v", err)
		return false
	}
	ctl.Start()
	defer ctl.Stop()
	var trace []string
	inDeps := map[string]bool{}
	everInvalidThenValid := false
	latestInvalid := map[string]bool{}
	hadInvalidFirst := map[string]bool{}
	hasCfg := map[string]bool{}
	features := map[string]bool{}
	n := 5 + rnd.Intn(75)
	r.Checkpoint(map[string]interface{}{"phase": "history", "seed": seed})
	burstAt := -1
	if rnd.Intn(3) == 0 {
		burstAt = rnd.Intn(n)
	}
	for step := 0; step < n; step++ {
		if step == burstAt {
			// more updates than the event channel holds arrive while the controller is busy starting a processor (120 ms): every
			// one of them must still be applied, in order
			burst := prefix + "burst"
			c08Registry.mu.Lock()
			c08Registry.stall = 120 * time.Millisecond
			c08Registry.mu.Unlock()
			cfg.VerifDependencyUpdate([]*service.Service{{Name: burst}}, nil)
			cfg.VerifSvcConfigUpdate(burst, c08Cfg(3100, 1))
			cfg.VerifSvcEndpointUpdate(burst, []*service.Endpoint{ep(0, false)}, nil)
			for i := 1; i <= 45; i++ {
				cfg.VerifSvcEndpointUpdate(burst, []*service.Endpoint{ep(i%6, i%5 == 0)}, []*service.Endpoint{ep((i-1)%6, (i-1)%5 == 0)})
			}
			trace = append(trace, "burst: dep+ cfg eps+ and 45 endpoint replacements on 'burst' while its processor is starting")
			features["burst-over-the-event-queue"] = true
		}
		name := names[rnd.Intn(npool)]
		if rnd.Intn(12) == 0 {
			name = prefix + "unknown" // never a dependency
		}
		short := strings.TrimPrefix(name, prefix)
		switch x := rnd.Intn(100); {
		case x < 18:
			cfg.VerifDependencyUpdate([]*service.Service{{Name: name}}, nil)
			if name != prefix+"unknown" || true {
				inDeps[name] = true
			}
			trace = append(trace, "dep+ "+short)
		case x < 26:
			// one update may remove several services, known and unknown ones in any order
			rm := []*service.Service{{Name: name}}
			label := short
			if rnd.Intn(2) == 0 {
				extra := []string{prefix + "never-a-dependency", names[rnd.Intn(npool)], prefix + "unknown"}
				rnd.Shuffle(len(extra), func(i, j int) { extra[i], extra[j] = extra[j], extra[i] })
				rm = nil
				label = ""
				for _, e := range append(extra[:1+rnd.Intn(2)], name, extra[2]) {
					rm = append(rm, &service.Service{Name: e})
					label += strings.TrimPrefix(e, prefix) + ","
				}
				features["multi-service-removal"] = true
			}
			cfg.VerifDependencyUpdate(nil, rm)
			for _, sv := range rm {
				delete(inDeps, sv.Name)
				delete(latestInvalid, sv.Name)
				delete(hasCfg, sv.Name)
				delete(hadInvalidFirst, sv.Name)
			}
			trace = append(trace, "dep- "+label)
		case x < 30:
			// remove then re-add in one update, and duplicates
			cfg.VerifDependencyUpdate([]*service.Service{{Name: name}, {Name: name}}, []*service.Service{{Name: name}})
			// the store adds first (no-op if present), then removes
			delete(inDeps, name)
			delete(latestInvalid, name)
			delete(hasCfg, name)
			delete(hadInvalidFirst, name)
			trace = append(trace, "dep+- "+short)
			features["dep-add-and-remove-in-one-update"] = true
		case x < 48:
			var c *service.Config
			switch rnd.Intn(6) {
			case 0:
				c = c08InvalidCfg(rnd.Intn(3))
				if inDeps[name] {
					hadInvalidFirst[name] = true
					latestInvalid[name] = true
					hasCfg[name] = true
				}
				trace = append(trace, "cfg(invalid) "+short)
				features["invalid-config"] = true
			default:
				c = c08Cfg(3000+rnd.Intn(4), rnd.Intn(5))
				if inDeps[name] {
					if latestInvalid[name] {
						everInvalidThenValid = true
						features["invalid-config-later-corrected"] = true
					}
					delete(latestInvalid, name)
					hasCfg[name] = true
				}
				trace = append(trace, fmt.Sprintf("cfg(port %d, timeout %s) %s", c.Listener.Address.Port, *c.ConnectTimeout, short))
			}
			cfg.VerifSvcConfigUpdate(name, c)
		default:
			if rnd.Intn(5) == 0 && inDeps[name] && !hasCfg[name] {
				// the endpoint list becomes known and empty before the configuration arrives: the service is announced with no
				// endpoint at all, its processor must exist (and get the endpoints that follow)
				e0 := ep(rnd.Intn(6), false)
				cfg.VerifSvcEndpointUpdate(name, []*service.Endpoint{e0}, nil)
				cfg.VerifSvcEndpointUpdate(name, nil, []*service.Endpoint{e0})
				c := c08Cfg(3000+rnd.Intn(4), rnd.Intn(5))
				cfg.VerifSvcConfigUpdate(name, c)
				hasCfg[name] = true
				delete(latestInvalid, name)
				trace = append(trace, fmt.Sprintf("eps %s +%s; eps %s -%s; cfg(port %d) %s", short, epsStr([]*service.Endpoint{e0}), short, epsStr([]*service.Endpoint{e0}), c.Listener.Address.Port, short))
				features["announced-with-an-empty-endpoint-list"] = true
				continue
			}
			var added, removed []*service.Endpoint
			na, nr := rnd.Intn(4), rnd.Intn(3)
			for i := 0; i < na; i++ {
				added = append(added, ep(rnd.Intn(6), rnd.Intn(4) == 0))
			}
			for i := 0; i < nr; i++ {
				removed = append(removed, ep(rnd.Intn(6), rnd.Intn(4) == 0))
			}
			if rnd.Intn(6) == 0 && len(added) > 0 { // an address in both lists of one update
				removed = append(removed, ep(int(added[0].Address.Ip[len(added[0].Address.Ip)-1]-'1'), false))
				features["address-in-both-lists"] = true
			}
			if na == 0 && nr > 0 {
				features["removal-only-update"] = true
			}
			if rnd.Intn(25) == 0 {
				// an endpoint without an address (a malformed entry of the discovery stream): it is no host, and it must not
				// take the event loop down
				added = append(added, &service.Endpoint{})
				features["endpoint-without-address"] = true
			}
			cfg.VerifSvcEndpointUpdate(name, added, removed)
			trace = append(trace, fmt.Sprintf("eps %s +%s -%s", short, epsStr(added), epsStr(removed)))
		}
		if rnd.Intn(10) == 0 {
			time.Sleep(time.Duration(rnd.Intn(1500)) * time.Microsecond)
		}
	}
	_ = everInvalidThenValid
	// sentinel: when its processor runs, every earlier event has been handled (single FIFO channel, single consumer)
	sent := prefix + "zz-sentinel"
	cfg.VerifDependencyUpdate([]*service.Service{{Name: sent}}, nil)
	cfg.VerifSvcConfigUpdate(sent, c08Cfg(9999, 0))
	cfg.VerifSvcEndpointUpdate(sent, []*service.Endpoint{ep(0, false)}, nil)
	deadline := time.Now().Add(20 * time.Second)
	for {
		if ps := c08Registry.running()[sent]; len(ps) > 0 {
			break
		}
		if time.Now().After(deadline) {
			r.Violation("C08:events-never-processed", "the sentinel service appended after the history never got a processor: the controller stopped handling events", map[string]interface{}{"seed": seed, "trace": trace})
			return true
		}
		time.Sleep(time.Millisecond)
	}
	// the store's own view is the configured state
	js, err := cfg.MarshalJSON()
	if err != nil {
		r.Internal("marshal store: %v", err)
		return false
	}
	var view struct {
		Services map[string]storeSvc `json:"services"`
	}
	if err := json.Unmarshal(js, &view); err != nil {
		r.Internal("unmarshal store view: %v", err)
		return false
	}
	running := c08Registry.running()
	problems := []string{}
	kind := ""
	add := func(k, f string, a ...interface{}) {
		if kind == "" {
			kind = k
		}
		problems = append(problems, fmt.Sprintf(f, a...))
	}
	expected := map[string]bool{}
	for name, sv := range view.Services {
		if !strings.HasPrefix(name, prefix) {
			continue
		}
		var sc *service.Config
		if len(sv.Config) > 0 && string(sv.Config) != "null" {
			sc = new(service.Config)
			if err := sc.UnmarshalJSON(sv.Config); err != nil {
				sc = nil
			}
		}
		short := strings.TrimPrefix(name, prefix)
		valid := sc != nil && sc.Validate() == nil
		if !valid || sv.Endpoints == nil {
			if len(running[name]) > 0 && sv.Endpoints == nil && valid {
				add("processor-without-endpoint-list", "%s has no endpoint list in the store but %d running processor(s)", short, len(running[name]))
			} else if len(running[name]) > 0 && !valid && !latestInvalid[name] {
				add("processor-for-unconfigured-service", "%s has no valid configuration in the store but a running processor", short)
			}
			continue
		}
		expected[name] = true
		ps := running[name]
		if len(ps) != 1 {
			k := "processor-missing"
			if hadInvalidFirst[name] {
				k = "processor-missing-after-invalid-config"
			}
			if len(ps) > 1 {
				k = "processor-duplicated"
			}
			add(k, "%s is configured (valid config, endpoint list) but has %d running processors", short, len(ps))
			continue
		}
		p := ps[0]
		if !p.Config().Equal(sc) {
			add("processor-config-stale", "%s: processor config differs from the latest configuration in the store", short)
		}
		want := map[string]string{}
		for _, raw := range sv.Endpoints {
			e := new(service.Endpoint)
			if err := e.UnmarshalJSON(raw); err != nil {
				continue
			}
			t := "Main"
			if e.Type == service.Endpoint_BACKUP {
				t = "Backup"
			}
			if e.Address == nil {
				continue // no address, no host
			}
			want[fmt.Sprintf("%s:%d", e.Address.Ip, e.Address.Port)] = t
		}
		got := map[string]string{}
		for _, h := range p.hosts.All() {
			got[h.Addr] = h.Type.String()
		}
		if fmt.Sprint(sortedMap(want)) != fmt.Sprint(sortedMap(got)) {
			add("host-set-differs", "%s: processor host set %v differs from the store's endpoint set %v", short, sortedMap(got), sortedMap(want))
		}
	}
	for name, ps := range running {
		if strings.HasPrefix(name, prefix) && !expected[name] && len(ps) > 0 {
			if _, inStore := view.Services[name]; !inStore {
				add("processor-for-removed-service", "%s is not a configured service any more but has a running processor", strings.TrimPrefix(name, prefix))
			}
		}
	}
	fs := []string{}
	for f := range features {
		fs = append(fs, f)
	}
	sort.Strings(fs)
	if len(problems) > 0 {
		r.Violation("C08:"+kind, "after all pending events were processed the running processors differ from the configured services: "+problems[0],
			map[string]interface{}{"seed": seed, "problems": problems, "trace": trace, "features": fs})
	}
	r.Case(fmt.Sprintf("n%d/pool%d/%s", n/20, npool, strings.Join(fs, "+")))
	for _, f := range fs {
		r.Count("histories_with:"+f, 1)
	}
	r.Count("histories_judged", 1)
	if hi == 0 {
		r.Sample(map[string]interface{}{"history": trace, "features": fs})
	}
	atomic.AddInt64(new(int64), 0)
	return true
}

func sortedMap(m map[string]string) []string {
	out := []string{}
	for k, v := range m {
		out = append(out, k+"/"+v)
	}
	sort.Strings(out)
	return out
}

func c08(r *ev.Run) {
	r.Rule("PRNG histories (5-80 updates) over 1-6 service names: dependency add / remove / add-and-remove in one update / duplicates, config updates (valid with varying content, three kinds of invalid, invalid later corrected), endpoint updates with arbitrary added and removed lists (an address in both lists, removal-only updates, duplicates, type changes), updates for unknown and removed services, 0-2 static bootstrap services; real config store feeding a real controller; recording processors with PRNG callback delays; judged when a trailing sentinel service runs; distinct = distinct (length class, pool size, feature set) tuples")
	r.Assume("the configured state is the store's own view (config.Config.MarshalJSON); the oracle only adds configuration validity and 'has an endpoint list' (non-null list); a service whose latest configuration is invalid is judged only on not disturbing others")
	r.Assume("recording processors are registered through the public builder registry under protocol.MySQL (no builder of the tree uses it)")
	runAPIPart(r, "histories", false, nil, 20*time.Minute)
	runAPIPart(r, "histories-race", true, []string{"config/config.go", "controller/controller.go"}, 20*time.Minute)
	r.Require("histories_judged", 100)
	r.Require("histories_with:address-in-both-lists", 5)
	r.Require("histories_with:removal-only-update", 5)
	r.Require("histories_with:multi-service-removal", 5)
}
