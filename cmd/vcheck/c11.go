package main

import (
	"bytes"
	"fmt"
	predis "github.com/samaritan-proxy/samaritan/pb/config/protocol/redis"
	"math/rand"
	"net"
	"os"
	"sort"
	"strconv"
	"strings"
	"sync"
	"sync/atomic"
	"time"

	sredis "github.com/samaritan-proxy/samaritan/proc/redis"

	"verif/internal/ev"
	"verif/internal/fakecluster"
	"verif/internal/rclient"
	"verif/internal/resp"
	"verif/internal/sutc"
)

func init() {
	register(&Check{ID: "C11", Level: "exploration", Drive: c11})
	apiParts["C11/parsers"] = c11Parsers
}

type hostileCase struct {
	Class    string // witness key class
	Side     string // downstream | backend
	Data     []byte // downstream bytes, or the backend's raw reply
	Complete bool   // the input is a complete, definitely invalid or valid request: silence is not acceptable
	ReqClass string // backend: which request of the proxy is answered with Data (readonly, cluster, asking, scan, plain)
	DeclBulk int64  // largest declared bulk length (resource bound)
	DeclArr  int64  // largest declared array length (resource bound)
}

func rep(s string, n int) []byte { return bytes.Repeat([]byte(s), n) }

func c11DownstreamCases(rnd *rand.Rand, thorough bool) []hostileCase {
	var cs []hostileCase
	add := func(class string, data []byte, complete bool) *hostileCase {
		cs = append(cs, hostileCase{Class: class, Side: "downstream", Data: data, Complete: complete})
		return &cs[len(cs)-1]
	}
	valid := [][]byte{resp.CmdS("SET", "c11key", "value"), resp.CmdS("GET", "c11key"), resp.CmdS("MGET", "a", "b", "c"), resp.CmdS("PING"), resp.CmdS("MSET", "a", "1", "b", "2")}
	// length fields
	for _, l := range []string{"-2", "-1", "0", "2147483648", "9223372036854775807", "9223372036854775808", "1000000000000000000000000000000", "abc", "", " 1", "1 ", "0x10", "+3", "-0", "00000000000000000000000000000000000003"} {
		add("array-length:"+l, []byte("*"+l+"\r\n$3\r\nGET\r\n$1\r\nk\r\n"), l != "+3" && l != "00000000000000000000000000000000000003")
		add("bulk-length:"+l, []byte("*2\r\n$3\r\nGET\r\n$"+l+"\r\nk\r\n"), l != "+3" && l != "00000000000000000000000000000000000003" && l != "0" && l != "2147483648" && l != "9223372036854775807")
	}
	add("bulk-length:limit+1", []byte("*2\r\n$3\r\nGET\r\n$536870913\r\n"), true)
	add("array-length:limit+1", []byte("*1048577\r\n"), true)
	c := add("bulk-length:declared-100MB-never-sent", []byte("*2\r\n$3\r\nGET\r\n$100000000\r\nabc"), false)
	c.DeclBulk = 100000000
	// type bytes
	for _, t := range []string{"!", "%", "~", "=", ",", "#", "_", ">", "|", "\x00", "\xff", " "} {
		add("type-byte:"+strconv.Quote(t), []byte(t+"3\r\n$3\r\nGET\r\n"), false)
	}
	// truncation of valid frames at every offset, CR/LF dropped, type byte swapped
	for vi, v := range valid {
		for off := 0; off < len(v); off++ {
			if !thorough && off%3 != vi%3 {
				continue
			}
			add("truncated", v[:off], false)
		}
		for i := 0; i < len(v); i++ {
			if v[i] == '\r' || v[i] == '\n' {
				m := append(append([]byte{}, v[:i]...), v[i+1:]...)
				add("crlf-dropped", m, false)
			}
			if v[i] == '$' || v[i] == '*' {
				for _, t := range []byte("+-:$*") {
					m := append([]byte{}, v...)
					m[i] = t
					add("type-swapped", m, false)
				}
			}
		}
	}
	// random byte mutations
	nmut := 150
	if thorough {
		nmut = 6000
	}
	for i := 0; i < nmut; i++ {
		v := append([]byte{}, valid[rnd.Intn(len(valid))]...)
		for k := 1 + rnd.Intn(3); k > 0; k-- {
			switch rnd.Intn(3) {
			case 0:
				v[rnd.Intn(len(v))] = byte(rnd.Intn(256))
			case 1:
				p := rnd.Intn(len(v))
				v = append(v[:p], v[p+1:]...)
			default:
				p := rnd.Intn(len(v))
				v = append(v[:p], append([]byte{"*$:-+\r\n09"[rnd.Intn(9)]}, v[p:]...)...)
			}
			if len(v) == 0 {
				v = []byte{'*'}
			}
		}
		add("random-mutation", v, false)
	}
	// arity sweep: every command the proxy knows (and a few it does not) with 0..7 arguments, pipelined on one connection
	simpleCmds, sumCmds, _, _ := sredis.VerifCommandTables()
	names := append(append([]string{}, simpleCmds...), sumCmds...)
	names = append(names, "mget", "mset", "msetnx", "eval", "evalsha", "scan", "ping", "quit", "auth", "select", "info", "time", "hotkey", "cluster", "command", "echo", "asking", "readonly", "multi", "exec", "subscribe")
	for _, name := range names {
		var b []byte
		for argc := 0; argc <= 7; argc++ {
			args := []string{name}
			for i := 0; i < argc; i++ {
				if i%2 == 0 {
					args = append(args, fmt.Sprintf("{c11a}k%d", i/2))
				} else {
					args = append(args, strconv.Itoa(i))
				}
			}
			b = append(b, resp.CmdS(args...)...)
		}
		add("arity-sweep:"+name, b, true)
	}
	// shapes
	add("array-of-arrays", []byte("*2\r\n*1\r\n$3\r\nGET\r\n*1\r\n$1\r\nk\r\n"), true)
	add("non-bulk-elements", []byte("*3\r\n:1\r\n+OK\r\n-ERR\r\n"), true)
	add("null-elements", []byte("*2\r\n$-1\r\n$-1\r\n"), true)
	add("empty-command-name", []byte("*1\r\n$0\r\n\r\n"), true)
	add("only-crlf", []byte("\r\n\r\n\r\n"), false)
	add("binary-garbage", func() []byte { b := make([]byte, 4096); rnd.Read(b); return b }(), false)
	n := 1 << 20
	big := append([]byte("*"+strconv.Itoa(n)+"\r\n"), rep("$0\r\n\r\n", n)...)
	c = add("million-empty-bulks", big, true)
	c.DeclArr = int64(n)
	inl := 1 << 20
	if thorough {
		inl = 64 << 20
	}
	add("huge-inline-line", append(rep("a", inl), '\r', '\n'), true)
	add("huge-inline-line-spaces", append(rep("a ", inl/2), '\r', '\n'), true)
	add("huge-command-name", resp.Cmd(rep("X", 4<<20), []byte("k")), true)
	// nesting bombs
	for _, d := range []int{10, 1000, 100000, 1000000, 6000000} {
		add(fmt.Sprintf("nesting-depth-%d", d), rep("*1\r\n", d), false)
	}
	for _, d := range []int{2, 8, 24} {
		c = add(fmt.Sprintf("nested-max-length-arrays-depth-%d", d), rep("*1048576\r\n", d), false)
		c.DeclArr = 1048576
	}
	add("nested-then-valid", append(rep("*1\r\n", 40), resp.CmdS("PING")...), false)
	// millions of tokens that carry no request: none of them may cost a stack frame or memory that is kept
	for _, tok := range []string{"\r\n", "*-1\r\n", "*0\r\n", " \r\n"} {
		for _, d := range []int{1000, 1000000, 6000000} {
			add(fmt.Sprintf("token-run-%s-x%d", strconv.Quote(tok), d), append(rep(tok, d), resp.CmdS("PING")...), false)
		}
	}
	// nesting where every level first carries a sibling element (depth accounting must survive null / empty / scalar siblings)
	for _, sib := range []string{"*-1\r\n", "*0\r\n", "$-1\r\n", ":1\r\n", "*1\r\n:1\r\n"} {
		for _, d := range []int{1000, 1000000, 3000000} {
			add(fmt.Sprintf("nesting-with-sibling-%s-depth-%d", strconv.Quote(sib), d), rep("*2\r\n"+sib, d), false)
		}
	}
	return cs
}

func c11BackendCases(rnd *rand.Rand, thorough bool) []hostileCase {
	var cs []hostileCase
	add := func(class, reqClass string, data []byte) {
		cs = append(cs, hostileCase{Class: class, Side: "backend", ReqClass: reqClass, Data: data})
	}
	bulk := func(s string) []byte { return resp.Encode(resp.BS(s)) }
	// malformed RESP for every request class
	for _, rc := range []string{"readonly", "cluster", "asking", "scan", "plain"} {
		for name, raw := range map[string]string{
			"bad-type-byte": "!oops\r\n", "negative-bulk": "$-7\r\n", "negative-array": "*-9\r\n", "huge-bulk": "$99999999999\r\n", "huge-array": "*99999999\r\n",
			"no-crlf": "+OK\n", "int-garbage": ":12x\r\n", "empty-line": "\r\n", "nested-bomb": string(rep("*1\r\n", 200000)), "null-bulk": "$-1\r\n", "null-array": "*-1\r\n",
			"empty-lines-bomb": string(rep("\r\n", 4000000)),
			"integer":          ":7\r\n", "array-of-int": "*2\r\n:1\r\n:2\r\n", "empty-array": "*0\r\n", "error": "-ERR whatever\r\n", "empty-error": "-\r\n",
			// replies that look like the beginning of a compressed value (magic, algorithm byte) and stop there
			"cps-header-3-bytes": "$3\r\n(P$\r\n", "cps-header-4-bytes": "$4\r\n(P$\x00\r\n", "cps-header-5-bytes": "$5\r\n(P$\x00\r\r\n", "cps-header-only": "$6\r\n(P$\x00\r\n\r\n",
			"cps-header-4-bytes-status": "+(P$\x00\r\n", "cps-header-bad-algorithm": "$8\r\n(P$\x07\r\nab\r\n", "cps-header-garbage-stream": "$12\r\n(P$\x00\r\n\xff\xfe\xfd\xfc\xfb\xfa\r\n",
			"cps-header-in-array": "*2\r\n$4\r\n(P$\x00\r\n$5\r\n(P$\x00\r\r\n",
		} {
			add("backend-resp:"+name+":"+rc, rc, []byte(raw))
		}
	}
	// redirect errors
	for _, rc := range []string{"plain", "asking", "readonly", "cluster", "scan"} {
		for _, e := range []string{"MOVED", "MOVED ", "MOVED 1", "MOVED 1 ", "ASK 1", "ASK", "ask 1", "MOVED 1 x", "MOVED 1 1.2.3.4", "moved 99999 127.0.0.1:1", "MOVED -1 127.0.0.1:1",
			"MOVED 1 127.0.0.1:1 extra words", "ASK 1 :", "MOVED  1  127.0.0.1:1", "MOVED\t1\t127.0.0.1:1", "MOVED 1 " + strings.Repeat("9", 5000), "ASK 1 \x00\xff\xfe", "CLUSTERDOWN", "CLUSTERDOWN ", "clusterdown Hash slot not served",
			"MOVED 1 127.0.0.1:99999", "ASK 1 [::1]:1", "MOVED 18446744073709551616 127.0.0.1:1",
			"A\u017fK 1 127.0.0.1:1", "A\u017f\u212a 1 127.0.0.1:1", "a\u017fk 1 127.0.0.1:1",
			"MOVED 1 {SELF}", "ASK 1 {SELF}", // {SELF} = the address of the answering node: the redirection never ends
			"MOVED 1 {SELF+0}", "ASK 1 {SELF+0}"} { // {SELF+0} = the same address spelled differently in every answer (one more leading zero in the port)
			if rc != "plain" && len(e) > 40 {
				continue
			}
			add("backend-redirect:"+strconv.Quote(e)+":"+rc, rc, []byte("-"+e+"\r\n"))
		}
	}
	// CLUSTER NODES bodies
	id := func(i int) string { return fmt.Sprintf("%040x", i) }
	line := func(i int, addr, flags, master, slots string) string {
		return fmt.Sprintf("%s %s %s %s 0 1 1 connected %s\n", id(i), addr, flags, master, slots)
	}
	bodies := map[string]string{
		"empty":                                "",
		"only-newlines":                        "\n\n\n",
		"seven-fields":                         "a b c d e f g\n",
		"unknown-master-id":                    line(1, "127.0.0.1:7001@17001", "myself,master", "-", "0-16383") + line(2, "127.0.0.1:7002@17002", "slave", id(99), ""),
		"replica-of-replica":                   line(1, "127.0.0.1:7001@17001", "myself,master", "-", "0-16383") + line(2, "127.0.0.1:7002@17002", "slave", id(1), "") + line(3, "127.0.0.1:7003@17003", "slave", id(2), "") + line(4, "127.0.0.1:7004@17004", "slave", id(3), "") + line(5, "127.0.0.1:7005@17005", "slave", id(4), ""),
		"replica-of-itself":                    line(1, "127.0.0.1:7001@17001", "myself,master", "-", "0-16383") + line(2, "127.0.0.1:7002@17002", "slave", id(2), ""),
		"duplicate-ids":                        line(1, "127.0.0.1:7001@17001", "master", "-", "0-100") + line(1, "127.0.0.1:7002@17002", "master", "-", "101-200") + line(1, "127.0.0.1:7003@17003", "slave", id(1), ""),
		"address-without-port":                 line(1, "127.0.0.1@17001", "master", "-", "0-16383"),
		"address-empty":                        line(1, "@", "master", "-", "0-16383"),
		"address-ipv6":                         line(1, "[::1]:7001@17001", "master", "-", "0-16383"),
		"slots-reversed":                       line(1, "127.0.0.1:7001@17001", "master", "-", "500-100"),
		"slots-negative":                       line(1, "127.0.0.1:7001@17001", "master", "-", "-5 -1--3"),
		"slots-huge-range":                     line(1, "127.0.0.1:7001@17001", "master", "-", "0-99999999999"),
		"slots-full-range-repeated-1500-times": line(1, "127.0.0.1:7001@17001", "master", "-", strings.Repeat("0-16383 ", 1500)),
		"slots-one-slot-repeated-100000-times": line(1, "127.0.0.1:7001@17001", "master", "-", strings.Repeat("7 ", 100000)),
		"slots-huge-single":                    line(1, "127.0.0.1:7001@17001", "master", "-", "99999999999999999999"),
		"slots-non-numeric":                    line(1, "127.0.0.1:7001@17001", "master", "-", "a-b x 1-y"),
		"slots-many-dashes":                    line(1, "127.0.0.1:7001@17001", "master", "-", "1-2-3 ---"),
		"slots-brackets":                       line(1, "127.0.0.1:7001@17001", "master", "-", "[1->-abc] [ ] [] [5-<-"),
		"slots-out-of-range":                   line(1, "127.0.0.1:7001@17001", "master", "-", "16384 20000-30000 65536"),
		"slot-single-16384":                    line(1, "127.0.0.1:7001@17001", "master", "-", "0-100 16384"),
		"slot-single-16383":                    line(1, "127.0.0.1:7001@17001", "master", "-", "16383"),
		"slot-single-65536":                    line(1, "127.0.0.1:7001@17001", "master", "-", "5 65536"),
		"slot-single-negative":                 line(1, "127.0.0.1:7001@17001", "master", "-", "0-5 -1"),
		"slot-range-to-16384":                  line(1, "127.0.0.1:7001@17001", "master", "-", "16000-16384"),
		"slot-range-to-16383":                  line(1, "127.0.0.1:7001@17001", "master", "-", "0-16383"),
		"binary":                               "\x00\xff\xfe \x01 \x02 \x03 \x04 \x05 \x06 \x07 \x08\n",
		"ten-thousand-nodes": func() string {
			var b strings.Builder
			for i := 0; i < 10000; i++ {
				b.WriteString(line(i+10, fmt.Sprintf("10.1.%d.%d:7000@17000", i/256, i%256), "master", "-", strconv.Itoa(i)))
			}
			return b.String()
		}(),
		"long-line": strings.Repeat("x", 1<<20) + "\n",
	}
	if thorough {
		bodies["ten-megabytes-of-lines"] = strings.Repeat(line(7, "127.0.0.1:7001@17001", "master", "-", "0-5"), 10<<20/110)
	}
	names := make([]string, 0, len(bodies))
	for n := range bodies {
		names = append(names, n)
	}
	sort.Strings(names)
	for _, n := range names {
		add("cluster-nodes:"+n, "cluster", bulk(bodies[n]))
	}
	add("cluster-nodes:simple-string", "cluster", []byte("+"+strings.TrimSpace(line(1, "127.0.0.1:7001", "master", "-", "0-5"))+"\r\n"))
	add("cluster-nodes:array-reply", "cluster", resp.Encode(resp.A(resp.BS("a"), resp.BS("b"))))
	// SCAN replies
	for name, raw := range map[string][]byte{
		"empty-array":         []byte("*0\r\n"),
		"one-element":         []byte("*1\r\n$1\r\n0\r\n"),
		"one-element-int":     []byte("*1\r\n:0\r\n"),
		"int-cursor":          []byte("*2\r\n:5\r\n*0\r\n"),
		"array-cursor":        []byte("*2\r\n*1\r\n$1\r\n5\r\n*0\r\n"),
		"null-cursor":         []byte("*2\r\n$-1\r\n*0\r\n"),
		"non-numeric-cursor":  []byte("*2\r\n$3\r\nabc\r\n*0\r\n"),
		"negative-cursor":     []byte("*2\r\n$2\r\n-5\r\n*0\r\n"),
		"cursor-2^48":         []byte("*2\r\n$15\r\n281474976710656\r\n*0\r\n"),
		"cursor-2^63":         []byte("*2\r\n$19\r\n9223372036854775808\r\n*0\r\n"),
		"cursor-huge":         []byte("*2\r\n$30\r\n999999999999999999999999999999\r\n*0\r\n"),
		"keys-not-array":      []byte("*2\r\n$1\r\n0\r\n$1\r\nk\r\n"),
		"three-elements":      []byte("*3\r\n$1\r\n0\r\n*0\r\n*0\r\n"),
		"null-array":          []byte("*-1\r\n"),
		"nested-empty-arrays": []byte("*2\r\n*0\r\n*0\r\n"),
	} {
		add("scan-reply:"+name, "scan", raw)
	}
	return cs
}

// c11Parsers throws the backend-reply bodies at the exported parser wrapper in-process; a panic there is a
// violation because no production goroutine recovers.
func c11Parsers(r *ev.Run) {
	rnd := rand.New(rand.NewSource(r.Seed))
	for _, c := range c11BackendCases(rnd, r.Tier == "thorough") {
		if c.ReqClass != "cluster" || !strings.HasPrefix(c.Class, "cluster-nodes:") {
			continue
		}
		if strings.Contains(c.Class, "slots-huge-range") {
			continue // judged end to end only (resource bound); in-process it would take this monitor down with it
		}
		v, err := resp.NewReader(bytes.NewReader(c.Data)).Read()
		if err != nil || v.Kind != resp.Bulk {
			continue
		}
		r.Checkpoint(map[string]interface{}{"parser": "cluster-nodes", "class": c.Class})
		func() {
			defer func() {
				if p := recover(); p != nil {
					r.Violation("C11:"+c.Class, fmt.Sprintf("the CLUSTER NODES parser panicked: %v", p), map[string]interface{}{"body": abbrevArg(v.Str)})
				}
			}()
			sredis.VerifParseClusterNodes(string(v.Str))
		}()
		r.Case("parser/" + c.Class)
	}
	// random line mutations
	base := "07c37dfeb235213a872192d90877d0cd55635b91 127.0.0.1:30004@31004 slave e7d1eecce10fd6bb5eb35b9f99a514335d9ba9ca 0 1426238317239 4 connected\ne7d1eecce10fd6bb5eb35b9f99a514335d9ba9ca 127.0.0.1:30001@31001 myself,master - 0 0 1 connected 0-5460 [93->-292f8b365bb7edb5e285caf0b7e6ddc7265d2f4f]\n"
	n := 3000
	if r.Tier == "thorough" {
		n = 100000
	}
	for i := 0; i < n; i++ {
		b := []byte(base)
		for k := 1 + rnd.Intn(4); k > 0; k-- {
			p := rnd.Intn(len(b))
			switch rnd.Intn(4) {
			case 0:
				b[p] = " -\n:@[]0a"[rnd.Intn(9)]
			case 1:
				b = append(b[:p], b[p+1:]...)
			case 2:
				q := rnd.Intn(len(b))
				if q < p {
					p, q = q, p
				}
				if q-p < 60 {
					b = append(b[:p], b[q:]...)
				}
			default:
				b = append(b[:p], append([]byte(" "), b[p:]...)...)
			}
			if len(b) == 0 {
				b = []byte(" ")
			}
		}
		if i%100 == 0 {
			r.Checkpoint(map[string]interface{}{"parser": "cluster-nodes", "mutated_body": string(b)})
		}
		func() {
			defer func() {
				if p := recover(); p != nil {
					r.Violation("C11:cluster-nodes:mutated-body", fmt.Sprintf("the CLUSTER NODES parser panicked: %v", p), map[string]interface{}{"body": string(b)})
				}
			}()
			sredis.VerifParseClusterNodes(string(b))
		}()
	}
	r.Cases(n, "parser/cluster-nodes-mutations")
}

func vmHWMkB(pid int) int64 {
	b, err := os.ReadFile(fmt.Sprintf("/proc/%d/status", pid))
	if err != nil {
		return 0
	}
	for _, l := range strings.Split(string(b), "\n") {
		if strings.HasPrefix(l, "VmHWM:") {
			f := strings.Fields(l)
			if len(f) >= 2 {
				v, _ := strconv.ParseInt(f[1], 10, 64)
				return v
			}
		}
	}
	return 0
}

type c11Env struct {
	r      *ev.Run
	s      *sutc.SUT
	cl     *fakecluster.Cluster
	svc    *RedisSvc
	good   *fakecluster.Node
	bad    *fakecluster.Node
	canKey string // a key owned by the good node
	badKey string // a key owned by the hostile node
	askKey string // a key of the good node whose slot is migrating to the hostile node

	hmu       sync.Mutex
	spellings int64 // hostile answers with a new spelling of the node address served in this case
	peakConns int64 // most connections seen open at the hostile node while it served a hostile answer
	hostile   *hostileCase
	served    int64
	batchN    int
	baseline  int64
}

func (e *c11Env) start() error {
	s, err := startSUT(e.r, false, 30, 5)
	if err != nil {
		return err
	}
	cl, err := fakecluster.New(2, 0)
	if err != nil {
		s.Kill()
		return err
	}
	cl.AssignContiguous()
	cl.LogArgs = false
	e.s, e.cl = s, cl
	e.good, e.bad = cl.Nodes[0], cl.Nodes[1]
	e.canKey = keysFor(cl, e.good, 1, "canary")[0]
	e.badKey = keysFor(cl, e.bad, 1, "victim")[0]
	e.askKey = keysFor(cl, e.good, 2, "asking")[1]
	slot := fakecluster.Slot([]byte(e.askKey))
	cl.Lock()
	e.good.SetMigratingLocked(slot, e.bad)
	e.bad.SetImportingLocked(slot, e.good)
	cl.Unlock()
	e.bad.Handler = func(c *fakecluster.Conn, args [][]byte) (fakecluster.Reply, bool) {
		e.hmu.Lock()
		h := e.hostile
		e.hmu.Unlock()
		if h == nil {
			return fakecluster.Reply{}, false
		}
		cmd := strings.ToLower(string(args[0]))
		class := "plain"
		switch cmd {
		case "readonly", "cluster", "asking", "scan":
			class = cmd
		}
		if class != h.ReqClass {
			return fakecluster.Reply{}, false
		}
		atomic.AddInt64(&e.served, 1)
		e.r.Count("hostile_reply_served:"+class, 1)
		raw := bytes.Replace(h.Data, []byte("{SELF}"), []byte(e.bad.Addr), -1)
		if bytes.Contains(raw, []byte("{SELF+0}")) {
			k := int(atomic.AddInt64(&e.spellings, 1))
			if k > 400 {
				return fakecluster.Reply{}, false // (the node gives up being hostile: the damage is counted by then)
			}
			host, port, _ := net.SplitHostPort(e.bad.Addr)
			raw = bytes.Replace(raw, []byte("{SELF+0}"), []byte(host+":"+strings.Repeat("0", k)+port), -1)
		}
		if n := int64(e.bad.NumConns()); n > atomic.LoadInt64(&e.peakConns) {
			atomic.StoreInt64(&e.peakConns, n)
		}
		return fakecluster.Reply{Raw: raw}, true
	}
	svc, err := startRedisSvc(s, cl, cl.Addrs(), RedisOpts{ConnTimeout: 300 * time.Millisecond})
	if err != nil {
		return err
	}
	e.svc = svc
	if !svc.WaitRouting(1, 10*time.Second) {
		return fmt.Errorf("routing not loaded")
	}
	e.batchN = 0
	if !e.canary() {
		return fmt.Errorf("canary fails on a fresh proxy")
	}
	e.baseline = vmHWMkB(s.Pid())
	return nil
}

func (e *c11Env) stop() {
	if e.s != nil {
		e.s.Kill()
	}
	if e.cl != nil {
		e.cl.Close()
	}
}

// canary: a different connection does PING and one keyed round trip through the healthy node (progress-relative: 3 tries).
func (e *c11Env) canary() bool {
	for try := 0; try < 3; try++ {
		c, err := e.svc.Dial()
		if err == nil {
			v1, err1 := c.DoS(5*time.Second, "PING")
			v2, err2 := c.DoS(5*time.Second, "SET", e.canKey, "x")
			c.Close()
			if err1 == nil && err2 == nil && v1.Kind == resp.Simple && v2.Kind != resp.Error {
				return true
			}
		}
		if !e.s.Alive() {
			return false
		}
		time.Sleep(300 * time.Millisecond)
	}
	return false
}

func (e *c11Env) scanCursorForBad() string {
	addrs := []string{e.good.Addr, e.bad.Addr}
	sort.Strings(addrs)
	idx := 0
	if addrs[1] == e.bad.Addr {
		idx = 1
	}
	return strconv.FormatUint(uint64(idx)<<48|7, 10)
}

func c11(r *ev.Run) {
	r.Rule("downstream: grammar-aware mutations of valid frames (length fields, type bytes, CR/LF dropped, truncation at every offset, PRNG byte edits), shapes (arrays of arrays, non-bulk elements, a million empty bulks, huge inline lines), nesting bombs; backend: for each request class the proxy issues or forwards (READONLY, CLUSTER NODES, ASKING, SCAN, plain command) malformed RESP, malformed MOVED / ASK / CLUSTERDOWN errors, malformed CLUSTER NODES bodies and SCAN replies; the same CLUSTER NODES bodies (plus PRNG line mutations) at the parser wrapper in-process; distinct = distinct input classes")
	r.Assume("resource bound per case: peak RSS may grow by at most 64 MiB + 64 x input bytes + the largest declared bulk length (<= 512 MiB) + 64 B x the largest declared array length (<= 2^20) above the previous peak")
	r.Assume("verdict: the proxy process exits, stops answering a canary on another connection through a healthy node (3 tries), or exceeds the resource bound; the offending connection may get an error or be closed; silence with the connection open is legal only for syntactically incomplete input")
	runAPIPart(r, "parsers", false, nil, 10*time.Minute)
	if os.Getenv("VERIF_C11_ONLY") == "" || os.Getenv("VERIF_C11_ONLY") == "poison" {
		c11Poison(r)
	}
	if os.Getenv("VERIF_C11_ONLY") == "" || os.Getenv("VERIF_C11_ONLY") == "replica-less" {
		c11ReplicaLessReads(r)
		if os.Getenv("VERIF_C11_ONLY") == "replica-less" {
			return
		}
	}

	rnd := rand.New(rand.NewSource(r.Seed + 11))
	thorough := r.Tier == "thorough"
	cases := append(c11DownstreamCases(rnd, thorough), c11BackendCases(rnd, thorough)...)
	os.MkdirAll(ev.RunDir("C11"), 0o755)
	if only := os.Getenv("VERIF_C11_ONLY"); only != "" { // debugging aid: the volume requirements below then report the run inconclusive
		var kept []hostileCase
		for _, c := range cases {
			if strings.Contains(c.Class, only) {
				kept = append(kept, c)
			}
		}
		cases = kept
	}
	e := &c11Env{r: r}
	defer func() { e.stop() }()
	restart := func() bool {
		e.stop()
		e.s, e.cl = nil, nil
		if err := e.start(); err != nil {
			r.Internal("cannot start the proxy for C11: %v", err)
			return false
		}
		return true
	}
	if !restart() {
		return
	}
	sampleKept := 0
	slow := map[string]float64{}
	defer func() { r.Set("slow_cases_s", slow) }()
	for ci := range cases {
		c := &cases[ci]
		if e.batchN >= 50 {
			if !restart() {
				return
			}
		}
		e.batchN++
		// the input is on disk before it is sent
		os.WriteFile(fmt.Sprintf("%s/case-current.bin", ev.RunDir("C11")), c.Data, 0o644)
		os.WriteFile(fmt.Sprintf("%s/case-current.txt", ev.RunDir("C11")), []byte(fmt.Sprintf("%d %s %s %s", ci, c.Side, c.Class, c.ReqClass)), 0o644)
		hwmBefore := vmHWMkB(e.s.Pid())
		caseStart := time.Now()
		outcome := "?"
		if c.Side == "downstream" {
			outcome = e.runDownstream(c)
		} else {
			outcome = e.runBackend(c)
		}
		alive := e.s.Alive()
		witness := map[string]interface{}{"side": c.Side, "class": c.Class, "request_class": c.ReqClass, "input_len": len(c.Data), "input_head": trunc(truncN(c.Data, 300)), "offending_connection": outcome}
		if !alive {
			time.Sleep(100 * time.Millisecond)
			witness["crash"] = e.s.CrashLine()
			witness["log_tail"] = e.s.LogTail(3000)
			r.Violation("C11:crash:"+c.Class, "the proxy process died: "+e.s.CrashLine(), witness)
			r.Case("case/" + c.Class)
			if !restart() {
				return
			}
			continue
		}
		if !e.canary() {
			if !e.s.Alive() {
				witness["crash"] = e.s.CrashLine()
				witness["log_tail"] = e.s.LogTail(3000)
				r.Violation("C11:crash:"+c.Class, "the proxy process died: "+e.s.CrashLine(), witness)
			} else {
				g, _ := e.s.Goroutines()
				witness["goroutines"] = truncStr(g, 6000)
				r.Violation("C11:wedged:"+c.Class, "after the hostile input the proxy no longer serves a canary on another connection", witness)
			}
			r.Case("case/" + c.Class)
			if !restart() {
				return
			}
			continue
		}
		hwmAfter := vmHWMkB(e.s.Pid())
		bound := int64(64<<10) + 64*int64(len(c.Data))/1024 + c.DeclBulk/1024 + 64*c.DeclArr/1024 // kB
		if hwmBefore < e.baseline {
			hwmBefore = e.baseline
		}
		if grow := hwmAfter - hwmBefore; grow > bound {
			witness["peak_rss_growth_kB"] = grow
			witness["bound_kB"] = bound
			r.Violation("C11:memory:"+c.Class, fmt.Sprintf("peak RSS grew by %d MiB for %d input bytes (bound %d MiB)", grow>>10, len(c.Data), bound>>10), witness)
			if !restart() {
				return
			}
		}
		if c.Side == "backend" {
			// one hostile node must not make the proxy open connections without bound (each is a descriptor taken from every
			// other service of the process)
			atomic.StoreInt64(&e.spellings, 0)
			if peak := atomic.SwapInt64(&e.peakConns, 0); peak > 48 {
				witness["connections_open_at_the_hostile_node"] = peak
				r.Violation("C11:connection-fan-out:"+c.Class, fmt.Sprintf("one request answered by a hostile node made the proxy hold %d connections to that node at once", peak), witness)
				if !restart() {
					return
				}
			}
		}
		if c.Side == "backend" && c.ReqClass == "plain" && strings.HasPrefix(c.Class, "backend-redirect:") && outcome == "silence" {
			r.Violation("C11:silence:"+c.Class, "the backend answered the request with an error line, but the client got neither a reply nor a close", witness)
		}
		if c.Complete && outcome == "silence" {
			r.Violation("C11:silence:"+c.Class, "a complete request got neither a reply nor a close", witness)
		}
		r.Case("case/" + c.Class)
		if d := time.Since(caseStart); d > 2*time.Second {
			slow[c.Class] = d.Seconds()
		}
		r.Count("side:"+c.Side, 1)
		r.Count("outcome:"+outcome, 1)
		if c.Side == "backend" {
			r.Count("backend_hostile_replies_served", atomic.SwapInt64(&e.served, 0))
		}
		if sampleKept < 4 && (ci%97 == 5) {
			sampleKept++
			r.Sample(map[string]interface{}{"side": c.Side, "class": c.Class, "input_head": trunc(truncN(c.Data, 120)), "offending_connection": outcome})
		}
	}
	r.Require("side:downstream", 100)
	r.Require("side:backend", 100)
	r.Require("backend_hostile_replies_served", 100)
	for _, c := range []string{"readonly", "cluster", "asking", "scan", "plain"} {
		r.Require("hostile_reply_served:"+c, 15)
	}
}

func truncStr(s string, n int) string {
	if len(s) > n {
		return s[:n]
	}
	return s
}

// runDownstream sends the hostile bytes on a fresh client connection and classifies what that connection sees.
func (e *c11Env) runDownstream(c *hostileCase) string {
	conn, err := e.svc.Dial()
	if err != nil {
		return "dial-failed"
	}
	defer conn.Close()
	werr := make(chan error, 1)
	go func() {
		conn.C.SetWriteDeadline(time.Now().Add(60 * time.Second))
		_, err := conn.C.Write(c.Data)
		werr <- err
	}()
	wait := 400 * time.Millisecond
	if len(c.Data) > 1<<20 {
		wait = 8 * time.Second
	}
	outcome := "silence"
	var writtenAt time.Time
	deadline := time.Now().Add(wait + 20*time.Second)
	for time.Now().Before(deadline) {
		v, err := conn.Read(wait)
		if err == nil {
			if v.Kind == resp.Error {
				outcome = "error-reply"
			} else {
				outcome = "reply"
			}
			break
		}
		if rclient.IsTimeout(err) {
			select {
			case <-werr:
				werr <- nil
				// everything has been written: the proxy may still be working on it (a loaded machine needs seconds for tens of
				// megabytes), so the input gets a grace of 1 s per MiB after the write before its silence counts
				if writtenAt.IsZero() {
					writtenAt = time.Now()
				}
				if time.Since(writtenAt) < time.Duration(len(c.Data)>>20)*time.Second {
					deadline = time.Now().Add(wait + 20*time.Second)
					continue
				}
				outcome = "silence"
				goto done
			default:
				continue // still writing a big input
			}
		}
		outcome = "closed"
		break
	}
done:
	return outcome
}

// runBackend makes the proxy issue a request of the case's class to the hostile node, which answers with the case's bytes.
func (e *c11Env) runBackend(c *hostileCase) string {
	e.hmu.Lock()
	e.hostile = c
	e.hmu.Unlock()
	defer func() {
		e.hmu.Lock()
		e.hostile = nil
		e.hmu.Unlock()
		e.bad.KillConns(true) // the next case starts from a fresh backend connection
		time.Sleep(20 * time.Millisecond)
	}()
	conn, err := e.svc.Dial()
	if err != nil {
		return "dial-failed"
	}
	defer conn.Close()
	do := func(args ...string) string {
		v, err := conn.DoS(3*time.Second, args...)
		switch {
		case err == nil && v.Kind == resp.Error:
			return "error-reply"
		case err == nil:
			return "reply"
		case rclient.IsTimeout(err):
			return "silence"
		}
		return "closed"
	}
	switch c.ReqClass {
	case "plain":
		return do("GET", e.badKey)
	case "asking":
		return do("SET", "{"+e.askKey+"}.absent", "v") // same slot, absent on the source: ASK to the hostile node
	case "scan":
		return do("SCAN", e.scanCursorForBad())
	case "readonly":
		e.bad.KillConns(true) // a new backend connection starts with READONLY
		time.Sleep(30 * time.Millisecond)
		return do("GET", e.badKey)
	case "cluster":
		// the periodic refresh (30 ms) asks a random seed; wait until the hostile node has served at least one
		deadline := time.Now().Add(3 * time.Second)
		for atomic.LoadInt64(&e.served) == 0 && time.Now().Before(deadline) && e.s.Alive() {
			time.Sleep(10 * time.Millisecond)
		}
		time.Sleep(60 * time.Millisecond)
		return do("GET", e.canKey)
	}
	return "?"
}

// c11Poison: one client sends requests a Redis server treats as protocol errors (a null bulk string as key or argument). A server
// answers such a request with an error and closes the connection - which, behind the proxy, is the backend connection shared by
// every client. Another client that pipelines ordinary requests meanwhile must not see a single error.
func c11Poison(r *ev.Run) {
	s, err := startSUT(r, false, 60000, 20)
	if err != nil {
		r.Internal("start sut: %v", err)
		return
	}
	defer s.Close()
	cl, err := fakecluster.New(2, 0)
	if err != nil {
		r.Internal("fakecluster: %v", err)
		return
	}
	defer cl.Close()
	cl.AssignContiguous()
	cl.LogArgs = false
	svc, err := startRedisSvc(s, cl, cl.Addrs(), RedisOpts{})
	if err != nil || !svc.WaitRouting(1, 10*time.Second) {
		r.Internal("service did not start: %v", err)
		return
	}
	victim, err1 := svc.Dial()
	attacker, err2 := svc.Dial()
	if err1 != nil || err2 != nil {
		r.Internal("dial")
		return
	}
	defer victim.Close()
	defer attacker.Close()
	stop := make(chan struct{})
	var verr, vok int64
	var firstErr atomic.Value
	var wg sync.WaitGroup
	wg.Add(1)
	go func() {
		defer wg.Done()
		for i := 0; ; i++ {
			select {
			case <-stop:
				return
			default:
			}
			v, err := victim.DoS(5*time.Second, "SET", fmt.Sprintf("victim.%d", i%200), "v")
			if err != nil {
				firstErr.Store("no reply: " + err.Error())
				atomic.AddInt64(&verr, 1)
				return
			}
			if v.Kind == resp.Error {
				firstErr.Store(v.String())
				atomic.AddInt64(&verr, 1)
			} else {
				atomic.AddInt64(&vok, 1)
			}
		}
	}()
	shapes := map[string][]byte{
		"null-key":            []byte("*2\r\n$3\r\nGET\r\n$-1\r\n"),
		"null-value":          []byte("*3\r\n$3\r\nSET\r\n$1\r\nk\r\n$-1\r\n"),
		"null-among-mget":     []byte("*3\r\n$4\r\nMGET\r\n$1\r\na\r\n$-1\r\n"),
		"null-field":          []byte("*4\r\n$4\r\nHSET\r\n$1\r\nh\r\n$-1\r\n$1\r\nv\r\n"),
		"null-second-of-mset": []byte("*5\r\n$4\r\nMSET\r\n$1\r\na\r\n$1\r\n1\r\n$-1\r\n$1\r\n2\r\n"),
	}
	names := make([]string, 0, len(shapes))
	for n := range shapes {
		names = append(names, n)
	}
	sort.Strings(names)
	rounds := 40
	if r.Tier == "thorough" {
		rounds = 400
	}
	for i := 0; i < rounds || atomic.LoadInt64(&vok)+atomic.LoadInt64(&verr) < 200 && i < 100*rounds; i++ {
		for _, n := range names {
			time.Sleep(300 * time.Microsecond)
			attacker.C.SetWriteDeadline(time.Now().Add(2 * time.Second))
			if _, err := attacker.C.Write(shapes[n]); err != nil {
				attacker.Close()
				attacker, _ = svc.Dial()
				continue
			}
			if _, err := attacker.Read(2 * time.Second); err != nil {
				attacker.Close()
				attacker, _ = svc.Dial()
			}
			r.Count("poison_requests_sent", 1)
		}
	}
	close(stop)
	wg.Wait()
	if sutDied(r, s, "null bulk strings in requests") {
		return
	}
	if n := atomic.LoadInt64(&verr); n > 0 {
		r.Violation("C11:other-connection-disturbed:null-bulk-in-request", fmt.Sprintf("while another client sent requests with null bulk strings, %d of %d ordinary requests of an innocent connection failed (%v): the proxy relayed what a server answers with a protocol error and the close of the shared backend connection", n, n+atomic.LoadInt64(&vok), firstErr.Load()),
			map[string]interface{}{"shapes": names, "victim_errors": n, "victim_ok": atomic.LoadInt64(&vok)})
	}
	r.Count("victim_requests_during_poison", atomic.LoadInt64(&vok)+atomic.LoadInt64(&verr))
	r.Case("poison/null-bulk")
	r.Require("poison_requests_sent", 20)
	r.Require("victim_requests_during_poison", 50)
}

// c11ReplicaLessReads: CLUSTER NODES answers that are well-formed but leave a master without any usable replica (none listed, or
// only replicas flagged fail / noaddr / handshake) while the service reads from replicas: reads of that master's slots must be
// answered, the process must survive.
func c11ReplicaLessReads(r *ev.Run) {
	for _, strategy := range []predis.ReadStrategy{predis.ReadStrategy_REPLICA, predis.ReadStrategy_BOTH} {
		for _, layout := range []string{"no-replica-listed", "replicas-flagged-fail", "replicas-flagged-noaddr", "replicas-in-handshake"} {
			s, err := startSUT(r, false, 600000, 20)
			if err != nil {
				r.Internal("start sut: %v", err)
				return
			}
			cl, err := fakecluster.New(2, 0)
			if err != nil {
				s.Close()
				r.Internal("fakecluster: %v", err)
				return
			}
			cl.AssignContiguous()
			cl.LogArgs = false
			for _, n := range cl.Nodes {
				n := n
				n.Handler = func(c *fakecluster.Conn, args [][]byte) (fakecluster.Reply, bool) {
					if len(args) >= 2 && strings.EqualFold(string(args[0]), "cluster") && strings.EqualFold(string(args[1]), "nodes") && layout != "no-replica-listed" {
						body := n.ClusterNodesLocked()
						flag := map[string]string{"replicas-flagged-fail": "slave,fail", "replicas-flagged-noaddr": "slave,noaddr", "replicas-in-handshake": "slave,handshake"}[layout]
						for i, m := range cl.Nodes {
							// one replica line per master, at an address nobody listens on
							body += fmt.Sprintf("%040x 127.0.0.1:%d@%d %s %s 0 1 1 connected\n", 900+i, 1+i, 10001+i, flag, m.ID)
						}
						return fakecluster.Reply{Raw: resp.Encode(resp.BS(body))}, true
					}
					return fakecluster.Reply{}, false
				}
			}
			svc, err := startRedisSvc(s, cl, cl.Addrs(), RedisOpts{ReadStrategy: strategy, ConnTimeout: 300 * time.Millisecond})
			ok := err == nil && svc.WaitRouting(1, 10*time.Second)
			if ok {
				conn, err := svc.Dial()
				if err == nil {
					bad := ""
					for i := 0; i < 40 && bad == ""; i++ {
						k := fmt.Sprintf("rl%d", i)
						if _, err := conn.DoS(3*time.Second, "SET", k, "v"); err != nil {
							bad = "SET " + k + ": " + err.Error()
							break
						}
						v, err := conn.DoS(3*time.Second, "GET", k)
						if err != nil {
							bad = "GET " + k + ": " + err.Error()
						} else if v.Kind == resp.Error && layout == "no-replica-listed" {
							bad = "GET " + k + " -> " + v.String()
						}
					}
					conn.Close()
					w := map[string]interface{}{"read_strategy": strategy.String(), "cluster_nodes_layout": layout, "first_problem": bad}
					if bad != "" {
						time.Sleep(300 * time.Millisecond) // a dying process closes its connections before it is reaped
					}
					if !s.Alive() {
						w["crash"] = s.CrashLine()
						w["log_tail"] = s.LogTail(3000)
						r.Violation("C11:crash:replica-less-master:"+layout, "the proxy process died reading from a master without usable replica: "+s.CrashLine(), w)
					} else if bad != "" {
						r.Violation("C11:silence:replica-less-master:"+layout, "a read of a master without usable replica was not answered (the master itself is reachable)", w)
					} else {
						r.Count("replica_less_layouts_served", 1)
					}
				}
			} else {
				r.Inconclusive("replica-less:service-not-up")
			}
			r.Case("replica-less/" + strategy.String() + "/" + layout)
			s.Close()
			cl.Close()
		}
	}
}
