package main

import (
	"bytes"
	"fmt"
	"github.com/golang/snappy"
	"math/rand"
	"sort"
	"strconv"
	"strings"
	"sync"
	"time"

	sredis "github.com/samaritan-proxy/samaritan/proc/redis"

	"verif/internal/ev"
	"verif/internal/fakecluster"
	"verif/internal/resp"
)

func init() {
	register(&Check{ID: "C18", Level: "exploration", Drive: c18})
	apiParts["C18/cursor"] = c18Cursor
}

func c18Cursor(r *ev.Run) {
	rnd := rand.New(rand.NewSource(r.Seed))
	idxs := []uint16{0, 1, 2, 3, 255, 256, 257, 32766, 32767, 32768, 65534, 65535}
	curs := []uint64{0, 1, 2, 1<<32 - 1, 1 << 32, 1<<47 - 1, 1 << 47, 1<<47 + 3, 1<<48 - 2, 1<<48 - 1}
	n := 200000
	if r.Tier == "thorough" {
		n = 5000000
	}
	check := func(i uint16, c uint64) {
		g := sredis.VerifScanCursorGen(i, c)
		pi, pc := sredis.VerifScanCursorParse(g)
		if pi != i || pc != c {
			r.Violation("C18:cursor-codec-lossy", fmt.Sprintf("cursor codec: gen(%d,%d)=%d parses back to (%d,%d)", i, c, g, pi, pc), map[string]interface{}{"node_index": i, "node_cursor": c, "client_cursor": g})
		}
		if i < 65535 {
			if g2 := sredis.VerifScanCursorGen(i+1, 0); g2 <= g {
				r.Violation("C18:cursor-codec-not-monotone", "cursor of the next node is not greater than any cursor of this node", map[string]interface{}{"node_index": i, "node_cursor": c})
			}
		}
	}
	for _, i := range idxs {
		for _, c := range curs {
			check(i, c)
			r.Case(fmt.Sprintf("codec/i%d/c%d", i, c))
		}
	}
	for k := 0; k < n; k++ {
		check(uint16(rnd.Intn(65536)), uint64(rnd.Int63())&(1<<48-1))
	}
	r.Cases(n, "codec/random")
	r.Count("cursor_codec_pairs", int64(n+len(idxs)*len(curs)))
}

type scanPage struct {
	cursor uint64 // the cursor the node expects
	keys   []string
	next   uint64
}

func c18(r *ev.Run) {
	r.Rule("cursor codec: boundary and PRNG (node index, node cursor < 2^48) pairs; iteration: 1-12 seed nodes, PRNG key distributions (empty nodes, one huge node, single pages of 1100-3600 keys), per-node scripted cursor sequences of length 1-30 with arbitrary distinct values < 2^48 (incl. >= 2^47) ending in 0, COUNT / MATCH / TYPE arguments with arbitrary bytes; client-supplied cursors past the last node and malformed cursors; distinct = distinct (node count, script-length class, argument shape) tuples and cursor classes")
	r.Assume("the proxy iterates its healthy seed-host list sorted by address (string order); node indices >= 32768 need 32768 seed hosts and are outside the workload")
	runAPIPart(r, "cursor", false, nil, 5*time.Minute)
	iters := 120
	if r.Tier == "thorough" {
		iters = 2500
	}
	// (a fresh proxy process every 250 services: the statistics of a stopped service are never released by the process, a few
	// megabytes each - thousands of services in one process would need tens of gigabytes)
	for done := 0; done < iters; done += 250 {
		c18Iterations(r, false, min(250, iters-done), r.Seed+18+int64(done)*7)
	}
	// the same iterations on a race-instrumented proxy: the reply is handed to the session by one goroutine and its cursor is
	// rewritten by another piece of code; only the race detector sees an overlap that lasts nanoseconds
	for done := 0; done < iters/6; done += 100 {
		c18Iterations(r, true, min(100, iters/6-done), r.Seed+1818+int64(done)*7)
	}
	r.Require("iterations_completed", int64(iters/2))
}

func c18Iterations(r *ev.Run, race bool, iters int, seed int64) {
	s, err := startSUT(r, race, 60000, 20)
	if err != nil {
		r.Internal("start sut: %v", err)
		return
	}
	defer s.Close()
	if race {
		defer func() {
			for _, rr := range raceReports(s, []string{"proc/redis/request.go", "proc/redis/codec.go", "proc/redis/session.go", "proc/redis/handler.go", "proc/redis/resp.go"}) {
				r.Violation("C18:race:"+rr.Key, "data race on a SCAN reply between the code that rewrites its cursor and the session that writes it to the client", map[string]interface{}{"report": rr.Text})
			}
			r.Count("race_iterations_completed", 1)
		}()
	}
	rnd := rand.New(rand.NewSource(seed))
	for it := 0; it < iters; it++ {
		if sutDied(r, s, "between iterations") {
			return
		}
		nn := 1 + rnd.Intn(12)
		cl, err := fakecluster.New(nn, 0)
		if err != nil {
			r.Internal("fakecluster: %v", err)
			return
		}
		cl.AssignContiguous()
		cl.LogArgs = false
		// key distribution and scripts
		scripts := make([][]scanPage, nn)
		allKeys := map[string]bool{}
		huge := rnd.Intn(nn)
		totalPages := 0
		for ni := 0; ni < nn; ni++ {
			nk := rnd.Intn(12)
			if rnd.Intn(3) == 0 {
				nk = 0
			}
			if ni == huge && rnd.Intn(3) == 0 {
				nk = 300 + rnd.Intn(700)
			}
			keys := make([]string, nk)
			for k := range keys {
				keys[k] = fmt.Sprintf("n%d.k%d.%x", ni, k, rnd.Intn(1<<20))
				if k == 0 && it%3 == 0 {
					// a key NAME that looks like a compressed value (documented header + a decodable stream): names are
					// returned as stored, whatever they look like
					keys[k] = string(looksCompressed(fmt.Sprintf("trap-n%d-%d", ni, it)))
				}
				allKeys[keys[k]] = true
			}
			np := 1 + rnd.Intn(30)
			if rnd.Intn(2) == 0 {
				np = 1 + rnd.Intn(3)
			}
			if ni == huge && it%4 == 1 {
				// one page with more keys than any internal array limit is likely to be (COUNT is only a hint to the server)
				for _, k := range keys {
					delete(allKeys, k)
				}
				nk = 1100 + rnd.Intn(2500)
				keys = make([]string, nk)
				for k := range keys {
					keys[k] = fmt.Sprintf("n%d.big%d.%x", ni, k, rnd.Intn(1<<20))
					allKeys[keys[k]] = true
				}
				np = 1 + rnd.Intn(2)
				r.Count("iterations_with_a_page_of_more_than_1024_keys", 1)
			}
			used := map[uint64]bool{0: true}
			pages := make([]scanPage, np)
			cur := uint64(0)
			for p := 0; p < np; p++ {
				pages[p].cursor = cur
				lo, hi := p*len(keys)/np, (p+1)*len(keys)/np
				pages[p].keys = keys[lo:hi]
				if p == np-1 {
					pages[p].next = 0
				} else {
					var nx uint64
					for {
						switch rnd.Intn(4) {
						case 0:
							nx = uint64(rnd.Intn(1000))
						case 1:
							nx = 1<<47 + uint64(rnd.Int63n(1<<47)) // top bit of the 48-bit field
						default:
							nx = uint64(rnd.Int63n(1 << 48))
						}
						if !used[nx] {
							break
						}
					}
					used[nx] = true
					pages[p].next = nx
					cur = nx
				}
			}
			scripts[ni] = pages
			totalPages += np
		}
		// proxy's node order: healthy seed hosts sorted by address
		order := make([]int, nn)
		for i := range order {
			order[i] = i
		}
		sort.Slice(order, func(a, b int) bool { return cl.Nodes[order[a]].Addr < cl.Nodes[order[b]].Addr })
		type scanArrival struct {
			node   int
			cursor string
			extra  [][]byte
		}
		var amu sync.Mutex
		var arrivals []scanArrival
		for ni, n := range cl.Nodes {
			ni, n := ni, n
			n.Handler = func(c *fakecluster.Conn, args [][]byte) (fakecluster.Reply, bool) {
				if !strings.EqualFold(string(args[0]), "scan") || len(args) < 2 {
					return fakecluster.Reply{}, false
				}
				amu.Lock()
				arrivals = append(arrivals, scanArrival{node: ni, cursor: string(args[1]), extra: args[2:]})
				amu.Unlock()
				cur, err := strconv.ParseUint(string(args[1]), 10, 64)
				if err != nil {
					return fakecluster.Reply{Raw: resp.Encode(resp.E("ERR invalid cursor"))}, true
				}
				for _, p := range scripts[ni] {
					if p.cursor == cur {
						ks := make([]resp.Value, len(p.keys))
						for i, k := range p.keys {
							ks[i] = resp.BS(k)
						}
						return fakecluster.Reply{Raw: resp.Encode(resp.A(resp.BS(strconv.FormatUint(p.next, 10)), resp.A(ks...)))}, true
					}
				}
				return fakecluster.Reply{Raw: resp.Encode(resp.E("ERR cursor never handed out by this node: " + string(args[1])))}, true
			}
		}
		svc, err := startRedisSvc(s, cl, cl.Addrs(), RedisOpts{})
		if err != nil {
			cl.Close()
			r.Internal("%v", err)
			return
		}
		svc.WaitRouting(1, 10*time.Second)
		conn, err := svc.Dial()
		if err != nil {
			r.Internal("dial: %v", err)
			return
		}
		// extra arguments
		var extra [][]byte
		shape := "plain"
		switch rnd.Intn(4) {
		case 1:
			extra = [][]byte{[]byte("COUNT"), []byte(fmt.Sprint(1 + rnd.Intn(1000)))}
			shape = "count"
		case 2:
			pat := make([]byte, 1+rnd.Intn(8))
			rnd.Read(pat)
			extra = [][]byte{[]byte("match"), pat, []byte("Count"), []byte("10")}
			shape = "match+count"
		case 3:
			extra = [][]byte{[]byte("MATCH"), []byte("n*\r\n[a-z]?"), []byte("TYPE"), []byte("string")}
			shape = "match+type"
		}
		cursor := "0"
		got := map[string]int{}
		calls := 0
		terminated := false
		failed := false
		for calls <= totalPages+2 {
			args := append([][]byte{[]byte("SCAN"), []byte(cursor)}, extra...)
			v, err := conn.Do(20*time.Second, args...)
			calls++
			if err != nil {
				time.Sleep(50 * time.Millisecond)
				if sutDied(r, s, map[string]interface{}{"request": "SCAN " + cursor}) {
					return
				}
				r.Violation("C18:no-reply", "no reply to SCAN", map[string]interface{}{"cursor": cursor, "error": err.Error()})
				failed = true
				break
			}
			if v.Kind != resp.Array || len(v.Arr) != 2 || v.Arr[0].Kind != resp.Bulk || v.Arr[1].Kind != resp.Array {
				r.Violation("C18:bad-reply", "SCAN reply is not [cursor, [keys]]", map[string]interface{}{"cursor": cursor, "reply": v.String(), "nodes": nn, "scripts": scriptSummary(scripts)})
				failed = true
				break
			}
			for _, k := range v.Arr[1].Arr {
				got[string(k.Str)]++
			}
			cursor = string(v.Arr[0].Str)
			if cursor == "0" {
				terminated = true
				break
			}
		}
		if !failed {
			if !terminated {
				r.Violation("C18:no-termination", fmt.Sprintf("SCAN did not reach cursor 0 within %d calls (sum of script lengths + 2)", calls), map[string]interface{}{"nodes": nn, "scripts": scriptSummary(scripts), "last_cursor": cursor})
			} else {
				missing, phantom := 0, 0
				for k := range allKeys {
					if got[k] == 0 {
						missing++
					}
				}
				for k := range got {
					if !allKeys[k] {
						phantom++
					}
				}
				if missing > 0 || phantom > 0 {
					r.Violation("C18:coverage", fmt.Sprintf("iteration returned %d keys too few and %d keys stored nowhere", missing, phantom), map[string]interface{}{"nodes": nn, "scripts": scriptSummary(scripts)})
				}
				// node log: each node its scripted cursor sequence, once, nodes in address order, extras byte-identical
				amu.Lock()
				as := arrivals
				amu.Unlock()
				ai := 0
				okLog := true
				for _, ni := range order {
					for _, p := range scripts[ni] {
						if ai >= len(as) || as[ai].node != ni || as[ai].cursor != strconv.FormatUint(p.cursor, 10) || !sameArgs(as[ai].extra, extra) {
							okLog = false
						}
						ai++
					}
				}
				if !okLog || ai != len(as) {
					r.Violation("C18:node-visits", "nodes did not each receive exactly their scripted cursor sequence once, in address order, with the extra arguments passed through",
						map[string]interface{}{"nodes": nn, "expected_calls": ai, "observed_calls": len(as), "scripts": scriptSummary(scripts), "extra": argStrings(extra)})
				}
				r.Count("iterations_completed", 1)
				r.Count("scan_calls", int64(calls))
			}
		}
		// client-supplied cursors
		for _, pc := range []struct {
			cur   string
			class string
		}{
			{strconv.FormatUint(uint64(nn)<<48, 10), "first-past-last"},
			{strconv.FormatUint(uint64(nn+1)<<48|5, 10), "past-last+1"},
			{strconv.FormatUint(uint64(nn+1+rnd.Intn(1000))<<48|uint64(rnd.Int63n(1<<48)), 10), "past-last-random"},
			{strconv.FormatUint(32767<<48|1, 10), "index-32767"},
		} {
			v, err := conn.DoS(20*time.Second, "SCAN", pc.cur)
			if err != nil {
				time.Sleep(50 * time.Millisecond)
				if sutDied(r, s, map[string]interface{}{"request": "SCAN " + pc.cur, "nodes": nn}) {
					return
				}
			}
			if err != nil || !(v.Kind == resp.Array && len(v.Arr) == 2 && string(v.Arr[0].Str) == "0" && v.Arr[1].Kind == resp.Array && len(v.Arr[1].Arr) == 0) {
				r.Violation("C18:past-last-node:"+pc.class, "a cursor past the last node did not yield the terminating reply [0, []]", map[string]interface{}{"cursor": pc.cur, "nodes": nn, "reply": v.String(), "error": fmt.Sprint(err)})
				if err != nil {
					conn.Close()
					conn, _ = svc.Dial()
				}
			}
			r.Case("cursor/" + pc.class)
		}
		for _, bad := range []string{"abc", "", "1e3", "18446744073709551616", "99999999999999999999999", "0x10", " 1"} {
			v, err := conn.DoS(20*time.Second, "SCAN", bad)
			if err != nil {
				time.Sleep(50 * time.Millisecond)
				if sutDied(r, s, map[string]interface{}{"request": "SCAN " + bad}) {
					return
				}
			}
			if err != nil || v.Kind != resp.Error {
				r.Violation("C18:malformed-cursor", "a malformed cursor did not get exactly one error reply", map[string]interface{}{"cursor": bad, "reply": v.String(), "error": fmt.Sprint(err)})
				if err != nil {
					conn.Close()
					conn, _ = svc.Dial()
				}
			}
			r.Case("cursor/malformed")
		}
		for _, odd := range []string{"-1", "-0", "+5", "9223372036854775807"} {
			v, err := conn.DoS(20*time.Second, "SCAN", odd)
			if err != nil || !(v.Kind == resp.Error || (v.Kind == resp.Array && len(v.Arr) == 2)) {
				r.Violation("C18:odd-cursor", "an unusual cursor did not get exactly one well-formed reply", map[string]interface{}{"cursor": odd, "reply": v.String(), "error": fmt.Sprint(err)})
			}
			r.Case("cursor/odd")
		}
		lc := "short"
		if totalPages > 40 {
			lc = "long"
		}
		r.Case(fmt.Sprintf("iter/n%d/%s/%s", nn, lc, shape))
		if it == 0 && !race {
			r.Sample(map[string]interface{}{"nodes": nn, "keys": len(allKeys), "scripts": scriptSummary(scripts), "extra_args": argStrings(extra), "calls": calls})
		}
		conn.Close()
		s.StopProc(svc.Name, 20*time.Second)
		cl.Close()
	}
}

func sameArgs(a, b [][]byte) bool {
	if len(a) != len(b) {
		return false
	}
	for i := range a {
		if !bytes.Equal(a[i], b[i]) {
			return false
		}
	}
	return true
}

func scriptSummary(scripts [][]scanPage) []string {
	out := []string{}
	for ni, ps := range scripts {
		s := fmt.Sprintf("node%d:", ni)
		for i, p := range ps {
			if i >= 6 {
				s += fmt.Sprintf(" ...(%d pages)", len(ps))
				break
			}
			s += fmt.Sprintf(" %d->%d(%dk)", p.cursor, p.next, len(p.keys))
		}
		out = append(out, s)
	}
	return out
}

// looksCompressed returns the documented compression header followed by a snappy stream of the given text.
func looksCompressed(text string) []byte {
	var bb bytes.Buffer
	bb.Write(cpsHeader)
	w := snappy.NewBufferedWriter(&bb)
	w.Write([]byte(text))
	w.Close()
	return bb.Bytes()
}
