package main

import (
	"bytes"
	"fmt"
	predis "github.com/samaritan-proxy/samaritan/pb/config/protocol/redis"
	"math/rand"
	"strings"
	"sync"
	"sync/atomic"
	"time"

	"github.com/anishathalye/porcupine"

	"verif/internal/ev"
	"verif/internal/fakecluster"
	"verif/internal/lclock"
	"verif/internal/rclient"
	"verif/internal/refredis"
	"verif/internal/resp"
	"verif/internal/sutc"
)

func init() {
	register(&Check{ID: "C04", Level: "exploration", Drive: c04})
}

// migration is a scripted slot migration walked one step at a time.
type migration struct {
	cl       *fakecluster.Cluster
	slot     int
	src, dst *fakecluster.Node
	step     int
	keys     []string // keys of the slot still on the source when key moving started
	log      []string
}

// next performs the next step; false when the migration is complete.
func (m *migration) next(rnd *rand.Rand) bool {
	cl := m.cl
	cl.Lock()
	defer cl.Unlock()
	switch {
	case m.step == 0:
		m.dst.SetImportingLocked(m.slot, m.src)
		m.log = append(m.log, fmt.Sprintf("slot %d: IMPORTING on node %d", m.slot, m.dst.Idx))
	case m.step == 1:
		m.src.SetMigratingLocked(m.slot, m.dst)
		m.log = append(m.log, fmt.Sprintf("slot %d: MIGRATING on node %d", m.slot, m.src.Idx))
	case m.step == 2:
		m.keys = nil
		for _, k := range m.src.DB().Keys() {
			if fakecluster.Slot([]byte(k)) == m.slot {
				m.keys = append(m.keys, k)
			}
		}
		rnd.Shuffle(len(m.keys), func(i, j int) { m.keys[i], m.keys[j] = m.keys[j], m.keys[i] })
		m.log = append(m.log, fmt.Sprintf("slot %d: %d keys to move", m.slot, len(m.keys)))
	case m.step == 3:
		if len(m.keys) > 0 {
			k := m.keys[0]
			m.keys = m.keys[1:]
			cl.MigrateKeyLocked(m.src, m.dst, k)
			m.log = append(m.log, fmt.Sprintf("MIGRATE %q", k))
			return true // stay in this step until all keys are moved
		}
		// keys created on the source meanwhile? (new keys go to the target through ASK, so none)
		for _, k := range m.src.DB().Keys() {
			if fakecluster.Slot([]byte(k)) == m.slot {
				cl.MigrateKeyLocked(m.src, m.dst, k)
			}
		}
	case m.step == 4:
		cl.SetOwnerLocked(m.slot, m.dst, m.dst)
		m.dst.SetImportingLocked(m.slot, nil)
		m.log = append(m.log, fmt.Sprintf("slot %d: SETSLOT NODE on the target", m.slot))
	case m.step == 5:
		// a key may have been written to the source between the last MIGRATE and now only via a non-ASK path: none, the source answers ASK for absent keys
		cl.SetOwnerLocked(m.slot, m.dst, m.src)
		m.src.SetMigratingLocked(m.slot, nil)
		m.log = append(m.log, fmt.Sprintf("slot %d: SETSLOT NODE on the source", m.slot))
	case m.step == 6:
		cl.SetOwnerLocked(m.slot, m.dst)
		m.log = append(m.log, fmt.Sprintf("slot %d: SETSLOT NODE everywhere", m.slot))
	default:
		return false
	}
	m.step++
	return true
}

// keysInSlots builds key names concentrated in a few slots (hash tags), per type prefix.
func keysInSlots(rnd *rand.Rand, nslots, perSlot int) ([]string, map[int]bool) {
	var keys []string
	slots := map[int]bool{}
	edges := nslots%2 == 0 || perSlot == 3
	for s := 0; s < nslots; s++ {
		tag := fmt.Sprintf("t%d", rnd.Intn(100000))
		if s < 2 && edges {
			tag = edgeSlotTags()[s] // the first and the last slot of the cluster, in every other key set
		}
		slots[fakecluster.Slot([]byte(tag))] = true
		for i := 0; i < perSlot; i++ {
			keys = append(keys, fmt.Sprintf("%c:{%s}.%d", "slhS"[rnd.Intn(4)], tag, i))
		}
	}
	return keys, slots
}

var edgeTags struct {
	once sync.Once
	t    [2]string
}

// edgeSlotTags returns hash tags for slot 0 and slot 16383.
func edgeSlotTags() [2]string {
	edgeTags.once.Do(func() {
		for i := 0; edgeTags.t[0] == "" || edgeTags.t[1] == ""; i++ {
			tag := fmt.Sprintf("e%d", i)
			switch fakecluster.Slot([]byte(tag)) {
			case 0:
				if edgeTags.t[0] == "" {
					edgeTags.t[0] = tag
				}
			case fakecluster.NumSlots - 1:
				if edgeTags.t[1] == "" {
					edgeTags.t[1] = tag
				}
			}
		}
	})
	return edgeTags.t
}

type c04Monitor struct {
	mu        sync.Mutex
	executed  map[string]int // unique write id -> executed count
	redirects int64
	asks      int64
	moves     int64
	lastFetch int64
	prevFetch int64
	clusterDn int64
}

var writeIDPrefix = []byte("wid.")

func (m *c04Monitor) onEvent(e *fakecluster.Event) {
	switch e.Outcome {
	case fakecluster.Moved:
		atomic.AddInt64(&m.moves, 1)
		atomic.AddInt64(&m.redirects, 1)
	case fakecluster.Ask:
		atomic.AddInt64(&m.asks, 1)
		atomic.AddInt64(&m.redirects, 1)
	case fakecluster.Executed:
		for _, a := range e.Args[1:] {
			if bytes.HasPrefix(a, writeIDPrefix) {
				m.mu.Lock()
				m.executed[string(a)]++
				m.mu.Unlock()
			}
		}
	}
	if e.Cmd == "cluster" {
		// the two most recent fetches: refreshes are sequential in the proxy, so when a SECOND fetch issued after an event has
		// been served, the layout returned by the first one has certainly been applied
		atomic.StoreInt64(&m.prevFetch, atomic.LoadInt64(&m.lastFetch))
		atomic.StoreInt64(&m.lastFetch, e.Seq)
	}
}

func isRedirectLeak(v resp.Value) bool {
	if v.Kind != resp.Error {
		return false
	}
	u := strings.ToUpper(string(v.Str))
	return strings.HasPrefix(u, "MOVED ") || strings.HasPrefix(u, "ASK ") || u == "MOVED" || u == "ASK"
}

func leakIn(v resp.Value) bool {
	if isRedirectLeak(v) {
		return true
	}
	for _, e := range v.Arr {
		if leakIn(e) {
			return true
		}
	}
	return false
}

func c04(r *ev.Run) {
	r.Rule("Mode A: sequential PRNG programs on keys concentrated in 2-4 slots, every reply compared with a single-server reference, while slots are migrated step by step (IMPORTING, MIGRATING, per-key MIGRATE, SETSLOT on target / source / everyone) with 0-5 client commands between steps, and while masters are killed and their replicas promoted; Mode B: the same with concurrent clients and a migration driver on its own goroutine, per-key linearizability; unique write ids counted in the node log; distinct = distinct (mode, scenario, migration-step reached by traffic, redirect kinds seen) tuples")
	r.Assume("the simulator follows the cluster specification: owner + MIGRATING + key absent -> ASK; not owner + IMPORTING + ASKING -> execute; otherwise MOVED; ASKING is one-shot; migration order: IMPORTING on the target, MIGRATING on the source, keys, SETSLOT on target, source, everyone; replicas share their master's data (synchronous replication)")
	r.Assume("a command is excused (may return an error, stays open in the history) only while its key's master is dead (or was its slot's owner earlier in the same program: the proxy's table may legitimately still point there) and until a second CLUSTER NODES fetch issued after the promotion has been served (the first one is then applied: refreshes are sequential) plus 30 further commands; after an excused error the reference is resynchronised from the nodes for that key")
	for _, race := range []bool{false, true} {
		s, err := startSUT(r, race, 100, 20)
		if err != nil {
			r.Internal("start sut: %v", err)
			return
		}
		nA, nB := 60, 60
		if r.Tier == "thorough" {
			nA, nB = 600, 400
		}
		if race {
			nA, nB = nA/4+1, nB/4+1
		}
		label := "plain"
		if race {
			label = "race"
		}
		for i := 0; i < nA; i++ {
			if sutDied(r, s, "C04 mode A") {
				break
			}
			c04ModeA(r, s, r.Seed*4001+int64(i)+int64(len(label)), i, label)
		}
		for i := 0; i < nB; i++ {
			if sutDied(r, s, "C04 mode B") {
				break
			}
			c04ModeB(r, s, r.Seed*4003+int64(i)+int64(len(label)), i, label)
		}
		if race {
			for _, rr := range raceReports(s, []string{"proc/redis/request.go"}) {
				r.Violation("C04:race:"+rr.Key, "data race on request state during redirections", map[string]interface{}{"report": rr.Text})
			}
		}
		s.Close()
	}
	r.Require("ask_redirects_observed", 20)
	c04FailoverNoticed(r)
	c04AskUnderSaturation(r)
	c04RedirectChain(r)
	r.Require("requests_served_after_three_redirections", 10)
	r.Require("moved_redirects_observed", 10)
	r.Require("migrations_completed", 10)
	r.Require("failovers_completed", 3)
	r.Require("modeB_partitions_checked", 20)
}

func c04Cluster(rnd *rand.Rand) (*fakecluster.Cluster, *c04Monitor, error) {
	cl, err := fakecluster.New(3, 1)
	if err != nil {
		return nil, nil, err
	}
	randomLayout(rnd, cl)
	mon := &c04Monitor{executed: map[string]int{}}
	cl.LogArgs = false
	cl.OnEvent = mon.onEvent
	return cl, mon, nil
}

// c04ModeA: sequential program, exact equality, migrations and a failover stepped between commands.
func c04ModeA(r *ev.Run, s *sutc.SUT, seed int64, idx int, label string) {
	rnd := rand.New(rand.NewSource(seed))
	cl, mon, err := c04Cluster(rnd)
	if err != nil {
		r.Internal("fakecluster: %v", err)
		return
	}
	defer cl.Close()
	svc, err := startRedisSvc(s, cl, cl.Addrs(), RedisOpts{ConnTimeout: 300 * time.Millisecond})
	if err != nil {
		r.Internal("%v", err)
		return
	}
	defer s.StopProc(svc.Name, 20*time.Second)
	if !svc.WaitRouting(1, 10*time.Second) {
		r.Inconclusive("routing-not-loaded")
		return
	}
	keys, slots := keysInSlots(rnd, 2+rnd.Intn(3), 5)
	ref := refredis.New()
	nconn := 1 + rnd.Intn(4)
	conns := make([]*rclient.Conn, nconn)
	for i := range conns {
		if conns[i], err = svc.Dial(); err != nil {
			r.Internal("dial: %v", err)
			return
		}
		defer func(c *rclient.Conn) { c.Close() }(conns[i])
	}
	scenario := []string{"migration", "migration", "failover", "migration+failover"}[idx%4]
	var trace []string
	var mig *migration
	movedFrom := map[int]*fakecluster.Node{} // slot -> earlier owner (the proxy's table may still point there until it refreshes)
	var pendingSlots []int
	for sl := range slots {
		pendingSlots = append(pendingSlots, sl)
	}
	widSeq := 0
	// failover state
	var dead *fakecluster.Node
	var promotedAt int64 = -1
	excusedUntil := 0 // command index until which errors for the dead shard's keys are excused
	deadKeys := map[string]bool{}
	ncmd := 150 + rnd.Intn(150)
	failAt := -1
	if strings.Contains(scenario, "failover") {
		failAt = 30 + rnd.Intn(60)
	}
	promoteAt := -1
	stepReached := map[int]bool{}
	shardOf := func(key string) *fakecluster.Node {
		cl.Lock()
		defer cl.Unlock()
		return cl.Nodes[0].OwnerLocked(fakecluster.Slot([]byte(key)))
	}
	resync := func(key string) {
		cl.Lock()
		defer cl.Unlock()
		snap := ""
		for _, m := range cl.Masters() {
			if m.DB() != nil && m.DB().Has(key) {
				snap = m.DB().Snapshot(key)
			}
		}
		ref.Restore(key, snap)
	}
	for ci := 0; ci < ncmd; ci++ {
		// advance the scripts
		if strings.Contains(scenario, "migration") {
			if mig == nil && len(pendingSlots) > 0 && rnd.Intn(8) == 0 && dead == nil {
				sl := pendingSlots[0]
				pendingSlots = pendingSlots[1:]
				cl.Lock()
				src := cl.Nodes[0].OwnerLocked(sl)
				cl.Unlock()
				ms := cl.Masters()
				dst := ms[rnd.Intn(len(ms))]
				for dst == src {
					dst = ms[rnd.Intn(len(ms))]
				}
				mig = &migration{cl: cl, slot: sl, src: src, dst: dst}
				movedFrom[sl] = src
			}
			if mig != nil && rnd.Intn(3) == 0 {
				if !mig.next(rnd) {
					trace = append(trace, mig.log...)
					r.Count("migrations_completed", 1)
					mig = nil
				} else if len(mig.log) > 0 {
					trace = append(trace, mig.log[len(mig.log)-1])
					mig.log = mig.log[:0]
				}
			}
		}
		if ci == failAt && mig == nil {
			ms := cl.Masters()
			dead = ms[rnd.Intn(len(ms))]
			for _, k := range keys {
				// the key's owner is dead, or the proxy's table may still route its slot to the dead node
				if shardOf(k) == dead || movedFrom[fakecluster.Slot([]byte(k))] == dead {
					deadKeys[k] = true
				}
			}
			dead.Stop(true)
			promoteAt = ci + 3 + rnd.Intn(15)
			excusedUntil = 1 << 30
			trace = append(trace, fmt.Sprintf("master node %d killed", dead.Idx))
		} else if ci == failAt {
			failAt++ // wait for the running migration to finish
		}
		if ci == promoteAt && dead != nil {
			rep := cl.Replicas(dead)[0]
			cl.Lock()
			cl.PromoteLocked(rep)
			promotedAt = lclock.Tick()
			cl.Unlock()
			trace = append(trace, fmt.Sprintf("replica node %d promoted", rep.Idx))
		}
		if promotedAt >= 0 && excusedUntil == 1<<30 && atomic.LoadInt64(&mon.prevFetch) > promotedAt {
			excusedUntil = ci + 30
			trace = append(trace, "second CLUSTER NODES fetch after the promotion served: the first one has been applied")
		}
		if promotedAt >= 0 && excusedUntil == 1<<30 && ci > promoteAt+400 {
			excusedUntil = ci // the refresh never came: stop excusing (C07 territory, reported here as well)
		}
		// one client command
		var args [][]byte
		k := keys[rnd.Intn(len(keys))]
		if rnd.Intn(7) == 0 {
			name := []string{"MGET", "MSET", "DEL", "EXISTS"}[rnd.Intn(4)]
			args = [][]byte{[]byte(name)}
			for i := 1 + rnd.Intn(3); i > 0; i-- {
				kk := keys[rnd.Intn(len(keys))]
				args = append(args, []byte(kk))
				if name == "MSET" {
					widSeq++
					args = append(args, []byte(fmt.Sprintf("wid.%d.%d", idx, widSeq)))
				}
			}
		} else {
			widSeq++
			args = genHotOp(rnd, []string{k}, idx, widSeq)
			for len(args) > 0 && (string(args[0]) == "MGET" || string(args[0]) == "MSET" || string(args[0]) == "DEL") {
				args = genHotOp(rnd, []string{k}, idx, widSeq)
			}
			// unique write ids
			for i := 2; i < len(args) && string(args[0]) != "SREM"; i++ {
				if bytes.HasPrefix(args[i], []byte("v")) && bytes.ContainsRune(args[i], '.') {
					args[i] = []byte(fmt.Sprintf("wid.%d.%d", idx, widSeq))
				}
			}
		}
		touchesDead := false
		for _, a := range args[1:] {
			if deadKeys[string(a)] {
				touchesDead = true
			}
		}
		excused := touchesDead && ci < excusedUntil
		want, exact := refExec(ref, args)
		got, err := conns[ci%nconn].Do(20*time.Second, args...)
		st := fmt.Sprintf("%s -> %s", strings.Join(argStrings(args), " "), got.String())
		trace = append(trace, st)
		if mig != nil {
			stepReached[mig.step] = true
		}
		w := func() map[string]interface{} {
			m := map[string]interface{}{"workload": label, "seed": seed, "scenario": scenario, "trace_tail": tail(trace, 25), "want": want.String()}
			if dead != nil {
				m["dead_master"] = fmt.Sprintf("node %d %s", dead.Idx, dead.Addr)
				m["promoted_at_command"], m["excused_until_command"], m["command"] = promoteAt, excusedUntil, ci
				m["proxy_log_tail"] = s.LogTail(2500)
				cl.Lock()
				m["cluster_nodes_now"] = cl.Nodes[(dead.Idx+1)%len(cl.Nodes)].ClusterNodesLocked()
				cl.Unlock()
			}
			return m
		}
		if err != nil {
			conns[ci%nconn].Close()
			conns[ci%nconn], _ = svc.Dial()
			if sutDied(r, s, w()) {
				return
			}
			if !excused {
				r.Violation("C04:no-reply:"+scenario, "no reply to a command whose key is reachable", w())
				return
			}
			for _, a := range args[1:] {
				resync(string(a))
			}
			continue
		}
		if leakIn(got) {
			r.Violation("C04:redirect-leaked-to-client", "a client received a MOVED / ASK error", w())
			return
		}
		if exact && !got.Equal(want) {
			if excused && (got.Kind == resp.Error || hasErr(got)) {
				r.Count("excused_errors", 1)
				for _, a := range args[1:] {
					resync(string(a))
				}
				continue
			}
			key := "C04:reply-differs:" + scenario
			if got.Kind == resp.Error {
				key = "C04:error-while-reachable:" + scenario
			}
			r.Violation(key, "reply differs from the single-server reference although the key's node is reachable", w())
			return
		}
		r.Count("modeA_commands", 1)
	}
	// finish a running migration, then compare the final state
	for mig != nil {
		if !mig.next(rnd) {
			r.Count("migrations_completed", 1)
			mig = nil
		}
	}
	if dead != nil && promotedAt >= 0 {
		r.Count("failovers_completed", 1)
	}
	c04Final(r, cl, mon, ref, keys, map[string]interface{}{"workload": label, "seed": seed, "scenario": scenario, "trace_tail": tail(trace, 25)}, dead != nil)
	steps := []string{}
	for st := range stepReached {
		steps = append(steps, fmt.Sprint(st))
	}
	sortStrings(steps)
	r.Case(fmt.Sprintf("A/%s/steps%s/ask%v/moved%v", scenario, strings.Join(steps, ""), atomic.LoadInt64(&mon.asks) > 0, atomic.LoadInt64(&mon.moves) > 0))
	r.Count("ask_redirects_observed", atomic.LoadInt64(&mon.asks))
	r.Count("moved_redirects_observed", atomic.LoadInt64(&mon.moves))
	if idx == 0 {
		r.Sample(map[string]interface{}{"mode": "A", "scenario": scenario, "trace_tail": tail(trace, 14)})
	}
}

func hasErr(v resp.Value) bool {
	if v.Kind == resp.Error {
		return true
	}
	for _, e := range v.Arr {
		if hasErr(e) {
			return true
		}
	}
	return false
}

// c04Final: executed-once and final placement of every key.
func c04Final(r *ev.Run, cl *fakecluster.Cluster, mon *c04Monitor, ref *refredis.DB, keys []string, w map[string]interface{}, lossy bool) {
	mon.mu.Lock()
	for id, n := range mon.executed {
		if n > 1 {
			w["write_id"] = id
			w["executed"] = n
			r.Violation("C04:write-executed-twice", fmt.Sprintf("write %s was executed %d times on the nodes", id, n), w)
			break
		}
	}
	mon.mu.Unlock()
	cl.Lock()
	defer cl.Unlock()
	where := map[string]int{}
	for _, m := range cl.Masters() {
		for _, k := range m.DB().Keys() {
			where[k]++
			if m != cl.Nodes[0].OwnerLocked(fakecluster.Slot([]byte(k))) {
				w["key"] = k
				r.Violation("C04:key-stranded-on-non-owner", "after the migration a key is stored on a node that does not own its slot (its effect is lost to clients)", w)
				return
			}
		}
	}
	for k, n := range where {
		if n > 1 {
			w["key"] = k
			r.Violation("C04:key-duplicated", "a key exists on two nodes", w)
			return
		}
	}
	if ref != nil && !lossy {
		for _, k := range keys {
			var got string
			for _, m := range cl.Masters() {
				if m.DB().Has(k) {
					got = m.DB().Dump(k)
				}
			}
			want := ref.Dump(k)
			if want == "<none>" {
				want = ""
			}
			if got != want {
				w["key"] = k
				w["nodes"] = abbrevArg([]byte(got))
				w["reference"] = abbrevArg([]byte(want))
				r.Violation("C04:final-state-differs", "the data on the nodes differs from the reference's final state (an effect was lost or duplicated)", w)
				return
			}
		}
	}
}

// c04ModeB: concurrent clients, migration driver on its own goroutine, per-key linearizability.
func c04ModeB(r *ev.Run, s *sutc.SUT, seed int64, idx int, label string) {
	rnd := rand.New(rand.NewSource(seed))
	cl, mon, err := c04Cluster(rnd)
	if err != nil {
		r.Internal("fakecluster: %v", err)
		return
	}
	defer cl.Close()
	svc, err := startRedisSvc(s, cl, cl.Addrs(), RedisOpts{ConnTimeout: 300 * time.Millisecond})
	if err != nil {
		r.Internal("%v", err)
		return
	}
	defer s.StopProc(svc.Name, 20*time.Second)
	if !svc.WaitRouting(1, 10*time.Second) {
		r.Inconclusive("routing-not-loaded")
		return
	}
	if idx%3 == 0 {
		s.HookArm("redis.upstream.ask.between", sutc.HookAction{Mode: "yield", Yields: 1 + rnd.Intn(20), Seed: seed})
		defer s.HookRelease("redis.upstream.ask.between")
	}
	keys, slots := keysInSlots(rnd, 2+rnd.Intn(2), 3)
	var stop int32
	var mwg sync.WaitGroup
	mwg.Add(1)
	var migLog []string
	go func() {
		defer mwg.Done()
		mr := rand.New(rand.NewSource(seed + 77))
		for sl := range slots {
			if atomic.LoadInt32(&stop) == 1 {
				return
			}
			cl.Lock()
			src := cl.Nodes[0].OwnerLocked(sl)
			cl.Unlock()
			ms := cl.Masters()
			dst := ms[mr.Intn(len(ms))]
			for dst == src {
				dst = ms[mr.Intn(len(ms))]
			}
			m := &migration{cl: cl, slot: sl, src: src, dst: dst}
			for m.next(mr) {
				time.Sleep(time.Duration(mr.Intn(1500)) * time.Microsecond)
			}
			migLog = append(migLog, m.log...)
			r.Count("migrations_completed", 1)
		}
	}()
	nclients := 4 + rnd.Intn(8)
	h := &histRecorder{}
	var wg sync.WaitGroup
	var leak atomic.Value
	var noReply atomic.Value
	for c := 0; c < nclients; c++ {
		wg.Add(1)
		go func(c int) {
			defer wg.Done()
			crnd := rand.New(rand.NewSource(seed*13 + int64(c)))
			conn, err := svc.Dial()
			if err != nil {
				return
			}
			defer conn.Close()
			nops := 10 + crnd.Intn(10)
			for n := 0; n < nops; n++ {
				args := genHotOp(crnd, keys, idx*100+c, n)
				if len(args) < 2 {
					continue
				}
				for i := 2; i < len(args) && string(args[0]) != "SREM"; i++ {
					if bytes.HasPrefix(args[i], []byte("v")) && bytes.ContainsRune(args[i], '.') {
						args[i] = append([]byte("wid."), args[i]...)
					}
				}
				call := lclock.Tick()
				v, err := conn.Do(20*time.Second, args...)
				ret := lclock.Tick()
				var rp *resp.Value
				if err != nil {
					noReply.Store(fmt.Sprintf("%v for %s", err, strings.Join(argStrings(args), " ")))
					ret = openReturn
				} else {
					if leakIn(v) {
						leak.Store(strings.Join(argStrings(args), " ") + " -> " + v.String())
					}
					rp = &v
				}
				ins, outs := splitOps(args, rp)
				for i := range ins {
					h.add(porcupine.Operation{ClientId: c, Input: ins[i], Call: call, Output: outs[i], Return: ret})
				}
				if err != nil {
					return
				}
				if crnd.Intn(3) == 0 {
					time.Sleep(time.Duration(crnd.Intn(800)) * time.Microsecond)
				}
			}
		}(c)
	}
	wg.Wait()
	atomic.StoreInt32(&stop, 1)
	mwg.Wait()
	w := map[string]interface{}{"workload": label, "seed": seed, "migration_steps": tail(migLog, 30), "asks": atomic.LoadInt64(&mon.asks), "moved": atomic.LoadInt64(&mon.moves)}
	if sutDied(r, s, w) {
		return
	}
	if l := leak.Load(); l != nil {
		w["command"] = l
		r.Violation("C04:redirect-leaked-to-client", "a client received a MOVED / ASK error", w)
	}
	if e := noReply.Load(); e != nil {
		w["error"] = e
		r.Violation("C04:no-reply:modeB", "a command got no reply although every node is reachable", w)
	}
	single := porcupine.Model{Init: kvModel.Init, Step: kvModel.Step, DescribeOperation: kvModel.DescribeOperation}
	for _, p := range kvModel.Partition(h.ops) {
		switch porcupine.CheckOperationsTimeout(single, p, 60*time.Second) {
		case porcupine.Illegal:
			w["key"] = p[0].Input.(kvOp).Key
			w["operations"] = describeHistory(p)
			r.Violation("C04:not-linearizable", "during slot migration a concurrent history on one key is not linearizable against the single-server model (an effect was lost, duplicated or applied out of order)", w)
		case porcupine.Unknown:
			r.Inconclusive("porcupine-timeout")
			continue
		}
		r.Count("modeB_partitions_checked", 1)
	}
	c04Final(r, cl, mon, nil, keys, w, false)
	r.Case(fmt.Sprintf("B/c%d/ask%v/moved%v/yield%v", nclients/4, atomic.LoadInt64(&mon.asks) > 0, atomic.LoadInt64(&mon.moves) > 0, idx%3 == 0))
	r.Count("ask_redirects_observed", atomic.LoadInt64(&mon.asks))
	r.Count("moved_redirects_observed", atomic.LoadInt64(&mon.moves))
	if idx == 0 {
		r.Sample(map[string]interface{}{"mode": "B", "clients": nclients, "operations": len(h.ops), "migration_steps": tail(migLog, 10)})
	}
}

// c04FailoverNoticed: with the periodic slots refresh far away (10 min), a master dies and its replica is promoted. From then on the
// owner of its slots is reachable, so errors have to stop: the failed requests themselves are the proxy's only signal. Bounded
// restatement: at most 40 further requests (paced 25 ms) to a key of the dead master may fail after the promotion.
func c04FailoverNoticed(r *ev.Run) {
	s, err := startSUT(r, false, 600000, 20)
	if err != nil {
		r.Internal("start sut: %v", err)
		return
	}
	defer s.Close()
	rnd := rand.New(rand.NewSource(r.Seed + 404))
	reps := 3
	if r.Tier == "thorough" {
		reps = 12
	}
	for rep := 0; rep < reps; rep++ {
		cl, _, err := c04Cluster(rnd)
		if err != nil {
			r.Internal("fakecluster: %v", err)
			return
		}
		cl.OnEvent = nil
		strat := []predis.ReadStrategy{predis.ReadStrategy_MASTER, predis.ReadStrategy_REPLICA, predis.ReadStrategy_BOTH}[rep%3]
		svc, err := startRedisSvc(s, cl, cl.Addrs(), RedisOpts{ConnTimeout: 300 * time.Millisecond, ReadStrategy: strat})
		if err != nil || !svc.WaitRouting(1, 10*time.Second) {
			r.Internal("service did not start: %v", err)
			cl.Close()
			return
		}
		ms := cl.Masters()
		dead := ms[rnd.Intn(len(ms))]
		key := keysFor(cl, dead, 1, "fo")[0]
		conn, err := svc.Dial()
		if err != nil {
			r.Internal("dial: %v", err)
			cl.Close()
			return
		}
		conn.DoS(5*time.Second, "SET", key, "before")
		idle := rep%2 == 0 // the connection to the dead master is idle when it dies, or has a request in flight
		if !idle {
			dead.Delay = func([][]byte) time.Duration { return 200 * time.Millisecond }
			go func() {
				c2, err := svc.Dial()
				if err == nil {
					c2.DoS(3*time.Second, "GET", key)
					c2.Close()
				}
			}()
			time.Sleep(30 * time.Millisecond)
		}
		dead.Stop(true)
		time.Sleep(time.Duration(20+rnd.Intn(200)) * time.Millisecond)
		repl := cl.Replicas(dead)[0]
		cl.Lock()
		cl.PromoteLocked(repl)
		cl.Unlock()
		failed, healedAfter := 0, -1
		var lastErr string
		for i := 0; i < 120; i++ {
			v, err := conn.DoS(3*time.Second, "SET", key, fmt.Sprintf("after-%d", i))
			if err != nil {
				lastErr = err.Error()
				conn.Close()
				conn, _ = svc.Dial()
				failed++
			} else if v.Kind == resp.Error {
				lastErr = string(v.Str)
				failed++
			} else {
				healedAfter = i
				break
			}
			time.Sleep(25 * time.Millisecond)
		}
		w := map[string]interface{}{"dead_master": dead.Idx, "promoted_replica": repl.Idx, "failed_requests_after_promotion": failed, "last_error": lastErr, "periodic_refresh": "10 min", "connection_idle_when_master_died": idle}
		switch {
		case healedAfter < 0:
			r.Violation("C04:error-while-reachable:failover-unnoticed", fmt.Sprintf("120 requests over 3 s after the replica had been promoted (and is reachable) all failed: %s", lastErr), w)
		case failed > 40:
			r.Violation("C04:error-while-reachable:failover-noticed-late", fmt.Sprintf("%d requests failed after the replica had been promoted before one succeeded", failed), w)
		default:
			r.Count("failovers_noticed_without_periodic_refresh", 1)
			// the promoted node has no replica of its own: reads of its slots must work under every read strategy
			for i := 0; i < 20; i++ {
				v, err := conn.DoS(3*time.Second, "GET", key)
				if err != nil || v.Kind != resp.Bulk || !strings.HasPrefix(string(v.Str), "after-") {
					time.Sleep(100 * time.Millisecond)
					if sutDied(r, s, map[string]interface{}{"read_strategy": strat.String(), "after": "failover; the new master has no replica", "request": "GET " + key}) {
						cl.Close()
						return
					}
					w["read_strategy"], w["reply"], w["error"] = strat.String(), v.String(), fmt.Sprint(err)
					r.Violation("C04:reply-differs:read-after-failover", "after the failover a read of a key of the promoted node (which has no replica) did not return the value just written", w)
					break
				}
				r.Count("reads_from_replica_less_master", 1)
			}
		}
		r.Case(fmt.Sprintf("failover-noticed/idle=%v/%s", idle, strat))
		conn.Close()
		s.StopProc(svc.Name, 20*time.Second)
		cl.Close()
	}
	r.Require("failovers_noticed_without_periodic_refresh", 1)
}

// c04AskUnderSaturation: keys of slots that are MIGRATING are written (ASK redirections) while many other sessions keep the target
// node's connection saturated with multi-key requests. ASKING only counts for the very next command on that connection, so the
// redirected command has to follow its ASKING directly, whatever else is waiting for that connection. No reply may be a MOVED / ASK.
func c04AskUnderSaturation(r *ev.Run) {
	s, err := startSUT(r, false, 60000, 20)
	if err != nil {
		r.Internal("start sut: %v", err)
		return
	}
	defer s.Close()
	cl, err := fakecluster.New(2, 0)
	if err != nil {
		r.Internal("fakecluster: %v", err)
		return
	}
	defer cl.Close()
	cl.AssignContiguous()
	cl.LogArgs = false
	a, b := cl.Nodes[0], cl.Nodes[1]
	svc, err := startRedisSvc(s, cl, cl.Addrs(), RedisOpts{})
	if err != nil || !svc.WaitRouting(1, 10*time.Second) {
		r.Internal("service did not start: %v", err)
		return
	}
	nset := 30
	if r.Tier == "thorough" {
		nset = 200
	}
	keys := keysFor(cl, a, nset, "askm")
	cl.Lock()
	for _, k := range keys {
		sl := fakecluster.Slot([]byte(k))
		a.SetMigratingLocked(sl, b)
		b.SetImportingLocked(sl, a)
	}
	cl.Unlock()
	bkeys := keysFor(cl, b, 3000, "sat")
	stop := make(chan struct{})
	var wg sync.WaitGroup
	var mgets int64
	for g := 0; g < 12; g++ {
		conn, err := svc.Dial()
		if err != nil {
			continue
		}
		wg.Add(1)
		go func(conn *rclient.Conn) {
			defer wg.Done()
			defer conn.Close()
			args := append([]string{"MGET"}, bkeys...)
			for {
				select {
				case <-stop:
					return
				default:
				}
				if _, err := conn.DoS(30*time.Second, args...); err != nil {
					return
				}
				atomic.AddInt64(&mgets, 1)
			}
		}(conn)
	}
	time.Sleep(150 * time.Millisecond)
	conn, err := svc.Dial()
	if err != nil {
		close(stop)
		wg.Wait()
		r.Internal("dial: %v", err)
		return
	}
	leaked := 0
	var first string
	for i, k := range keys {
		v, err := conn.DoS(30*time.Second, "SET", k, fmt.Sprintf("v%d", i))
		if err != nil {
			r.Inconclusive("ask-under-saturation:no-reply")
			break
		}
		if leakIn(v) {
			leaked++
			if first == "" {
				first = fmt.Sprintf("SET %s -> %s", k, v.String())
			}
		}
		r.Count("ask_redirected_writes_under_saturation", 1)
	}
	close(stop)
	conn.Close()
	wg.Wait()
	if sutDied(r, s, "ASK under saturation") {
		return
	}
	if leaked > 0 {
		r.Violation("C04:redirect-leaked-to-client:ask-under-saturation", fmt.Sprintf("%d of %d writes to keys of MIGRATING slots were answered with a MOVED / ASK error while other sessions kept the target's connection busy (both nodes reachable): %s", leaked, len(keys), first),
			map[string]interface{}{"writes": len(keys), "leaked": leaked, "saturating_sessions": 12, "mgets_completed_meanwhile": atomic.LoadInt64(&mgets)})
	}
	r.Case("ask-under-saturation")
	r.Require("ask_redirected_writes_under_saturation", 20)
}

// c04RedirectChain: a stale route followed by a node that has handed the slot on, followed by a migrating slot: the request is
// answered MOVED, MOVED, ASK before it reaches the node that serves it ("two or three redirections" is what the proxy's own limit is
// documented for). The refresh cannot help (the nodes refuse CLUSTER NODES meanwhile): every request must still be answered by the
// importing node, never with a redirection error.
func c04RedirectChain(r *ev.Run) {
	s, err := startSUT(r, false, 600000, 20)
	if err != nil {
		r.Internal("start sut: %v", err)
		return
	}
	defer s.Close()
	cl, err := fakecluster.New(4, 0)
	if err != nil {
		r.Internal("fakecluster: %v", err)
		return
	}
	defer cl.Close()
	cl.AssignContiguous()
	cl.LogArgs = false
	var refuse int32
	for _, n := range cl.Nodes {
		n.Handler = func(c *fakecluster.Conn, args [][]byte) (fakecluster.Reply, bool) {
			if atomic.LoadInt32(&refuse) == 1 && strings.EqualFold(string(args[0]), "cluster") {
				return fakecluster.Reply{Raw: []byte("-ERR try again later\r\n")}, true
			}
			return fakecluster.Reply{}, false
		}
	}
	svc, err := startRedisSvc(s, cl, cl.Addrs(), RedisOpts{})
	if err != nil || !svc.WaitRouting(1, 10*time.Second) {
		r.Internal("service did not start: %v", err)
		return
	}
	defer s.StopProc(svc.Name, 20*time.Second)
	atomic.StoreInt32(&refuse, 1)
	a, b, c, d := cl.Nodes[0], cl.Nodes[1], cl.Nodes[2], cl.Nodes[3]
	n := 20
	if r.Tier == "thorough" {
		n = 150
	}
	keys := keysFor(cl, a, n, "chain")
	cl.Lock()
	for _, k := range keys {
		sl := fakecluster.Slot([]byte(k))
		cl.SetOwnerLocked(sl, b, a)       // the node the proxy asks first has handed the slot to b
		cl.SetOwnerLocked(sl, c, b, c, d) // b has handed it on to c
		c.SetMigratingLocked(sl, d)       // and c is migrating it to d (the keys are not there yet / any more)
		d.SetImportingLocked(sl, c)
	}
	cl.Unlock()
	conn, err := svc.Dial()
	if err != nil {
		r.Internal("dial: %v", err)
		return
	}
	defer conn.Close()
	for i, k := range keys {
		for _, cmd := range [][]string{{"GET", k}, {"SET", k, fmt.Sprintf("v%d", i)}, {"GET", k}} {
			v, err := conn.DoS(5*time.Second, cmd...)
			if err != nil {
				if sutDied(r, s, "redirect chain") {
					return
				}
				r.Violation("C04:no-reply:redirect-chain", "a request that has to follow MOVED, MOVED, ASK got no reply", map[string]interface{}{"command": cmd})
				return
			}
			if leakIn(v) {
				r.Violation("C04:redirect-leaked-to-client:redirect-chain", "a request that has to follow three redirections (stale route -> MOVED -> MOVED -> ASK -> importing node) was answered with the redirection error although every node is reachable: "+v.String(),
					map[string]interface{}{"command": cmd, "reply": v.String(), "chain": "proxy's route: node 0; node 0 says MOVED node 1; node 1 says MOVED node 2; node 2 (migrating, key absent) says ASK node 3"})
				return
			}
			if cmd[0] == "GET" && len(cmd) == 2 && v.Kind == resp.Bulk && i >= 0 {
				r.Count("requests_served_after_three_redirections", 1)
			}
		}
		r.Case("redirect-chain")
	}
}
