//go:build verif

package main

// C16, gRPC part: the real configuration object (config.New) with its real dynamic source dials a real gRPC discovery server hosted
// by this process. The server is the observer: per stream it keeps the net set of subscribed services computed from the request
// messages that actually arrive on the wire (both stream adapters, the protobuf encoding and the gRPC client are on the path), and it
// is the fault injector: it ends streams, and pushes dependency changes while streams are down.

import (
	"context"
	"encoding/json"
	"fmt"
	"math/rand"
	"net"
	"sort"
	"strings"
	"sync"
	"sync/atomic"
	"time"

	"google.golang.org/grpc"
	"google.golang.org/grpc/codes"
	"google.golang.org/grpc/status"

	"verif/internal/ev"

	"github.com/samaritan-proxy/samaritan/config"
	"github.com/samaritan-proxy/samaritan/pb/api"
	"github.com/samaritan-proxy/samaritan/pb/common"
	"github.com/samaritan-proxy/samaritan/pb/config/bootstrap"
	"github.com/samaritan-proxy/samaritan/pb/config/service"
)

func init() {
	apiParts["C16/grpc"] = c16Grpc
}

type gStream struct {
	kind   string
	gen    int
	set    map[string]bool
	kill   chan struct{}
	once   sync.Once
	up     bool
	depOut chan *api.DependencyDiscoveryResponse
	log    []string
}

func (st *gStream) end() { st.once.Do(func() { close(st.kill) }) }

type gServer struct {
	mu      sync.Mutex
	cur     map[string]*gStream
	gens    map[string]int
	msgs    int64
	sameMsg int64 // messages that carried subscribe and unsubscribe entries together
	onDepUp func(st *gStream)
}

func newGServer() *gServer {
	return &gServer{cur: map[string]*gStream{}, gens: map[string]int{}}
}

func (g *gServer) register(kind string) *gStream {
	g.mu.Lock()
	defer g.mu.Unlock()
	g.gens[kind]++
	st := &gStream{kind: kind, gen: g.gens[kind], set: map[string]bool{}, kill: make(chan struct{}), up: true, depOut: make(chan *api.DependencyDiscoveryResponse, 64)}
	if old := g.cur[kind]; old != nil {
		old.up = false
	}
	g.cur[kind] = st
	return st
}

func (g *gServer) down(st *gStream) {
	g.mu.Lock()
	st.up = false
	g.mu.Unlock()
}

func (g *gServer) apply(st *gStream, sub, unsub []string) {
	g.mu.Lock()
	defer g.mu.Unlock()
	for _, n := range sub {
		st.set[n] = true
	}
	for _, n := range unsub {
		delete(st.set, n)
	}
	if len(sub) > 0 && len(unsub) > 0 {
		g.sameMsg++
	}
	st.log = append(st.log, fmt.Sprintf("gen%d sub=%v unsub=%v", st.gen, sub, unsub))
	if len(st.log) > 30 {
		st.log = st.log[len(st.log)-30:]
	}
	atomic.AddInt64(&g.msgs, 1)
}

func (g *gServer) StreamDependencies(req *api.DependencyDiscoveryRequest, srv api.DiscoveryService_StreamDependenciesServer) error {
	st := g.register("dep")
	defer g.down(st)
	if g.onDepUp != nil {
		g.onDepUp(st)
	}
	for {
		select {
		case m := <-st.depOut:
			if err := srv.Send(m); err != nil {
				return err
			}
		case <-st.kill:
			return status.Error(codes.Unavailable, "stream ended by the server")
		case <-srv.Context().Done():
			return srv.Context().Err()
		}
	}
}

func (g *gServer) StreamSvcConfigs(srv api.DiscoveryService_StreamSvcConfigsServer) error {
	st := g.register("cfg")
	defer g.down(st)
	errc := make(chan error, 1)
	go func() {
		for {
			req, err := srv.Recv()
			if err != nil {
				errc <- err
				return
			}
			g.apply(st, req.SvcNamesSubscribe, req.SvcNamesUnsubscribe)
		}
	}()
	select {
	case err := <-errc:
		return err
	case <-st.kill:
		return status.Error(codes.Unavailable, "stream ended by the server")
	}
}

func (g *gServer) StreamSvcEndpoints(srv api.DiscoveryService_StreamSvcEndpointsServer) error {
	st := g.register("ep")
	defer g.down(st)
	errc := make(chan error, 1)
	go func() {
		for {
			req, err := srv.Recv()
			if err != nil {
				errc <- err
				return
			}
			g.apply(st, req.SvcNamesSubscribe, req.SvcNamesUnsubscribe)
		}
	}()
	select {
	case err := <-errc:
		return err
	case <-st.kill:
		return status.Error(codes.Unavailable, "stream ended by the server")
	}
}

// view returns, per stream kind, whether a stream is up and its net set (sorted, joined).
func (g *gServer) view(kind string) (bool, string, []string) {
	g.mu.Lock()
	defer g.mu.Unlock()
	st := g.cur[kind]
	if st == nil {
		return false, "", nil
	}
	var names []string
	for n := range st.set {
		names = append(names, n)
	}
	sort.Strings(names)
	return st.up, strings.Join(names, ","), append([]string{}, st.log...)
}

func (g *gServer) kill(kind string) bool {
	g.mu.Lock()
	st := g.cur[kind]
	g.mu.Unlock()
	if st == nil {
		return false
	}
	g.down(st)
	st.end()
	return true
}

// c16GrpcHistory runs one PRNG history against one configuration object. Returns false when the part should stop.
func c16GrpcHistory(r *ev.Run, seed int64, idx int, steps int) bool {
	rnd := rand.New(rand.NewSource(seed))
	g := newGServer()
	lis, err := net.Listen("tcp", "127.0.0.1:0")
	if err != nil {
		r.Internal("listen: %v", err)
		return false
	}
	gs := grpc.NewServer()
	api.RegisterDiscoveryServiceServer(gs, g)
	go gs.Serve(lis)
	defer gs.Stop()

	// what the control plane believes the instance depends on; pushed in full whenever a dependency stream comes up
	var dmu sync.Mutex
	deps := map[string]bool{}
	g.onDepUp = func(st *gStream) {
		dmu.Lock()
		var all []*service.Service
		for n := range deps {
			all = append(all, &service.Service{Name: n})
		}
		dmu.Unlock()
		if len(all) > 0 {
			st.depOut <- &api.DependencyDiscoveryResponse{Added: all}
		}
	}
	b := &bootstrap.Bootstrap{
		Instance:            &common.Instance{Id: fmt.Sprintf("verif-%d-%d", seed, idx), Belong: "verif"},
		Admin:               &bootstrap.Admin{Bind: &common.Address{Ip: "127.0.0.1", Port: 1}},
		DynamicSourceConfig: &bootstrap.ConfigSource{Endpoint: lis.Addr().String()},
	}
	c, err := config.New(b)
	if err != nil {
		r.Internal("config.New: %v", err)
		return false
	}
	go func() {
		for range c.Subscribe() {
		}
	}()
	// the client's own view of its dependency set
	clientDeps := func() string {
		raw, err := json.Marshal(c)
		if err != nil {
			return "?" + err.Error()
		}
		var v struct {
			Services map[string]json.RawMessage `json:"services"`
		}
		json.Unmarshal(raw, &v)
		var names []string
		for n := range v.Services {
			names = append(names, n)
		}
		sort.Strings(names)
		return strings.Join(names, ",")
	}
	wantDeps := func() string {
		dmu.Lock()
		defer dmu.Unlock()
		var names []string
		for n := range deps {
			names = append(names, n)
		}
		sort.Strings(names)
		return strings.Join(names, ",")
	}
	var trace []string
	note := func(f string, a ...interface{}) {
		trace = append(trace, fmt.Sprintf(f, a...))
		if len(trace) > 40 {
			trace = trace[len(trace)-40:]
		}
	}
	// settle: bounded-progress judgement. Every stream is up, the client holds the pushed dependency set, and both subscription
	// streams carry exactly that set - reached within the deadline and stable.
	settle := func(where string) bool {
		deadline := time.Now().Add(12 * time.Second)
		var upD, upC, upE bool
		var sc, se, cd, wd string
		for {
			upD, _, _ = g.view("dep")
			upC, sc, _ = g.view("cfg")
			upE, se, _ = g.view("ep")
			cd, wd = clientDeps(), wantDeps()
			if upD && upC && upE && cd == wd && sc == wd && se == wd {
				r.Count("grpc_settled_judgements", 1)
				return true
			}
			if time.Now().After(deadline) {
				break
			}
			time.Sleep(15 * time.Millisecond)
		}
		_, _, logC := g.view("cfg")
		_, _, logE := g.view("ep")
		w := map[string]interface{}{"where": where, "history_seed": seed, "dependency_set_pushed": wd, "dependency_set_held_by_the_client": cd,
			"config_stream_up": upC, "config_stream_subscribed": sc, "endpoint_stream_up": upE, "endpoint_stream_subscribed": se, "dependency_stream_up": upD,
			"last_requests_on_config_stream": logC, "last_requests_on_endpoint_stream": logE, "history_tail": trace}
		switch {
		case !upD || !upC || !upE:
			r.Violation("C16:grpc:stream-not-re-established", "12 s after the last fault (the retry delay is about 1 s) a discovery stream is still not up although the server accepts connections", w)
		case cd != wd:
			// the dependency push itself did not arrive: not this property's business, and nothing can be judged
			r.Inconclusive("grpc:dependency-push-not-applied")
		default:
			which := "config"
			if sc == wd {
				which = "endpoint"
			}
			r.Violation("C16:grpc:set-mismatch:"+which+"-stream", "with every stream up and nothing in flight for 12 s, the set of services subscribed on the "+which+" stream (subscribe requests minus unsubscribe requests seen by the server on that stream) differs from the dependency set", w)
		}
		return false
	}
	// push sends a dependency change on the live dependency stream and waits until the client holds it
	seq := 0
	push := func(added, removed []string) bool {
		var a, rm []*service.Service
		dmu.Lock()
		for _, n := range added {
			deps[n] = true
			a = append(a, &service.Service{Name: n})
		}
		for _, n := range removed {
			delete(deps, n)
			rm = append(rm, &service.Service{Name: n})
		}
		dmu.Unlock()
		note("push added=%v removed=%v", added, removed)
		// the push is idempotent for the client (known names are not added twice, unknown names are not removed): when the stream it
		// was written to ends before the client has read it, it is pushed again on the next one
		want := wantDeps()
		for attempt := 0; attempt < 12; attempt++ {
			var st *gStream
			for i := 0; i < 400; i++ {
				g.mu.Lock()
				st = g.cur["dep"]
				up := st != nil && st.up
				g.mu.Unlock()
				if up {
					break
				}
				st = nil
				time.Sleep(15 * time.Millisecond)
			}
			if st != nil {
				select {
				case st.depOut <- &api.DependencyDiscoveryResponse{Added: a, Removed: rm}:
				default:
				}
			}
			for i := 0; i < 300; i++ {
				if clientDeps() == want {
					return true
				}
				time.Sleep(5 * time.Millisecond)
			}
		}
		return false
	}
	existing := func() []string {
		dmu.Lock()
		defer dmu.Unlock()
		var names []string
		for n := range deps {
			names = append(names, n)
		}
		sort.Strings(names)
		return names
	}
	fresh := func(n int) []string {
		var out []string
		for i := 0; i < n; i++ {
			seq++
			out = append(out, fmt.Sprintf("svc%d_%d", idx, seq))
		}
		return out
	}
	pick := func(n int) []string {
		ex := existing()
		rnd.Shuffle(len(ex), func(i, j int) { ex[i], ex[j] = ex[j], ex[i] })
		if n > len(ex) {
			n = len(ex)
		}
		return ex[:n]
	}
	if !push(fresh(3), nil) || !settle("start") {
		return r.Violations() == 0
	}
	for step := 0; step < steps; step++ {
		class := ""
		switch k := rnd.Intn(10); {
		case k < 3:
			class = "replace"
			push(fresh(1), pick(1))
		case k < 5:
			class = "mixed-delta"
			push(fresh(1+rnd.Intn(4)), pick(rnd.Intn(4)))
		case k == 5:
			class = "burst-over-queue"
			push(fresh(20+rnd.Intn(25)), pick(rnd.Intn(10)))
		case k == 6:
			class = "remove-many"
			push(nil, pick(5+rnd.Intn(30)))
		case k == 7:
			class = "stream-ended-then-change"
			kind := []string{"cfg", "ep"}[rnd.Intn(2)]
			g.kill(kind)
			note("kill %s", kind)
			push(fresh(1+rnd.Intn(3)), pick(rnd.Intn(3)))
			push(fresh(1), pick(1))
		case k == 8:
			class = "both-streams-ended"
			g.kill("cfg")
			g.kill("ep")
			note("kill cfg+ep")
			if rnd.Intn(2) == 0 {
				time.Sleep(time.Duration(rnd.Intn(1300)) * time.Millisecond) // around the moment of re-establishment
				push(fresh(2), pick(2))
			}
		default:
			class = "dependency-stream-ended"
			g.kill("dep")
			note("kill dep")
		}
		r.Distinct("grpc/" + class)
		if rnd.Intn(3) == 0 || step == steps-1 {
			if !settle(fmt.Sprintf("after step %d (%s)", step, class)) {
				return r.Violations() == 0
			}
			r.Case("grpc/" + class)
		}
	}
	g.mu.Lock()
	r.Count("grpc_requests_seen_by_the_server", atomic.LoadInt64(&g.msgs))
	r.Count("grpc_requests_with_subscribe_and_unsubscribe_together", g.sameMsg)
	r.Count("grpc_streams_established", int64(g.gens["cfg"]+g.gens["ep"]+g.gens["dep"]))
	g.mu.Unlock()
	return true
}

func c16Grpc(r *ev.Run) {
	hist, steps := 4, 25
	if r.Tier == "thorough" {
		hist, steps = 16, 60
	}
	var wg sync.WaitGroup
	for i := 0; i < hist; i++ {
		wg.Add(1)
		go func(i int) {
			defer wg.Done()
			c16GrpcHistory(r, r.Seed*7919+int64(i), i, steps)
		}(i)
	}
	wg.Wait()
	_ = context.Background
}
