// Command vcheck is the driver of all checks, and (re-executed as a child) the
// host of in-process API checks and of the system under test.
//
//	vcheck run <ID> <quick|thorough>      driver
//	vcheck api <ID> <tier> <seed>         in-process API check (child of run)
//	vcheck sut <ctl-socket>               SUT host (child of run)
package main

import (
	"fmt"
	"os"
	"runtime/debug"
	"sort"
	"strconv"
	"strings"
	"time"

	"verif/internal/child"
	"verif/internal/ev"
	"verif/internal/sutc"
)

// Check is one registered property check.
type Check struct {
	ID    string
	Level string
	// API, when set, is run inside a child process (so that a fatal error of the
	// code under test is an exit status the driver observes).
	API func(r *ev.Run)
	// APIRace selects the -race build for the API child.
	APIRace bool
	// RaceScope lists the files (relative to /repo) in which a race report is deciding for this property.
	RaceScope []string
	// APITimeout bounds the child per tier.
	APITimeout map[string]time.Duration
	// Drive, when set, is the black-box driver run in the parent.
	Drive func(r *ev.Run)
}

var checks = map[string]*Check{}

// apiParts are in-process parts of black-box checks, run in a monitored child ("<ID>/<part>").
var apiParts = map[string]func(r *ev.Run){}

// runAPIPart runs an in-process part in a child (race build when race is set) and merges what it observed
// into r; a crash of the child is a violation of r's property with the current case as witness.
func runAPIPart(r *ev.Run, part string, race bool, raceScope []string, timeout time.Duration) {
	bin := child.Self()
	if race {
		bin = child.RaceBin()
	}
	sub := ev.New(r.ID, r.Tier, r.Seed, r.Level)
	sub.ClearProgress()
	out := fmt.Sprintf("%s/part-%s-%s.json", ev.RunDir(r.ID), part, r.Tier)
	os.Remove(out)
	logPath := fmt.Sprintf("%s/part-%s-%s.log", ev.RunDir(r.ID), part, r.Tier)
	res, err := child.Run(bin, []string{"apipart", r.ID, part, r.Tier, strconv.FormatInt(r.Seed, 10), out}, []string{"GORACE=halt_on_error=0"}, logPath, timeout)
	if err != nil {
		r.Internal("cannot run api part %s: %v", part, err)
		return
	}
	if race {
		if b, err := os.ReadFile(logPath); err == nil {
			r.Count("race_observations_any_scope", int64(strings.Count(string(b), "WARNING: DATA RACE")))
			for _, rr := range parseRaceLog(string(b), raceScope) {
				r.Violation(r.ID+":race:"+rr.Key, "data race inside the property's race scope", map[string]interface{}{"part": part, "report": rr.Text})
			}
		}
	}
	// exit status 66 is the race runtime reporting that it printed reports (judged above by scope)
	if !res.Signaled && !res.TimedOut && (res.ExitCode == 0 || (race && res.ExitCode == 66)) && r.MergePart(out) {
		return
	}
	cur := sub.RestoreProgress()
	crash := child.CrashLine(logPath)
	if res.TimedOut && crash == "" {
		r.Internal("api part %s exceeded its watchdog of %s without crashing (inconclusive); log %s", part, timeout, logPath)
		return
	}
	key := r.ID + ":child-died:" + part
	if crash != "" {
		key = r.ID + ":crash:" + crashClass(crash)
	}
	r.Case("crash")
	r.Violation(key, "process hosting the code under test died in part "+part+": "+crash,
		map[string]interface{}{"exit_code": res.ExitCode, "signaled": res.Signaled, "timed_out": res.TimedOut, "current_case": cur, "crash_line": crash, "log_tail": child.Tail(logPath, 6000)})
}

func register(c *Check) { checks[c.ID] = c }

func seed() int64 {
	if s := os.Getenv("VERIF_SEED"); s != "" {
		if v, err := strconv.ParseInt(s, 10, 64); err == nil {
			return v
		}
	}
	return 1
}

func main() {
	if len(os.Args) < 2 {
		usage()
	}
	switch os.Args[1] {
	case "run":
		if len(os.Args) < 4 {
			usage()
		}
		os.Exit(runCheck(os.Args[2], os.Args[3]))
	case "api":
		if len(os.Args) < 5 {
			usage()
		}
		c := checks[os.Args[2]]
		if c == nil || c.API == nil {
			fmt.Println("INTERNAL-ERROR unknown api check", os.Args[2])
			os.Exit(3)
		}
		s, _ := strconv.ParseInt(os.Args[4], 10, 64)
		r := ev.New(c.ID, os.Args[3], s, c.Level)
		c.API(r)
		os.Exit(r.Finish())
	case "apipart":
		// vcheck apipart <ID> <part> <tier> <seed> <outfile>
		if len(os.Args) < 7 {
			usage()
		}
		fn := apiParts[os.Args[2]+"/"+os.Args[3]]
		if fn == nil {
			fmt.Println("INTERNAL-ERROR unknown api part", os.Args[2], os.Args[3])
			os.Exit(3)
		}
		s, _ := strconv.ParseInt(os.Args[5], 10, 64)
		r := ev.New(os.Args[2], os.Args[4], s, "exploration")
		fn(r)
		r.FinishPart(os.Args[6])
		os.Exit(0)
	case "sut":
		sutMain(os.Args[2:])
	case "list":
		ids := []string{}
		for id := range checks {
			ids = append(ids, id)
		}
		sort.Strings(ids)
		for _, id := range ids {
			fmt.Println(id)
		}
	default:
		usage()
	}
}

func usage() {
	fmt.Fprintln(os.Stderr, "usage: vcheck run <ID> <quick|thorough> | api <ID> <tier> <seed> | sut <socket> | list")
	os.Exit(2)
}

func runCheck(id, tier string) int {
	c := checks[id]
	if c == nil {
		fmt.Printf("INTERNAL-ERROR unknown check %s\n", id)
		return 3
	}
	if tier != "quick" && tier != "thorough" {
		fmt.Printf("INTERNAL-ERROR unknown tier %s\n", tier)
		return 3
	}
	os.Remove(ev.Root + "/evidence/" + id + ".json")
	if c.API != nil && c.Drive == nil {
		return runAPIChild(c, tier)
	}
	r := ev.New(id, tier, seed(), c.Level)
	func() {
		defer func() {
			if p := recover(); p != nil {
				r.Internal("driver panicked: %v\n%s", p, debug.Stack())
			}
		}()
		c.Drive(r)
	}()
	return r.Finish()
}

// sutDied reports the death of the proxy process as a violation of the running check's property.
func sutDied(r *ev.Run, s *sutc.SUT, context interface{}) bool {
	if s.Alive() {
		return false
	}
	crash := s.CrashLine()
	r.Violation(r.ID+":sut-died:"+crashClass(crash), "the proxy process died: "+crash, map[string]interface{}{"context": context, "exit": s.ExitInfo(), "log_tail": s.LogTail(5000)})
	return true
}

// runAPIChild runs the API check in a child and turns a crash into a verdict.
func runAPIChild(c *Check, tier string) int {
	bin := child.Self()
	if c.APIRace {
		bin = child.RaceBin()
	}
	timeout := 10 * time.Minute
	if t, ok := c.APITimeout[tier]; ok {
		timeout = t
	}
	probe := ev.New(c.ID, tier, seed(), c.Level)
	probe.ClearProgress()
	logPath := fmt.Sprintf("%s/api-%s.log", ev.RunDir(c.ID), tier)
	env := []string{"GORACE=halt_on_error=0"}
	res, err := child.Run(bin, []string{"api", c.ID, tier, strconv.FormatInt(seed(), 10)}, env, logPath, timeout)
	if err != nil {
		fmt.Printf("INTERNAL-ERROR property=%s cannot run child: %v\n", c.ID, err)
		return 3
	}
	for _, l := range child.VerdictLines(logPath) {
		fmt.Println(l)
	}
	rc := res.ExitCode
	if c.APIRace {
		if b, err := os.ReadFile(logPath); err == nil {
			for _, rr := range parseRaceLog(string(b), c.RaceScope) {
				// the child already wrote its evidence; a scoped race is reported on top of it
				os.MkdirAll(ev.Root+"/replays", 0o755)
				path := fmt.Sprintf("replays/%s-%s-race-%d.txt", c.ID, tier, time.Now().UnixNano())
				os.WriteFile(ev.Root+"/"+path, []byte(rr.Text), 0o644)
				fmt.Printf("VIOLATION property=%s replay=%s key=%s:race:%s data race inside the property's race scope\n", c.ID, path, c.ID, rr.Key)
				if rc == 0 || rc == 66 {
					rc = 1
				}
			}
		}
	}
	if !res.Signaled && !res.TimedOut && (rc == 0 || rc == 1 || rc == 3) {
		return rc
	}
	if rc == 66 {
		return 0 // only out-of-scope race reports (exit status of the race runtime); the evidence was written
	}
	// the child died: the code under test crashed (or hung) on the current case.
	r := ev.New(c.ID, tier, seed(), c.Level)
	cur := r.RestoreProgress()
	crash := child.CrashLine(logPath)
	witness := map[string]interface{}{
		"exit_code": res.ExitCode, "signaled": res.Signaled, "timed_out": res.TimedOut,
		"current_case": cur, "crash_line": crash, "log_tail": child.Tail(logPath, 6000),
	}
	if res.TimedOut && crash == "" {
		r.Internal("api child exceeded its watchdog of %s without crashing (inconclusive); log %s", timeout, logPath)
		return r.Finish()
	}
	key := c.ID + ":child-died"
	if crash != "" {
		key = c.ID + ":crash:" + crashClass(crash)
	}
	r.Case("crash")
	r.Violation(key, "process hosting the code under test died: "+crash, witness)
	return r.Finish()
}

func crashClass(line string) string {
	out := []rune{}
	for _, ch := range line {
		switch {
		case ch >= 'a' && ch <= 'z', ch >= 'A' && ch <= 'Z':
			out = append(out, ch)
		case ch == ' ' || ch == ':':
			if len(out) > 0 && out[len(out)-1] != '-' {
				out = append(out, '-')
			}
		}
		if len(out) > 60 {
			break
		}
	}
	return string(out)
}
