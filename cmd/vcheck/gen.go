package main

import (
	"math/rand"

	"verif/internal/resp"
)

// boundary integers used by several checks.
var boundaryInts = func() []int64 {
	out := []int64{0, 1, -1, 9, 10, -9, -10, 127, 128, 129, -127, -128, -129, 255, 256, 32767, 32768, 32769, -32768,
		1<<31 - 1, 1 << 31, 1<<31 + 1, -(1 << 31), 1<<32 - 1, 1 << 32, 1<<63 - 1, -(1 << 63), -(1 << 63) + 1}
	p := int64(1)
	for k := 1; k <= 18; k++ {
		p *= 10
		out = append(out, p-1, p, p+1, -p+1, -p, -p-1)
	}
	return out
}()

var bulkLens = []int{0, 1, 2, 31, 32, 33, 63, 64, 65, 126, 127, 128, 511, 512, 513, 4094, 4095, 4096, 4097, 8190, 8191, 8192, 8193, 16384, 65536, 70001}

func genText(rnd *rand.Rand, n int, noCRLF bool) []byte {
	b := make([]byte, n)
	switch rnd.Intn(4) {
	case 0:
		for i := range b {
			b[i] = byte('a' + rnd.Intn(26))
		}
	case 1:
		c := byte(rnd.Intn(256))
		for i := range b {
			b[i] = c
		}
	default:
		rnd.Read(b)
	}
	if !noCRLF && n > 0 && rnd.Intn(2) == 0 {
		// sprinkle CR, LF, NUL, CRLF
		for j := rnd.Intn(4) + 1; j > 0; j-- {
			b[rnd.Intn(n)] = "\r\n\x00\xff"[rnd.Intn(4)]
		}
		if n >= 2 && rnd.Intn(2) == 0 {
			i := rnd.Intn(n - 1)
			b[i], b[i+1] = '\r', '\n'
		}
	}
	if noCRLF {
		for i := range b {
			if b[i] == '\r' || b[i] == '\n' {
				b[i] = '_'
			}
		}
	}
	return b
}

func genInt(rnd *rand.Rand) int64 {
	switch rnd.Intn(4) {
	case 0:
		return boundaryInts[rnd.Intn(len(boundaryInts))]
	case 1:
		return int64(rnd.Intn(40000)) - 500
	case 2:
		return rnd.Int63() >> uint(rnd.Intn(63))
	default:
		return -(rnd.Int63() >> uint(rnd.Intn(63)))
	}
}

func genBulkLen(rnd *rand.Rand, big bool) int {
	switch rnd.Intn(6) {
	case 0:
		l := bulkLens[rnd.Intn(len(bulkLens))]
		if !big && l > 9000 {
			l = 513
		}
		return l
	case 1:
		return rnd.Intn(600)
	default:
		return rnd.Intn(40)
	}
}

// genValue generates an arbitrary RESP value.
func genValue(rnd *rand.Rand, depth int, big bool) resp.Value {
	k := rnd.Intn(12)
	if depth >= 6 && k >= 9 {
		k = rnd.Intn(9)
	}
	switch {
	case k == 0:
		return resp.Value{Kind: resp.Simple, Str: genText(rnd, rnd.Intn(40), true)}
	case k == 1:
		return resp.Value{Kind: resp.Error, Str: genText(rnd, rnd.Intn(60), true)}
	case k <= 3:
		return resp.I(genInt(rnd))
	case k == 4:
		return resp.NullBulk()
	case k <= 8:
		return resp.B(genText(rnd, genBulkLen(rnd, big), false))
	case k == 9:
		if rnd.Intn(2) == 0 {
			return resp.NullArray()
		}
		return resp.Value{Kind: resp.Array, Arr: []resp.Value{}}
	default:
		n := rnd.Intn(6)
		arr := make([]resp.Value, n)
		for i := range arr {
			arr[i] = genValue(rnd, depth+1, false)
		}
		return resp.Value{Kind: resp.Array, Arr: arr}
	}
}

func valueShape(v resp.Value) string {
	switch v.Kind {
	case resp.Bulk:
		if v.Null {
			return "$nil"
		}
		return "$" + lenClass(len(v.Str))
	case resp.Array:
		if v.Null {
			return "*nil"
		}
		d := 0
		for _, e := range v.Arr {
			if e.Kind == resp.Array && !e.Null {
				d = 1
			}
		}
		return "*" + lenClass(len(v.Arr)) + []string{"", "n"}[d]
	case resp.Integer:
		switch {
		case v.Int >= -128 && v.Int <= 32768:
			return ":fast"
		case v.Int > -1000000000 && v.Int < 1000000000:
			return ":short"
		}
		return ":long"
	}
	return string(v.Kind)
}

func lenClass(n int) string {
	switch {
	case n == 0:
		return "0"
	case n < 32:
		return "s"
	case n < 512:
		return "m"
	case n < 4096:
		return "l"
	case n < 8192:
		return "xl"
	case n < 65536:
		return "xxl"
	}
	return "huge"
}
