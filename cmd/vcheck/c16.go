package main

import (
	"context"
	"errors"
	"fmt"
	"math/rand"
	"runtime"
	"sort"
	"strings"
	"sync"
	"sync/atomic"
	"time"

	"github.com/samaritan-proxy/samaritan/config"

	"verif/internal/ev"
)

func init() {
	register(&Check{ID: "C16", Level: "exploration", Drive: c16})
	apiParts["C16/client"] = func(r *ev.Run) { c16Client(r, 1) }
	apiParts["C16/client-race"] = func(r *ev.Run) { c16Client(r, 5) }
}

type sentMsg struct {
	Epoch int
	Sub   []string
	Unsub []string
}

// scriptedServer is the discovery server side of one client: a stream factory plus the streams it hands out.
type scriptedServer struct {
	mu           sync.Mutex
	factoryFails int // the next n newStream calls fail
	newStreams   int
	epoch        int
	sent         []sentMsg
	cur          *scriptedStream
	sendDelay    time.Duration
	failSendIn   int      // fail the n-th Send from now (0 = never)
	sendStarted  chan int // epoch of every Send that begins (when non-nil)
}

type scriptedStream struct {
	srv    *scriptedServer
	epoch  int
	fail   chan struct{}
	once   sync.Once
	closed int32
}

func (st *scriptedStream) kill() {
	st.once.Do(func() { atomic.StoreInt32(&st.closed, 1); close(st.fail) })
}

func (st *scriptedStream) Send(sub, unsub []string) error {
	srv := st.srv
	srv.mu.Lock()
	d := srv.sendDelay
	started := srv.sendStarted
	srv.mu.Unlock()
	if started != nil {
		select {
		case started <- st.epoch:
		default:
		}
	}
	if d > 0 {
		time.Sleep(d)
	}
	srv.mu.Lock()
	defer srv.mu.Unlock()
	if atomic.LoadInt32(&st.closed) == 1 {
		return errors.New("stream closed")
	}
	if srv.failSendIn > 0 {
		srv.failSendIn--
		if srv.failSendIn == 0 {
			st.kill()
			return errors.New("scripted send failure")
		}
	}
	srv.sent = append(srv.sent, sentMsg{Epoch: st.epoch, Sub: append([]string{}, sub...), Unsub: append([]string{}, unsub...)})
	return nil
}

func (st *scriptedStream) Recv() error {
	<-st.fail
	return errors.New("scripted recv failure")
}

func (srv *scriptedServer) maker(ctx context.Context) (config.VerifStream, error) {
	srv.mu.Lock()
	defer srv.mu.Unlock()
	srv.newStreams++
	if srv.factoryFails > 0 {
		srv.factoryFails--
		return nil, errors.New("scripted factory failure")
	}
	srv.epoch++
	st := &scriptedStream{srv: srv, epoch: srv.epoch, fail: make(chan struct{})}
	srv.cur = st
	return st, nil
}

// serverSet folds the messages of the current epoch: S := (S + sub) - unsub (subscribe list first, then unsubscribe list).
func (srv *scriptedServer) serverSet() (map[string]bool, bool, int) {
	srv.mu.Lock()
	defer srv.mu.Unlock()
	s := map[string]bool{}
	both := false
	n := 0
	for _, m := range srv.sent {
		in := map[string]bool{}
		for _, x := range m.Sub {
			in[x] = true
		}
		for _, x := range m.Unsub {
			if in[x] {
				both = true
			}
		}
		if m.Epoch != srv.epoch {
			continue
		}
		n++
		for _, x := range m.Sub {
			s[x] = true
		}
		for _, x := range m.Unsub {
			delete(s, x)
		}
	}
	return s, both, n
}

func setStr(m map[string]bool) string {
	var ks []string
	for k, v := range m {
		if v {
			ks = append(ks, k)
		}
	}
	sort.Strings(ks)
	return strings.Join(ks, ",")
}

type c16Result struct {
	kind    string // ok, deadlock, mismatch, no-retry, inconclusive
	witness map[string]interface{}
	class   string
	reach   map[string]int
}

// allStacks returns the stacks of all goroutines.
func allStacks() string {
	buf := make([]byte, 1<<20)
	for {
		n := runtime.Stack(buf, true)
		if n < len(buf) {
			return string(buf[:n])
		}
		buf = make([]byte, 2*len(buf))
	}
}

func c16History(seed int64, idx int) c16Result {
	rnd := rand.New(rand.NewSource(seed))
	srv := &scriptedServer{}
	tag := fmt.Sprintf("h%d_", idx)
	cl := config.VerifNewSvcDiscoveryClient("verif", srv.maker)
	ctx, cancel := context.WithCancel(context.Background())
	defer cancel()
	res := c16Result{kind: "ok", reach: map[string]int{}}
	nnames := 1 + rnd.Intn(40)
	shape := []string{"many-while-down", "bursts-while-up", "mixed-with-failures", "slow-server", "change-during-resubscribe"}[rnd.Intn(5)]
	res.class = fmt.Sprintf("%s/n%d", shape, nnames/10)
	want := map[string]bool{}
	var trace []string
	call := func(sub bool, name string) bool {
		done := make(chan struct{})
		go func() {
			if sub {
				cl.Subscribe(name)
			} else {
				cl.Unsubscribe(name)
			}
			close(done)
		}()
		op := "Unsub"
		if sub {
			op = "Sub"
		}
		trace = append(trace, op+"("+strings.TrimPrefix(name, tag)+")")
		select {
		case <-done:
			if sub {
				want[name] = true
			} else {
				delete(want, name)
			}
			return true
		case <-time.After(6 * time.Second):
		}
		// progress-relative: is the caller parked in the channel send while the stream loop is parked on the lock?
		s1 := allStacks()
		time.Sleep(300 * time.Millisecond)
		s2 := allStacks()
		stuck := func(s string) bool {
			for _, g := range strings.Split(s, "\n\n") {
				if strings.Contains(g, "VerifSvcDiscoveryClient).Subscribe") || strings.Contains(g, "VerifSvcDiscoveryClient).Unsubscribe") {
					if strings.Contains(g, "chan send") {
						return true
					}
				}
			}
			return false
		}
		select {
		case <-done:
			return true
		default:
		}
		if stuck(s1) && stuck(s2) {
			res.kind = "deadlock"
			res.witness = map[string]interface{}{"calls": trace, "pending_call": op + "(" + name + ")", "stream_up": srv.epoch > 0,
				"caller_stack": extractStacks(s2, "DiscoveryClient).Subscribe", 1) + extractStacks(s2, "DiscoveryClient).Unsubscribe", 1), "run_stack": extractStacks(s2, "svcDiscoveryClient).resubscribe", 1)}
		} else {
			res.kind = "inconclusive"
		}
		return false
	}
	name := func() string { return fmt.Sprintf("%ssvc%d", tag, rnd.Intn(nnames)) }
	go cl.Run(ctx)

	switch shape {
	case "many-while-down":
		// no stream can be established while the dependency set changes a lot
		srv.mu.Lock()
		srv.factoryFails = 1 + rnd.Intn(2)
		srv.mu.Unlock()
		n := 10 + rnd.Intn(60)
		pendingMax := 0
		pend := 0
		for i := 0; i < n; i++ {
			nm := name()
			if want[nm] && rnd.Intn(3) == 0 {
				if !call(false, nm) {
					return res
				}
			} else if !want[nm] {
				if !call(true, nm) {
					return res
				}
			}
			pend++
			if pend > pendingMax {
				pendingMax = pend
			}
		}
		if pendingMax > 16 {
			res.reach["histories_with_more_than_16_changes_while_down"]++
		}
	case "bursts-while-up":
		time.Sleep(20 * time.Millisecond)
		n := 5 + rnd.Intn(40)
		for i := 0; i < n; i++ {
			nm := name()
			if !call(true, nm) {
				return res
			}
			if rnd.Intn(2) == 0 {
				if !call(false, nm) {
					return res
				}
				if rnd.Intn(2) == 0 {
					if !call(true, nm) {
						return res
					}
				}
			}
			if rnd.Intn(4) == 0 {
				time.Sleep(time.Duration(rnd.Intn(3)) * time.Millisecond)
			}
		}
	case "change-during-resubscribe":
		// some services are subscribed, the stream fails, and dependency changes land exactly while the resubscribe
		// message of the next stream is in flight
		time.Sleep(20 * time.Millisecond)
		for i := 0; i < 2+rnd.Intn(5); i++ {
			if !call(true, name()) {
				return res
			}
		}
		time.Sleep(30 * time.Millisecond)
		srv.mu.Lock()
		srv.sendStarted = make(chan int, 64)
		started := srv.sendStarted
		srv.sendDelay = time.Duration(40+rnd.Intn(40)) * time.Millisecond
		oldEpoch := srv.epoch
		streamsAtKill := srv.newStreams
		if srv.cur != nil {
			srv.cur.kill()
		}
		srv.mu.Unlock()
		deadline := time.After(5 * time.Second)
	waitResub:
		for {
			select {
			case ep := <-started:
				if ep > oldEpoch {
					break waitResub
				}
			case <-deadline:
				// the retry interval is at most 1.2 s: if no new stream has even been requested 8 s after the failure, the client
				// has stopped retrying (the same criterion as at quiescence below)
				time.Sleep(3 * time.Second)
				srv.mu.Lock()
				streamsNow := srv.newStreams
				srv.mu.Unlock()
				if streamsNow == streamsAtKill {
					res.kind = "no-retry"
					res.witness = map[string]interface{}{"calls": trace, "event": "the stream's Recv failed while the client was idle; 8 s later newStream has not been called again",
						"stacks": extractStacks(allStacks(), "svcDiscoveryClient).run", 3)}
				} else {
					res.kind = "inconclusive"
				}
				return res
			}
		}
		for i := 0; i < 1+rnd.Intn(4); i++ {
			nm := name()
			if !call(!want[nm], nm) {
				return res
			}
		}
		srv.mu.Lock()
		srv.sendDelay = 0
		srv.sendStarted = nil
		srv.mu.Unlock()
		res.reach["histories_with_change_during_resubscribe"]++
	case "slow-server":
		// the server is slow to take a message, so later calls pile up and are batched
		time.Sleep(20 * time.Millisecond)
		srv.mu.Lock()
		srv.sendDelay = time.Duration(5+rnd.Intn(30)) * time.Millisecond
		srv.mu.Unlock()
		n := 4 + rnd.Intn(12)
		for i := 0; i < n; i++ {
			nm := name()
			if want[nm] {
				if !call(false, nm) {
					return res
				}
				if rnd.Intn(2) == 0 {
					if !call(true, nm) {
						return res
					}
				}
			} else {
				if !call(true, nm) {
					return res
				}
			}
		}
		srv.mu.Lock()
		srv.sendDelay = 0
		srv.mu.Unlock()
		res.reach["histories_with_slow_server"]++
	default:
		time.Sleep(10 * time.Millisecond)
		n := 10 + rnd.Intn(50)
		for i := 0; i < n; i++ {
			nm := name()
			if !call(!want[nm], nm) {
				return res
			}
			switch rnd.Intn(15) {
			case 0:
				srv.mu.Lock()
				srv.failSendIn = 1 + rnd.Intn(2)
				srv.mu.Unlock()
				res.reach["send_failures_scripted"]++
			case 1:
				srv.mu.Lock()
				if srv.cur != nil {
					srv.cur.kill()
				}
				srv.factoryFails = rnd.Intn(2)
				srv.mu.Unlock()
				res.reach["recv_failures_scripted"]++
			}
		}
	}
	// quiescence: all calls returned; a stream must come up (retry within 1.2 s + deadline) and the server-side set must equal the dependency set
	streamsBefore := func() int { srv.mu.Lock(); defer srv.mu.Unlock(); return srv.newStreams }()
	deadline := time.Now().Add(8 * time.Second)
	var got map[string]bool
	var both bool
	for time.Now().Before(deadline) {
		got, both, _ = srv.serverSet()
		srv.mu.Lock()
		up := srv.cur != nil && atomic.LoadInt32(&srv.cur.closed) == 0
		srv.mu.Unlock()
		if up && setStr(got) == setStr(want) {
			return res
		}
		time.Sleep(25 * time.Millisecond)
	}
	srv.mu.Lock()
	up := srv.cur != nil && atomic.LoadInt32(&srv.cur.closed) == 0
	streamsAfter := srv.newStreams
	sent := append([]sentMsg{}, srv.sent...)
	srv.mu.Unlock()
	if len(sent) > 12 {
		sent = sent[len(sent)-12:]
	}
	if !up {
		if streamsAfter == streamsBefore {
			res.kind = "no-retry"
			res.witness = map[string]interface{}{"calls": trace, "new_stream_calls": streamsAfter, "stacks": extractStacks(allStacks(), "svcDiscoveryClient", 3)}
		} else {
			res.kind = "inconclusive"
		}
		return res
	}
	res.kind = "mismatch"
	if both {
		res.kind = "mismatch-same-name-in-both-lists"
	}
	res.witness = map[string]interface{}{"calls": trace, "dependency_set": strings.ReplaceAll(setStr(want), tag, ""), "server_side_set": strings.ReplaceAll(setStr(got), tag, ""), "last_messages": sent, "shape": shape}
	return res
}

func c16Client(r *ev.Run, div int) {
	n := 600 / div
	if r.Tier == "thorough" {
		n = 6000 / div
	}
	par := 80
	var wg sync.WaitGroup
	sem := make(chan struct{}, par)
	var mu sync.Mutex
	for i := 0; i < n; i++ {
		wg.Add(1)
		sem <- struct{}{}
		go func(i int) {
			defer wg.Done()
			defer func() { <-sem }()
			res := c16History(r.Seed*100003+int64(i), i)
			mu.Lock()
			defer mu.Unlock()
			for k, v := range res.reach {
				r.Count(k, int64(v))
			}
			switch res.kind {
			case "ok":
				r.Count("histories_converged", 1)
			case "deadlock":
				r.Violation("C16:deadlock-subscribe-queue-full", "a Subscribe/Unsubscribe call never returned: the caller holds the client's lock while blocked on the full queue and the stream loop waits for that lock", res.witness)
			case "mismatch":
				r.Violation("C16:set-mismatch", "with a stream up and all calls returned, the set subscribed on the stream differs from the dependency set", res.witness)
			case "mismatch-same-name-in-both-lists":
				r.Violation("C16:same-name-in-both-lists", "a message carried the same service in its subscribe and its unsubscribe list, and the set subscribed on the stream ends up different from the dependency set", res.witness)
			case "no-retry":
				r.Violation("C16:stopped-retrying", "no stream is up and newStream was not called again", res.witness)
			default:
				r.Inconclusive(res.kind)
				return
			}
			r.Case(res.class)
			if i < 3 {
				r.Sample(map[string]interface{}{"history_class": res.class, "outcome": res.kind})
			}
		}(i)
	}
	wg.Wait()
}

func c16(r *ev.Run) {
	r.Rule("PRNG call sequences (length 5-120) over 1-40 service names against the real subscription client with a scripted stream factory: many changes while no stream can be established (more than the 16-entry queue), Sub/Unsub/Sub bursts while a stream is up, a slow server that makes later calls pile up into one message, scripted factory / send / receive failures; judged at quiescence; distinct = distinct (history shape, name-count class) tuples")
	r.Assume("server semantics: a message's subscribe list is applied before its unsubscribe list (field order of the request message; the reference control plane is not in this repository)")
	r.Assume("bounded-progress restatement: calls must return within 6 s (else two stack dumps decide deadlock vs inconclusive); after the last call a stream must be up and carry exactly the dependency set within 8 s (reconnect delay is 1 s +- 20 %)")
	runAPIPart(r, "client", false, nil, 20*time.Minute)
	runAPIPart(r, "client-race", true, []string{"config/discovery.go"}, 20*time.Minute)
	runAPIPart(r, "grpc", false, nil, 20*time.Minute)
	r.Require("histories_with_more_than_16_changes_while_down", 5)
	r.Require("histories_with_slow_server", 5)
	r.Require("histories_with_change_during_resubscribe", 5)
	r.Require("grpc_settled_judgements", 8)
	r.Require("grpc_requests_with_subscribe_and_unsubscribe_together", 3)
}
