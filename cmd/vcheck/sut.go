package main

import (
	"bufio"
	"bytes"
	"encoding/json"
	"fmt"
	"net"
	"os"
	"runtime"
	"runtime/pprof"
	"strings"
	"sync"
	"time"

	"github.com/samaritan-proxy/samaritan/host"
	"github.com/samaritan-proxy/samaritan/logger"
	"github.com/samaritan-proxy/samaritan/pb/config/service"
	"github.com/samaritan-proxy/samaritan/proc"
	sredis "github.com/samaritan-proxy/samaritan/proc/redis"
	"github.com/samaritan-proxy/samaritan/proc/redis/hotkey"
	_ "github.com/samaritan-proxy/samaritan/proc/tcp"
	"github.com/samaritan-proxy/samaritan/stats"
	"github.com/samaritan-proxy/samaritan/utils/vhook"
)

// The SUT host: a child process which creates processors through the public
// API and obeys a line-oriented JSON control protocol on a unix socket.

type sutReq struct {
	ID     int64           `json:"id"`
	Op     string          `json:"op"`
	Name   string          `json:"name,omitempty"`
	Config json.RawMessage `json:"config,omitempty"`
	Hosts  []sutHost       `json:"hosts,omitempty"`
	Point  string          `json:"point,omitempty"`
	Action *vhook.Action   `json:"action,omitempty"`
	Prefix string          `json:"prefix,omitempty"`
	A      int64           `json:"a,omitempty"`
	B      int64           `json:"b,omitempty"`
	S      string          `json:"s,omitempty"`
}

type sutHost struct {
	Addr   string `json:"addr"`
	Backup bool   `json:"backup,omitempty"`
}

type sutResp struct {
	ID   int64       `json:"id"`
	Err  string      `json:"err,omitempty"`
	Data interface{} `json:"data,omitempty"`
}

type sutState struct {
	mu    sync.Mutex
	procs map[string]proc.Proc
	wmu   sync.Mutex
	w     *bufio.Writer
}

func toHosts(hs []sutHost) []*host.Host {
	out := make([]*host.Host, 0, len(hs))
	for _, h := range hs {
		typ := host.TypeMain
		if h.Backup {
			typ = host.TypeBackup
		}
		out = append(out, host.NewWithType(h.Addr, typ))
	}
	return out
}

func sutMain(args []string) {
	if len(args) < 1 {
		fmt.Println("sut: missing control socket")
		os.Exit(2)
	}
	level := os.Getenv("VERIF_SUT_LOGLEVEL")
	if level == "" {
		level = "warning"
	}
	logger.SetLevel(level)
	conn, err := net.Dial("unix", args[0])
	if err != nil {
		fmt.Println("sut: cannot connect control socket:", err)
		os.Exit(2)
	}
	st := &sutState{procs: map[string]proc.Proc{}, w: bufio.NewWriter(conn)}
	sc := bufio.NewScanner(conn)
	sc.Buffer(make([]byte, 1<<20), 64<<20)
	for sc.Scan() {
		var req sutReq
		if err := json.Unmarshal(sc.Bytes(), &req); err != nil {
			fmt.Println("sut: bad request:", err)
			continue
		}
		if req.Op == "exit" {
			os.Exit(0)
		}
		// every command runs on its own goroutine: a wedged Stop must not wedge the control channel.
		go func(req sutReq) {
			data, err := st.handle(&req)
			resp := sutResp{ID: req.ID, Data: data}
			if err != nil {
				resp.Err = err.Error()
				if resp.Err == "" {
					resp.Err = "error"
				}
			}
			b, _ := json.Marshal(resp)
			st.wmu.Lock()
			st.w.Write(b)
			st.w.WriteByte('\n')
			st.w.Flush()
			st.wmu.Unlock()
		}(req)
	}
	// parent went away
	os.Exit(0)
}

func (st *sutState) proc(name string) (proc.Proc, error) {
	st.mu.Lock()
	defer st.mu.Unlock()
	p, ok := st.procs[name]
	if !ok {
		return nil, fmt.Errorf("no such proc %q", name)
	}
	return p, nil
}

func (st *sutState) handle(req *sutReq) (interface{}, error) {
	switch req.Op {
	case "ping":
		return "pong", nil
	case "proc_new":
		cfg := new(service.Config)
		if err := cfg.UnmarshalJSON(req.Config); err != nil {
			return nil, fmt.Errorf("config: %v", err)
		}
		p, err := proc.New(req.Name, cfg, toHosts(req.Hosts))
		if err != nil {
			return nil, err
		}
		st.mu.Lock()
		st.procs[req.Name] = p
		st.mu.Unlock()
		return nil, nil
	case "proc_start":
		p, err := st.proc(req.Name)
		if err != nil {
			return nil, err
		}
		return nil, p.Start()
	case "proc_stop":
		p, err := st.proc(req.Name)
		if err != nil {
			return nil, err
		}
		return nil, p.Stop()
	case "proc_drain":
		p, err := st.proc(req.Name)
		if err != nil {
			return nil, err
		}
		return nil, p.StopListen()
	case "proc_forget":
		st.mu.Lock()
		delete(st.procs, req.Name)
		st.mu.Unlock()
		return nil, nil
	case "proc_addr":
		p, err := st.proc(req.Name)
		if err != nil {
			return nil, err
		}
		return p.Address(), nil
	case "host_add", "host_remove", "host_replace":
		p, err := st.proc(req.Name)
		if err != nil {
			return nil, err
		}
		hs := toHosts(req.Hosts)
		switch req.Op {
		case "host_add":
			return nil, p.OnSvcHostAdd(hs)
		case "host_remove":
			return nil, p.OnSvcHostRemove(hs)
		default:
			return nil, p.OnSvcAllHostReplace(hs)
		}
	case "config_update":
		p, err := st.proc(req.Name)
		if err != nil {
			return nil, err
		}
		cfg := new(service.Config)
		if err := cfg.UnmarshalJSON(req.Config); err != nil {
			return nil, fmt.Errorf("config: %v", err)
		}
		return nil, p.OnSvcConfigUpdate(cfg)
	case "stats":
		out := map[string]uint64{}
		for _, c := range stats.Counters() {
			if strings.HasPrefix(c.Name(), req.Prefix) {
				out[c.Name()] = c.Value()
			}
		}
		for _, g := range stats.Gauges() {
			if strings.HasPrefix(g.Name(), req.Prefix) {
				out["gauge:"+g.Name()] = g.Value()
			}
		}
		return out, nil
	case "goroutines":
		var b bytes.Buffer
		pprof.Lookup("goroutine").WriteTo(&b, 2)
		return b.String(), nil
	case "mem":
		var ms runtime.MemStats
		runtime.ReadMemStats(&ms)
		return map[string]uint64{"sys": ms.Sys, "heap_inuse": ms.HeapInuse, "stack_inuse": ms.StackInuse,
			"goroutines": uint64(runtime.NumGoroutine()), "heap_alloc": ms.HeapAlloc}, nil
	case "gc":
		runtime.GC()
		return nil, nil
	case "hook_arm":
		if req.Action == nil {
			return nil, fmt.Errorf("missing action")
		}
		vhook.Arm(req.Point, *req.Action)
		return nil, nil
	case "hook_release":
		vhook.Release(req.Point)
		return nil, nil
	case "hook_release_parked":
		vhook.ReleaseParked(req.Point)
		return nil, nil
	case "hook_release_all":
		vhook.ReleaseAll()
		return nil, nil
	case "hook_state":
		return map[string]int64{"hits": vhook.Hits(req.Point), "parked": vhook.Parked(req.Point), "acted": vhook.Acted(req.Point)}, nil
	case "hook_snapshot":
		return vhook.Snapshot(), nil
	case "redis_timers":
		sredis.VerifSetSlotsRefreshTimers(time.Duration(req.A)*time.Millisecond, time.Duration(req.B)*time.Millisecond)
		return nil, nil
	case "hotkey_intervals":
		hotkey.VerifSetIntervals(req.A, req.B)
		return nil, nil
	case "loglevel":
		logger.SetLevel(req.S)
		return nil, nil
	}
	return nil, fmt.Errorf("unknown op %q", req.Op)
}
