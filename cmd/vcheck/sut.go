package main

func sutMain(args []string) {}
