package main

import (
	"bytes"
	"fmt"
	"github.com/samaritan-proxy/samaritan/config"
	"github.com/samaritan-proxy/samaritan/controller"
	"github.com/samaritan-proxy/samaritan/pb/common"
	"github.com/samaritan-proxy/samaritan/pb/config/bootstrap"
	"github.com/samaritan-proxy/samaritan/pb/config/protocol"
	"github.com/samaritan-proxy/samaritan/pb/config/service"
	"math/rand"
	"net"
	"os"
	"strconv"
	"strings"
	"sync"
	"sync/atomic"
	"time"
	"verif/internal/tcpsim"

	"github.com/samaritan-proxy/samaritan/cmd/samaritan/hotrestart"

	"verif/internal/ev"
)

func init() {
	register(&Check{ID: "C17", Level: "exploration", Drive: c17})
	apiParts["C17/frames"] = c17Frames
	apiParts["C17/sequence"] = c17Sequence
	apiParts["C17/drained-controller"] = c17DrainedController
}

var c17sock int64

// unixPair returns two connected unix stream connections.
func unixPair() (*net.UnixConn, *net.UnixConn, error) {
	name := fmt.Sprintf("@verif_c17_%d_%d", os.Getpid(), atomic.AddInt64(&c17sock, 1))
	ln, err := net.ListenUnix("unix", &net.UnixAddr{Name: name, Net: "unix"})
	if err != nil {
		return nil, nil, err
	}
	defer ln.Close()
	c1, err := net.DialUnix("unix", nil, &net.UnixAddr{Name: name, Net: "unix"})
	if err != nil {
		return nil, nil, err
	}
	c2, err := ln.AcceptUnix()
	if err != nil {
		c1.Close()
		return nil, nil, err
	}
	return c1, c2, nil
}

type readRes struct {
	m   *hotrestart.VerifMessage
	err error
	pan interface{}
}

func safeRead(c *net.UnixConn, timeout time.Duration) readRes {
	ch := make(chan readRes, 1)
	go func() {
		defer func() {
			if p := recover(); p != nil {
				ch <- readRes{pan: p}
			}
		}()
		c.SetReadDeadline(time.Now().Add(timeout))
		m, err := hotrestart.VerifReadMessage(c)
		ch <- readRes{m: m, err: err}
	}()
	return <-ch
}

func c17Frames(r *ev.Run) {
	rnd := rand.New(rand.NewSource(r.Seed))
	a, b, err := unixPair()
	if err != nil {
		r.Internal("unix pair: %v", err)
		return
	}
	defer a.Close()
	defer b.Close()
	reset := func() bool {
		a.Close()
		b.Close()
		a, b, err = unixPair()
		return err == nil
	}
	// (1) round trip of well-formed frames
	lens := []int{0, 1, 2, 3, 100, 255, 256, 1000, 4090, 4091, 4092, 4093}
	for typ := 0; typ < 256; typ++ {
		for _, l := range lens {
			if r.Tier != "thorough" && typ > 12 && typ%16 != 0 && l != 100 {
				continue
			}
			payload := make([]byte, l)
			rnd.Read(payload)
			r.Checkpoint(map[string]interface{}{"phase": "roundtrip", "type": typ, "len": l})
			if err := hotrestart.VerifSendMessage(a, uint8(typ), payload); err != nil {
				r.Violation("C17:frame-send-error", "sending a well-formed frame failed: "+err.Error(), map[string]interface{}{"type": typ, "len": l})
				continue
			}
			res := safeRead(b, 2*time.Second)
			switch {
			case res.pan != nil:
				r.Violation("C17:frame-panic:well-formed", fmt.Sprintf("reading a well-formed frame panicked: %v", res.pan), map[string]interface{}{"type": typ, "len": l})
				reset()
			case res.err != nil:
				r.Violation("C17:frame-roundtrip", "a well-formed frame was rejected: "+res.err.Error(), map[string]interface{}{"type": typ, "len": l})
				reset()
			case int(res.m.Type) != typ || int(res.m.Len) != l || !bytes.Equal(res.m.Data, payload):
				r.Violation("C17:frame-roundtrip", "a frame did not round-trip exactly (type, length, payload)", map[string]interface{}{"type": typ, "len": l, "got_type": res.m.Type, "got_len": res.m.Len, "got_data_len": len(res.m.Data)})
			}
			r.Case(fmt.Sprintf("rt/t%d/l%d", typ%13, l))
		}
	}
	// (2) hostile frames: declared length L versus actual payload length a
	vals := []int{0, 1, 2, 3, 4, 100, 4090, 4091, 4092, 4093, 4094, 4095, 4096, 65535}
	type la struct{ L, A int }
	var pairs []la
	for _, L := range vals {
		for _, A := range vals {
			if A <= 4093 {
				pairs = append(pairs, la{L, A})
			}
		}
	}
	n := 300
	if r.Tier == "thorough" {
		n = 5000
	}
	for i := 0; i < n; i++ {
		pairs = append(pairs, la{rnd.Intn(65536), rnd.Intn(4094)})
		pairs = append(pairs, la{rnd.Intn(4200), rnd.Intn(4094)})
	}
	for _, p := range pairs {
		typ := uint8(1 + rnd.Intn(9))
		payload := make([]byte, p.A)
		for i := range payload {
			payload[i] = byte(1 + rnd.Intn(255)) // never zero, so a byte taken from the zeroed read buffer is recognisable
		}
		raw := append([]byte{typ, byte(p.L >> 8), byte(p.L)}, payload...)
		r.Checkpoint(map[string]interface{}{"phase": "hostile", "declared": p.L, "actual": p.A})
		if _, err := a.Write(raw); err != nil {
			reset()
			continue
		}
		res := safeRead(b, 2*time.Second)
		w := map[string]interface{}{"type": typ, "declared_len": p.L, "actual_payload_len": p.A}
		class := "declared>actual"
		if p.A == p.L {
			class = "declared==actual"
		} else if p.A > p.L {
			class = "declared<actual"
		}
		switch {
		case res.pan != nil:
			w["panic"] = fmt.Sprint(res.pan)
			r.Violation("C17:frame-panic:"+class, fmt.Sprintf("reading a frame panicked (this kills the old process mid-hand-over): %v", res.pan), w)
			reset()
		case p.A < p.L:
			if res.err == nil {
				w["accepted_data_len"] = len(res.m.Data)
				r.Violation("C17:truncated-frame-accepted", fmt.Sprintf("a frame declaring %d payload bytes but carrying %d was accepted", p.L, p.A), w)
			}
		case p.A == p.L:
			if res.err != nil || res.m.Type != typ || !bytes.Equal(res.m.Data, payload) {
				r.Violation("C17:frame-roundtrip", "a complete frame was rejected or altered", w)
			}
		default: // trailing bytes: either way, but never another message
			if res.err == nil && (res.m.Type != typ || !bytes.Equal(res.m.Data, payload[:p.L])) {
				r.Violation("C17:frame-read-as-different-message", "a frame with trailing bytes was read as a different message", w)
			}
		}
		r.Case(fmt.Sprintf("hostile/%s/%s", class, lenClass(p.L)))
	}
	// (3) one- and two-byte frames
	for _, raw := range [][]byte{{1}, {1, 0}, {255}, {0, 0}} {
		a.Write(raw)
		res := safeRead(b, time.Second)
		if res.pan != nil || res.err == nil {
			r.Violation("C17:short-frame-accepted", "a frame shorter than its header was accepted or panicked", map[string]interface{}{"frame": raw, "panic": fmt.Sprint(res.pan)})
			reset()
		}
		r.Case("hostile/short-header")
	}
	r.Sample(map[string]interface{}{"frame_pairs_declared_vs_actual": len(pairs), "example": map[string]int{"declared": 4094, "actual": 4093}})
}

// fakeInstance records the hand-over steps the restarter performs.
type fakeInstance struct {
	id  int
	mu  sync.Mutex
	log []string

	stepDelay int64 // ns, atomic
	started   int64 // steps (and terminate signals) begun, atomic
	performed map[string]int
}

func (f *fakeInstance) add(s string) { f.mu.Lock(); f.log = append(f.log, s); f.mu.Unlock() }
func (f *fakeInstance) take() []string {
	f.mu.Lock()
	defer f.mu.Unlock()
	l := f.log
	f.log = nil
	return l
}
func (f *fakeInstance) ID() int            { return f.id }
func (f *fakeInstance) ParentID() int      { return 0 }
func (f *fakeInstance) ShutdownAdmin()     { f.step("admin") }
func (f *fakeInstance) DrainListeners()    { f.step("drain") }
func (f *fakeInstance) ShutdownLocalConf() { f.step("localconf") }

// step takes a moment (real steps do: they close listeners and wait) and is logged when it has been performed.
func (f *fakeInstance) step(name string) {
	atomic.AddInt64(&f.started, 1)
	if d := time.Duration(atomic.LoadInt64(&f.stepDelay)); d > 0 {
		time.Sleep(d)
	}
	f.mu.Lock()
	f.log = append(f.log, name)
	if f.performed == nil {
		f.performed = map[string]int{}
	}
	f.performed[name]++
	f.mu.Unlock()
}

func (f *fakeInstance) performedCount(name string) int {
	f.mu.Lock()
	defer f.mu.Unlock()
	return f.performed[name]
}
func (f *fakeInstance) Shutdown() { f.add("shutdown") }

const (
	mtAdminReq     = 1
	mtLocalConfReq = 3
	mtDrainReq     = 5
	mtTerminateReq = 7
	mtUnknownReply = 9
)

func c17Sequence(r *ev.Run) {
	rnd := rand.New(rand.NewSource(r.Seed + 17))
	inst := &fakeInstance{id: 700000 + os.Getpid()%100000}
	hotrestart.VerifSetKill(func(pid int, sig int) error {
		atomic.AddInt64(&inst.started, 1)
		inst.add(fmt.Sprintf("SIGNAL(%d)", sig))
		return nil
	})
	rs, err := hotrestart.New(inst)
	if err != nil {
		r.Internal("hotrestart.New: %v", err)
		return
	}
	defer rs.Shutdown()
	sock := fmt.Sprintf("@sam_domain_socket_%d", inst.id)
	dial := func() (*net.UnixConn, error) {
		var c *net.UnixConn
		var err error
		for i := 0; i < 100; i++ {
			c, err = net.DialUnix("unix", nil, &net.UnixAddr{Name: sock, Net: "unix"})
			if err == nil {
				return c, nil
			}
			time.Sleep(10 * time.Millisecond)
		}
		return nil, err
	}
	names := map[int]string{mtAdminReq: "admin", mtLocalConfReq: "localconf", mtDrainReq: "drain", mtTerminateReq: "terminate"}
	acked := map[string]int{}
	atomic.StoreInt64(&inst.stepDelay, int64(2*time.Millisecond))
	alphabet := []int{mtAdminReq, mtLocalConfReq, mtDrainReq, mtTerminateReq, 0, 9, 10, 200, 2, 8}
	// request sends one request on c and returns the reply type (-1: none)
	request := func(c *net.UnixConn, typ int) int {
		payload := []byte("{}")
		if err := hotrestart.VerifSendMessage(c, uint8(typ), payload); err != nil {
			return -1
		}
		res := safeRead(c, 3*time.Second)
		if res.err != nil || res.pan != nil {
			return -1
		}
		// an acknowledgement means "done": the child goes on (binds the ports, starts serving) as soon as it has it
		if n, ok := names[typ]; ok && typ != mtTerminateReq && int(res.m.Type) == typ+1 {
			acked[n]++
			if got := inst.performedCount(n); got < acked[n] {
				r.Violation("C17:acknowledged-before-performed:"+n, fmt.Sprintf("the %s step was acknowledged to the child before the old process had performed it (%d acknowledgements, %d performed)", n, acked[n], got),
					map[string]interface{}{"step": n, "acknowledged": acked[n], "performed_when_the_acknowledgement_arrived": got})
			}
			r.Count("acknowledgements_checked_against_performed_steps", 1)
		}
		return int(res.m.Type)
	}
	expectCalls := func(seq []int) []string {
		var out []string
		for _, t := range seq {
			switch t {
			case mtAdminReq, mtLocalConfReq, mtDrainReq:
				out = append(out, names[t])
			case mtTerminateReq:
				out = append(out, "SIGNAL(15)")
			}
		}
		return out
	}
	judge := func(seq []int, replies []int, calls []string, how string) {
		var wantReplies []int
		for _, t := range seq {
			if _, ok := names[t]; ok {
				wantReplies = append(wantReplies, t+1)
			} else {
				wantReplies = append(wantReplies, mtUnknownReply)
			}
		}
		w := map[string]interface{}{"requests": seq, "replies": replies, "want_replies": wantReplies, "calls": calls, "want_calls": expectCalls(seq), "how": how}
		if fmt.Sprint(replies) != fmt.Sprint(wantReplies) {
			r.Violation("C17:wrong-acknowledgement", "a request was not acknowledged with the matching reply", w)
		}
		if fmt.Sprint(calls) != fmt.Sprint(expectCalls(seq)) {
			r.Violation("C17:steps-not-once-in-order", "the old process did not perform each requested step once and in the order requested", w)
		}
	}
	// (1) all sequences of length <= L over the alphabet, lock-step on one connection each
	maxLen := 3
	if r.Tier == "thorough" {
		maxLen = 4
	}
	var seqs [][]int
	var gen func(prefix []int)
	gen = func(prefix []int) {
		if len(prefix) > 0 {
			seqs = append(seqs, append([]int{}, prefix...))
		}
		if len(prefix) == maxLen {
			return
		}
		for _, t := range alphabet {
			gen(append(prefix, t))
		}
	}
	gen(nil)
	for i := 0; i < 200; i++ {
		n := 5 + rnd.Intn(20)
		s := make([]int, n)
		for j := range s {
			s[j] = alphabet[rnd.Intn(len(alphabet))]
		}
		seqs = append(seqs, s)
	}
	for si, seq := range seqs {
		if r.Violations() >= 5 {
			return // enough witnesses; every further failure costs a reply timeout
		}
		if si%50 == 0 {
			r.Checkpoint(map[string]interface{}{"phase": "sequence", "requests": seq})
		}
		c, err := dial()
		if err != nil {
			r.Violation("C17:later-child-cannot-connect", "a new child could not connect to the hand-over socket: "+err.Error(), map[string]interface{}{"after_sequences": si})
			return
		}
		inst.take()
		var replies []int
		for _, t := range seq {
			replies = append(replies, request(c, t))
		}
		time.Sleep(time.Millisecond)
		judge(seq, replies, inst.take(), "lock-step")
		c.Close()
		r.Case(fmt.Sprintf("seq/len%d/%v", min(len(seq), 5), strings.Trim(fmt.Sprint(seq[:min(len(seq), 3)]), "[]")))
	}
	r.Count("sequences", int64(len(seqs)))
	// (1a) a patient child: the real new process asks for the admin stop and the drain, then waits (minutes by default) before it
	// asks for the termination on the same connection. A pause between two requests is not a reason to forget the child.
	pause := 12 * time.Second
	if r.Tier == "thorough" {
		pause = 75 * time.Second
	}
	if c, err := dial(); err != nil {
		r.Violation("C17:later-child-cannot-connect", "a new child could not connect to the hand-over socket: "+err.Error(), nil)
		return
	} else {
		inst.take()
		seq := []int{mtAdminReq, mtLocalConfReq, mtDrainReq, mtTerminateReq}
		var replies []int
		for i, t := range seq {
			if i == len(seq)-1 {
				r.Checkpoint(map[string]interface{}{"phase": "patient child", "pause": pause.String()})
				time.Sleep(pause)
			}
			replies = append(replies, request(c, t))
		}
		time.Sleep(time.Millisecond)
		judge(seq, replies, inst.take(), fmt.Sprintf("lock-step, with a pause of %s before the last request", pause))
		c.Close()
		r.Count("sequences_with_a_pause", 1)
		r.Case("seq/paused-before-terminate")
	}
	// (1b) an impatient child: the next request is sent while the old process is still busy with the
	// previous step (steps take 30 ms here), without waiting for its reply. Steps and replies must still come in the requested order.
	atomic.StoreInt64(&inst.stepDelay, int64(30*time.Millisecond))
	known := []int{mtAdminReq, mtLocalConfReq, mtDrainReq, mtTerminateReq}
	var overlapped [][]int
	for _, a := range known {
		for _, b := range known {
			// (two requests only: a third would share a read with the second, and the channel's frame model - the one the
			// property is stated in - is one frame per read)
			overlapped = append(overlapped, []int{a, b})
		}
	}
	for _, seq := range overlapped {
		if r.Violations() >= 5 {
			break
		}
		c, err := dial()
		if err != nil {
			r.Violation("C17:later-child-cannot-connect", "a new child could not connect to the hand-over socket: "+err.Error(), nil)
			return
		}
		inst.take()
		startedBefore := int64(0)
		for i, t := range seq {
			if i > 0 {
				// the old process has taken the previous frame off the socket and is inside the step: the next frame cannot
				// share a read with it, however slow this machine is
				for w := 0; w < 2000 && atomic.LoadInt64(&inst.started) == startedBefore; w++ {
					time.Sleep(time.Millisecond)
				}
				time.Sleep(2 * time.Millisecond)
			}
			startedBefore = atomic.LoadInt64(&inst.started)
			hotrestart.VerifSendMessage(c, uint8(t), []byte("{}"))
		}
		// the replies may reach this side in one read (the second step can be instantaneous): split them by their headers here
		var replies []int
		var raw []byte
		buf := make([]byte, 8192)
		c.SetReadDeadline(time.Now().Add(3 * time.Second))
		for len(replies) < len(seq) {
			for len(raw) >= 3 && len(raw) >= 3+int(raw[1])<<8+int(raw[2]) {
				replies = append(replies, int(raw[0]))
				raw = raw[3+int(raw[1])<<8+int(raw[2]):]
			}
			if len(replies) >= len(seq) {
				break
			}
			n, err := c.Read(buf)
			if err != nil {
				replies = append(replies, -1)
				break
			}
			raw = append(raw, buf[:n]...)
		}
		time.Sleep(2 * time.Millisecond)
		judge(seq, replies, inst.take(), "next request sent while the previous step is running, before its reply")
		c.Close()
		r.Count("overlapped_sequences", 1)
		r.Case(fmt.Sprintf("overlapped/len%d/%v", len(seq), strings.Trim(fmt.Sprint(seq), "[]")))
	}
	atomic.StoreInt64(&inst.stepDelay, int64(2*time.Millisecond))
	r.Sample(map[string]interface{}{"requests": []int{mtAdminReq, mtLocalConfReq, mtDrainReq, mtTerminateReq}, "expected_replies": []int{2, 4, 6, 8}, "expected_calls": []string{"admin", "localconf", "drain", "SIGNAL(15)"}})

	// (2) a child that disappears at every point does not prevent a later child from completing the hand-over
	full := []int{mtAdminReq, mtLocalConfReq, mtDrainReq, mtTerminateReq}
	drops := []string{"connect-only", "after-request", "mid-header-1", "mid-header-2", "mid-payload", "before-reading-reply", "after-two-steps"}
	reps := 5
	if r.Tier == "thorough" {
		reps = 60
	}
	for rep := 0; rep < reps; rep++ {
		for _, d := range drops {
			if r.Violations() >= 5 {
				return
			}
			c, err := dial()
			if err != nil {
				r.Violation("C17:later-child-cannot-connect", "a child could not connect after an earlier child disappeared: "+err.Error(), map[string]interface{}{"drop": d})
				return
			}
			inst.take()
			switch d {
			case "after-request", "before-reading-reply":
				hotrestart.VerifSendMessage(c, mtDrainReq, []byte("{}"))
				if d == "before-reading-reply" {
					time.Sleep(5 * time.Millisecond)
				}
			case "mid-header-1":
				c.Write([]byte{mtDrainReq})
			case "mid-header-2":
				c.Write([]byte{mtDrainReq, 0})
			case "mid-payload":
				c.Write([]byte{mtAdminReq, 0, 10, '{'})
			case "after-two-steps":
				request(c, mtAdminReq)
				request(c, mtLocalConfReq)
			}
			c.Close()
			time.Sleep(5 * time.Millisecond)
			inst.take()
			c2, err := dial()
			if err != nil {
				r.Violation("C17:later-child-cannot-connect", "a later child could not connect after an earlier child disappeared ("+d+"): "+err.Error(), nil)
				return
			}
			var replies []int
			for _, t := range full {
				replies = append(replies, request(c2, t))
			}
			time.Sleep(time.Millisecond)
			judge(full, replies, inst.take(), "after a child dropped at "+d)
			c2.Close()
			r.Case("dropped-child/" + d)
		}
	}
	// (3) hostile frames interleaved with valid ones do not change the meaning of later valid frames
	hostile := [][]byte{{mtDrainReq}, {mtDrainReq, 0}, {mtTerminateReq, 0, 50, 'x'}, {mtAdminReq, 0xff, 0xff}, {mtTerminateReq, 0x0f, 0xfe}}
	for rep := 0; rep < reps*4; rep++ {
		if r.Violations() >= 5 {
			return
		}
		c, err := dial()
		if err != nil {
			r.Violation("C17:later-child-cannot-connect", "cannot connect: "+err.Error(), nil)
			return
		}
		inst.take()
		h := hostile[rnd.Intn(len(hostile))]
		c.Write(h)
		time.Sleep(15 * time.Millisecond) // the frame is read on its own (stream socket)
		dropped := inst.take()
		var replies []int
		for _, t := range full[:3] {
			replies = append(replies, request(c, t))
		}
		time.Sleep(time.Millisecond)
		calls := inst.take()
		if len(dropped) > 0 {
			r.Violation("C17:malformed-frame-executed", "a truncated / malformed frame made the old process perform a hand-over step", map[string]interface{}{"frame": h, "calls": dropped})
		}
		judge(full[:3], replies, calls, fmt.Sprintf("after hostile frame %v", h))
		c.Close()
		r.Case(fmt.Sprintf("hostile-then-valid/%d", len(h)))
	}
}

func c17(r *ev.Run) {
	r.Rule("frames: every message type x payload lengths {0..4093} round trip; declared length versus actual payload length over boundary values and PRNG pairs (truncated, exact, trailing), 1- and 2-byte frames; sequencing: all request sequences up to length 3 (4 in thorough) over {admin, localconf, drain, terminate, six unknown types} plus PRNG longer ones against the real restarter with a recording Instance; a child dropped at 7 points followed by a full hand-over; hostile frames followed by valid ones; distinct = distinct (type class, length class) / sequence prefixes / drop points")
	r.Assume("the hand-over protocol is a synchronous RPC: the driver plays the new process in lock-step; SIGTERM to self is replaced by a recorded call through the verif hook")
	runAPIPart(r, "frames", false, nil, 10*time.Minute)
	runAPIPart(r, "sequence", false, nil, 15*time.Minute)
	runAPIPart(r, "drained-controller", false, nil, 5*time.Minute)
	c17Smoke(r)
	c17RealOldProcess(r)
	r.Require("sequences", 500)
	r.Require("smoke_listeners_handed_over", 1)
}

// c17DrainedController (in-process part): after the drain step - "stop accepting new connections" - the old process keeps running
// (and keeps consuming configuration events) until it is told to terminate, minutes later by default. A service that is added, or
// is just being started, after the drain must not accept connections in the old process: they belong to the new one.
func c17DrainedController(r *ev.Run) {
	rnd := rand.New(rand.NewSource(r.Seed + 1717))
	be, err := tcpsim.NewBackend(nil)
	if err != nil {
		r.Internal("backend: %v", err)
		return
	}
	defer be.Close()
	bhost, bportS, _ := net.SplitHostPort(be.Addr)
	bport, _ := strconv.Atoi(bportS)
	reps := 3
	if r.Tier == "thorough" {
		reps = 20
	}
	accepts := func(addr string, within time.Duration) bool {
		deadline := time.Now().Add(within)
		for time.Now().Before(deadline) {
			if c, err := net.DialTimeout("tcp", addr, 200*time.Millisecond); err == nil {
				ok := echoRoundTrip(c, "ping")
				c.Close()
				if ok {
					return true
				}
			}
			time.Sleep(25 * time.Millisecond)
		}
		return false
	}
	for rep := 0; rep < reps; rep++ {
		b := &bootstrap.Bootstrap{Admin: &bootstrap.Admin{Bind: &common.Address{Ip: "127.0.0.1", Port: 1}}}
		cfg, err := config.New(b)
		if err != nil {
			r.Internal("config.New: %v", err)
			return
		}
		ctl, err := controller.New(cfg.Subscribe())
		if err != nil {
			r.Internal("controller.New: %v", err)
			return
		}
		ctl.Start()
		add := func(name string, port int) {
			cfg.VerifDependencyUpdate([]*service.Service{{Name: name}}, nil)
			cfg.VerifSvcConfigUpdate(name, &service.Config{Listener: &service.Listener{Address: &common.Address{Ip: "127.0.0.1", Port: uint32(port)}}, Protocol: protocol.TCP})
			cfg.VerifSvcEndpointUpdate(name, []*service.Endpoint{{Address: &common.Address{Ip: bhost, Port: uint32(bport)}}}, nil)
		}
		p1, p2 := freePort(), freePort()
		n1, n2 := fmt.Sprintf("c17d%d_%d_a", os.Getpid(), rep), fmt.Sprintf("c17d%d_%d_b", os.Getpid(), rep)
		add(n1, p1)
		a1, a2 := fmt.Sprintf("127.0.0.1:%d", p1), fmt.Sprintf("127.0.0.1:%d", p2)
		if !accepts(a1, 3*time.Second) {
			r.Inconclusive("drained-controller:first-service-not-up")
			ctl.Stop()
			continue
		}
		ctl.DrainListeners()
		time.Sleep(time.Duration(rnd.Intn(80)) * time.Millisecond)
		w := map[string]interface{}{"service_before_the_drain": a1, "service_added_after_the_drain": a2}
		if accepts(a1, 300*time.Millisecond) {
			r.Violation("C17:drained-controller:still-accepting", "a service that existed when the listeners were drained still accepts new connections", w)
		}
		add(n2, p2)
		if accepts(a2, 1500*time.Millisecond) {
			r.Violation("C17:drained-controller:service-added-after-drain-accepts", "the old process accepted and served a new connection for a service that was added after it had drained its listeners (the drain is not remembered)", w)
		} else {
			r.Count("services_added_after_the_drain_not_accepting", 1)
		}
		r.Case("drained-controller")
		ctl.Stop()
	}
	r.Require("services_added_after_the_drain_not_accepting", 2)
}
