package main

import (
	"fmt"
	"math/rand"
	"os"
	"strconv"
	"strings"
	"sync"
	"sync/atomic"
	"time"

	predis "github.com/samaritan-proxy/samaritan/pb/config/protocol/redis"
	sredis "github.com/samaritan-proxy/samaritan/proc/redis"

	"verif/internal/ev"
	"verif/internal/fakecluster"
	"verif/internal/rclient"
	"verif/internal/resp"
	"verif/internal/sutc"
)

func init() {
	register(&Check{ID: "C02", Level: "fault_enumeration", Drive: c02})
	apiParts["C02/children"] = c02Children
}

// c02Children completes the per-key children of real multi-key requests from goroutines released at the same instant:
// the parent must be completed exactly once (a lost completion leaves the client waiting forever, a double one crashes).
func c02Children(r *ev.Run) {
	rnd := rand.New(rand.NewSource(r.Seed))
	rounds := 600000
	if r.Tier == "thorough" {
		rounds = 1500000
	}
	kinds := []string{"MGET", "MSET", "DEL", "exists", "Touch", "UNLINK"}
	for i := 0; i < rounds; i++ {
		kind := kinds[i%len(kinds)]
		n := 2 + rnd.Intn(7)
		args := [][]byte{[]byte(kind)}
		for k := 0; k < n; k++ {
			args = append(args, []byte(fmt.Sprintf("k%d", k)))
			if kind == "MSET" {
				args = append(args, []byte("v"))
			}
		}
		q, err := sredis.VerifNewMultiKeyRequest(args)
		if err != nil || q.NumChildren() != n {
			r.Violation("C02:multi-key-split", "a multi-key request was not split into one child per key", map[string]interface{}{"kind": kind, "keys": n})
			return
		}
		if i%2000 == 0 {
			r.Checkpoint(map[string]interface{}{"phase": "children", "kind": kind, "children": n, "round": i})
		}
		var gate int32
		var wg sync.WaitGroup
		for c := 0; c < n; c++ {
			wg.Add(1)
			go func(c int) {
				defer wg.Done()
				for atomic.LoadInt32(&gate) == 0 {
				}
				var v *sredis.RespValue
				switch strings.ToLower(kind) {
				case "mget":
					v = &sredis.RespValue{Type: sredis.BulkString, Text: []byte(fmt.Sprintf("v%d", c))}
				case "mset":
					v = &sredis.RespValue{Type: sredis.SimpleString, Text: []byte("OK")}
				default:
					v = &sredis.RespValue{Type: sredis.Integer, Int: int64(c + 1)}
				}
				q.CompleteChild(c, v)
			}(c)
		}
		atomic.StoreInt32(&gate, 1)
		wg.Wait()
		resp := q.Response()
		if resp == nil {
			r.Violation("C02:lost:child-completion:"+strings.ToLower(kind), "all children of a multi-key request were completed (concurrently) but the request itself was never completed",
				map[string]interface{}{"kind": kind, "children": n, "round": i})
			return
		}
		okv := true
		switch strings.ToLower(kind) {
		case "mget":
			okv = resp.Type == sredis.Array && len(resp.Array) == n
			for c := 0; okv && c < n; c++ {
				okv = string(resp.Array[c].Text) == fmt.Sprintf("v%d", c)
			}
		case "mset":
			okv = resp.Type == sredis.SimpleString && string(resp.Text) == "OK"
		default:
			okv = resp.Type == sredis.Integer && resp.Int == int64(n*(n+1)/2)
		}
		if !okv {
			r.Violation("C02:multi-key-result:"+strings.ToLower(kind), "children completed concurrently were combined into a wrong reply", map[string]interface{}{"kind": kind, "children": n, "reply": resp.String()})
			return
		}
	}
	r.Cases(rounds, "children/concurrent-completion")
	for _, k := range kinds {
		r.Distinct("children/" + strings.ToLower(k))
	}
	r.Count("concurrent_child_completion_rounds", int64(rounds))
}

type c02Script struct {
	Hook  string // pause point at which the request is held
	Fault string // what happens to the backend while it is held
	Class string // request class
}

var (
	c02Hooks  = []string{"redis.client.send.before_enqueue", "redis.client.write.after_dequeue", "redis.client.write.before_handoff", "redis.session.read.before_enqueue", "redis.session.write.before_wait", "redis.upstream.ask.between"}
	c02Faults = []string{"reset-conn", "fin-conn", "host-remove", "host-replace", "client-closes"}
	c02Class  = []string{"simple", "mget-child", "ask-redirected"}
)

type c02Env struct {
	r    *ev.Run
	s    *sutc.SUT
	cl   *fakecluster.Cluster
	svc  *RedisSvc
	a, b *fakecluster.Node
	ka   []string // keys owned by a
	kb   []string // keys owned by b
	kask string   // key in a slot of b that is migrating to a (absent on b): ASK to a
	seq  int
}

func (e *c02Env) start(race bool) error {
	s, err := startSUT(e.r, race, 600000, 20)
	if err != nil {
		return err
	}
	cl, err := fakecluster.New(2, 0)
	if err != nil {
		s.Kill()
		return err
	}
	cl.AssignContiguous()
	cl.LogArgs = false
	e.s, e.cl, e.a, e.b = s, cl, cl.Nodes[0], cl.Nodes[1]
	e.ka = keysFor(cl, e.a, 50, "ka")
	e.kb = keysFor(cl, e.b, 50, "kb")
	e.kask = keysFor(cl, e.b, 60, "ask")[55]
	slot := fakecluster.Slot([]byte(e.kask))
	cl.Lock()
	e.b.SetMigratingLocked(slot, e.a)
	e.a.SetImportingLocked(slot, e.b)
	cl.Unlock()
	svc, err := startRedisSvc(s, cl, cl.Addrs(), RedisOpts{ConnTimeout: 500 * time.Millisecond})
	if err != nil {
		return err
	}
	e.svc = svc
	if !svc.WaitRouting(1, 10*time.Second) {
		return fmt.Errorf("routing not loaded")
	}
	return nil
}

func (e *c02Env) stop() {
	if e.s != nil {
		e.s.HookReleaseAll()
		e.s.Close()
	}
	if e.cl != nil {
		e.cl.Close()
	}
}

// canaries: a fresh connection must get PING and a keyed round trip per node answered (3 tries: load tolerance).
func (e *c02Env) canaries() bool {
	for try := 0; try < 3; try++ {
		c, err := e.svc.Dial()
		if err == nil {
			ok := true
			for _, args := range [][]string{{"PING"}, {"SET", e.ka[0], "c"}, {"SET", e.kb[0], "c"}} {
				v, err := c.DoS(2*time.Second, args...)
				if err != nil || v.Kind == resp.Error {
					ok = false
				}
			}
			c.Close()
			if ok {
				return true
			}
		}
		time.Sleep(300 * time.Millisecond)
	}
	return false
}

// stuckInWait takes two goroutine dumps 300 ms apart and reports whether a session writer is parked in both (the decisive evidence
// for a lost request is the canaries: the backend connections are FIFO, so a request that is still unanswered after fresh requests
// through the same backends completed is not merely slow).
func (e *c02Env) stuckInWait() (bool, string) {
	g1, err1 := e.s.Goroutines()
	time.Sleep(300 * time.Millisecond)
	g2, err2 := e.s.Goroutines()
	if err1 != nil || err2 != nil {
		return false, ""
	}
	// the session writer waits for the head request either in rawRequest.Wait or (newer code) in a select inside loopWrite
	for _, frame := range []string{"(*rawRequest).Wait", "redis.(*session).loopWrite"} {
		if strings.Contains(g1, frame) && strings.Contains(g2, frame) {
			return true, extractStacks(g2, frame, 2)
		}
	}
	return false, ""
}

func extractStacks(dump, needle string, max int) string {
	var out []string
	for _, blk := range strings.Split(dump, "\n\n") {
		if strings.Contains(blk, needle) {
			out = append(out, blk)
			if len(out) >= max {
				break
			}
		}
	}
	return strings.Join(out, "\n\n")
}

// runScript executes one forced ordering; returns "answered", "lost", "not-parked", "inconclusive".
func (e *c02Env) runScript(sc c02Script, rep int) (string, map[string]interface{}) {
	w := map[string]interface{}{"script": sc, "repetition": rep}
	e.seq++
	conn, err := e.svc.Dial()
	if err != nil {
		return "inconclusive", w
	}
	defer conn.Close()
	// warm: backend connections exist and are idle
	for _, k := range []string{e.ka[1], e.kb[1]} {
		if v, err := conn.DoS(5*time.Second, "SET", k, "warm"); err != nil || v.Kind == resp.Error {
			// a previous script's fault may still be healing
			time.Sleep(200 * time.Millisecond)
			conn.DoS(5*time.Second, "SET", k, "warm")
		}
	}
	var req [][]byte
	skip := 0
	bs := func(s ...string) [][]byte {
		o := make([][]byte, len(s))
		for i := range s {
			o[i] = []byte(s[i])
		}
		return o
	}
	switch sc.Class {
	case "simple":
		req = bs("GET", e.ka[2+e.seq%40])
	case "mget-child":
		req = bs("MGET", e.ka[2+e.seq%40], e.ka[3+e.seq%40], e.ka[4+e.seq%40])
		skip = e.seq % 3 // hold the first, second or third child
	case "ask-redirected":
		req = bs("SET", "{"+e.kask+"}."+fmt.Sprint(e.seq), "v") // absent on b: ASK to a; passages at a: ASKING, then the command
		skip = 1
		if strings.HasPrefix(sc.Hook, "redis.session.") {
			skip = 0
		}
	}
	usedSilent := false
	if (sc.Hook == "redis.client.write.before_handoff" || sc.Hook == "redis.client.write.after_dequeue") && sc.Fault != "client-closes" {
		usedSilent = true
		// the node must not answer the held request before the fault, otherwise the backend reader would
		// park on the still-empty sent queue and could not notice the loss of the connection
		atomic.StoreInt32(&e.a.Silent, 1)
		defer atomic.StoreInt32(&e.a.Silent, 0)
	}
	if sc.Hook == "redis.upstream.ask.between" {
		skip = 0
	}
	if sc.Class == "ask-redirected" && strings.HasPrefix(sc.Hook, "redis.client.") {
		// passages of b's client come first (the command is sent to b, which answers ASK)
		if sc.Hook == "redis.client.send.before_enqueue" {
			skip = 2 // b: command; a: ASKING; a: command
		} else {
			skip = 2
		}
	}
	if err := e.s.HookArm(sc.Hook, sutc.HookAction{Mode: "park", Skip: skip, Times: 1}); err != nil {
		return "inconclusive", w
	}
	defer e.s.HookRelease(sc.Hook)
	if _, err := conn.C.Write(resp.Cmd(req...)); err != nil {
		return "inconclusive", w
	}
	if !e.s.WaitParked(sc.Hook, 1, 2*time.Second) {
		e.s.HookRelease(sc.Hook)
		conn.Read(3 * time.Second)
		return "not-parked", w
	}
	// the fault, while the request is held
	hosts := hostsOf(e.cl.Addrs())
	var bg sync.WaitGroup
	switch sc.Fault {
	case "reset-conn", "fin-conn":
		e.a.KillConns(sc.Fault == "reset-conn")
		// the proxy's side has to notice: wait until the node has no connection left, plus a moment
		for i := 0; i < 100 && e.a.NumConns() > 0; i++ {
			time.Sleep(2 * time.Millisecond)
		}
		time.Sleep(40 * time.Millisecond)
	case "host-remove":
		bg.Add(1)
		go func() {
			defer bg.Done()
			e.s.Op(8*time.Second, "host_remove", e.svc.Name, map[string]interface{}{"hosts": hosts[:1]})
		}() // may block until the held goroutine is released
		time.Sleep(60 * time.Millisecond)
	case "host-replace":
		bg.Add(1)
		go func() {
			defer bg.Done()
			e.s.Op(8*time.Second, "host_replace", e.svc.Name, map[string]interface{}{"hosts": hosts})
		}()
		time.Sleep(60 * time.Millisecond)
	case "client-closes":
		conn.Close()
		time.Sleep(30 * time.Millisecond)
	}
	e.s.HookRelease(sc.Hook)
	if usedSilent {
		// a node that swallowed a request must never answer later requests on that connection (replies would be
		// paired with the wrong requests): it closes the connection instead, as a hung server eventually does
		e.a.KillConns(false)
		atomic.StoreInt32(&e.a.Silent, 0)
	}
	bg.Wait()
	if sc.Fault == "host-remove" {
		e.s.HostOp("host_add", e.svc.Name, hosts[:1])
	}
	if sc.Fault == "client-closes" {
		// no reply expected; the proxy must survive and keep serving
		if !e.s.Alive() {
			return "died", w
		}
		if !e.canaries() {
			return "wedged", w
		}
		return "answered", w
	}
	// progress-relative deadline: 3 s wall, then canaries through the same component
	v, err := conn.Read(3 * time.Second)
	if err == nil {
		w["reply"] = v.String()
		return "answered", w
	}
	if !e.s.Alive() {
		return "died", w
	}
	if !rclient.IsTimeout(err) {
		w["client_connection_error"] = err.Error()
		return "connection-closed", w
	}
	if !e.canaries() {
		// nothing is served any more: a wedge if the process is alive and the same goroutines are parked in two dumps
		if e.s.Alive() {
			if stuck, stacks := e.stuckInWait(); stuck {
				g, _ := e.s.Goroutines()
				w["stuck_goroutines"] = stacks
				w["lock_waiters"] = extractStacks(g, "sync.(*Mutex).Lock", 4)
				return "wedged", w
			}
		}
		return "inconclusive", w
	}
	if v, err := conn.Read(2 * time.Second); err == nil {
		w["reply"] = v.String()
		return "answered", w
	}
	stuck, stacks := e.stuckInWait()
	if !stuck {
		return "inconclusive", w
	}
	w["stuck_goroutines"] = stacks
	return "lost", w
}

func c02(r *ev.Run) {
	r.Rule("forced orderings: {pause point holding the request} x {backend connection reset / closed, host removed, hosts replaced, client closes} x {simple request, MGET child, ASK-redirected request}, each repeated (a losing outcome may be a coin flip); full-queue script (node stops reading until > 1024 requests are outstanding, then dies); redirections between two backends whose queues are full (a cycle, and a host removal while a redirection into a silent full backend is pending); the service stopped under pipelined (and redirected) traffic; a ready reply followed by a request whose backend takes 5 s; random fault stress with probabilistic delays at the pause points; distinct = distinct (hook, fault, class) scripts that reached their pause point + stress fault kinds")
	r.Assume("bounded-progress restatement of 'eventually': a request is lost if it is unanswered 3 s after the fault ended AND fresh canary requests through the same backends succeed AND two goroutine dumps 300 ms apart both show a session writer in rawRequest.Wait; anything else is inconclusive")
	r.Assume("pause points are placed between critical sections / at channel operations only (utils/vhook), so every forced ordering is one the scheduler could produce")
	switch os.Getenv("VERIF_C02_ONLY") { // debugging aid: the volume requirements then report the run inconclusive
	case "redirect":
		c02RedirectFullQueues(r)
		return
	case "filtered":
		c02FilteredAfterPending(r)
		return
	case "stress":
		c02Stress(r)
		return
	case "stop":
		c02StopUnderTraffic(r)
		return
	case "withheld":
		c02ReplyWithheld(r)
		return
	case "late":
		c02LateRedirection(r)
		c02LateSenders(r)
		return
	}
	e := &c02Env{r: r}
	if err := e.start(false); err != nil {
		r.Internal("start: %v", err)
		e.stop()
		return
	}
	reps := 4
	if r.Tier == "thorough" {
		reps = 12
	}
	restart := func() bool {
		e.stop()
		e.s, e.cl = nil, nil
		if err := e.start(false); err != nil {
			r.Internal("restart: %v", err)
			return false
		}
		return true
	}
	nscripts := 0
	wedges := 0
	for _, hook := range c02Hooks {
		for _, fault := range c02Faults {
			for _, class := range c02Class {
				if hook == "redis.upstream.ask.between" && class != "ask-redirected" {
					continue
				}
				if r.Tier != "thorough" && class == "ask-redirected" && hook != "redis.upstream.ask.between" && (fault == "fin-conn" || fault == "host-replace") {
					continue
				}
				sc := c02Script{Hook: hook, Fault: fault, Class: class}
				reached := false
				for rep := 0; rep < reps; rep++ {
					if r.Violations() >= 6 || wedges >= 2 {
						break // enough witnesses; every further loss costs a restart and several deadlines
					}
					out, w := e.runScript(sc, rep)
					r.Count("outcome:"+out, 1)
					switch out {
					case "answered", "connection-closed":
						reached = true
					case "not-parked":
					case "lost":
						reached = true
						r.Violation(fmt.Sprintf("C02:lost:%s:%s", strings.TrimPrefix(hook, "redis."), class), "a request held at "+hook+" while the backend connection went away ("+fault+") was never answered", w)
						if !restart() {
							return
						}
					case "died":
						w["crash"] = e.s.CrashLine()
						w["log_tail"] = e.s.LogTail(3000)
						r.Violation("C02:died:"+crashClass(e.s.CrashLine()), "the proxy died: "+e.s.CrashLine(), w)
						if !restart() {
							return
						}
					case "wedged":
						r.Violation(fmt.Sprintf("C02:wedged:%s:%s", strings.TrimPrefix(hook, "redis."), fault), "after the script the proxy no longer serves canaries", w)
						wedges++
						if !restart() {
							return
						}
					default:
						r.Inconclusive(out)
						if !e.s.Alive() || !e.canaries() {
							if !restart() {
								return
							}
						}
					}
					if out != "not-parked" && out != "inconclusive" {
						r.Case("")
					}
				}
				if reached {
					nscripts++
					r.Distinct(fmt.Sprintf("script/%s/%s/%s", strings.TrimPrefix(hook, "redis."), fault, class))
				}
			}
		}
	}
	r.Count("scripts_that_reached_their_pause_point", int64(nscripts))
	r.Sample(map[string]interface{}{"script": c02Script{Hook: c02Hooks[2], Fault: "reset-conn", Class: "simple"}, "steps": "warm-up; node silent; arm park; send GET; wait parked; reset backend connection; wait until the node sees it closed; release; expect a reply within the progress-relative deadline"})
	c02FullQueue(r, e)
	e.stop()
	c02FilteredAfterPending(r)
	r.Require("filtered_request_in_hand_when_backend_reset", 2)
	c02RedirectFullQueues(r)
	r.Require("redirect_cycle_answered", 1)
	r.Require("host_removed_while_redirecting", 1)
	c02StopUnderTraffic(r)
	c02ReplyWithheld(r)
	c02LateRedirection(r)
	r.Require("redirections_queued_while_the_loop_was_held", 3)
	c02LateSenders(r)
	r.Require("late_sender_rounds", 3)
	c02MultiKeyStorm(r)
	runAPIPart(r, "children", false, nil, 10*time.Minute)
	c02Stress(r)
	r.Require("scripts_that_reached_their_pause_point", 30)
	r.Require("outcome:answered", 60)
}

// c02FullQueue: the node stops reading, more than 1024 requests pile up (senders block on the full queue), then the node dies.
func c02FullQueue(r *ev.Run, e *c02Env) {
	if !e.s.Alive() {
		return
	}
	atomic.StoreInt32(&e.a.StopReading, 1)
	nconn, per := 6, 260
	val := strings.Repeat("x", 16*1024)
	var wg sync.WaitGroup
	answered := make([]int, nconn)
	for c := 0; c < nconn; c++ {
		wg.Add(1)
		go func(c int) {
			defer wg.Done()
			conn, err := e.svc.Dial()
			if err != nil {
				return
			}
			defer conn.Close()
			go func() {
				for i := 0; i < per; i++ {
					if _, err := conn.C.Write(resp.CmdS("SET", e.ka[(c*per+i)%len(e.ka)], val)); err != nil {
						return
					}
				}
			}()
			for i := 0; i < per; i++ {
				if _, err := conn.Read(20 * time.Second); err != nil {
					return
				}
				answered[c]++
			}
		}(c)
	}
	time.Sleep(1500 * time.Millisecond) // queues fill
	e.a.KillConns(true)
	atomic.StoreInt32(&e.a.StopReading, 0)
	wg.Wait()
	total := 0
	for _, a := range answered {
		total += a
	}
	if total != nconn*per {
		if sutDied(r, e.s, "full-queue script") {
			return
		}
		if e.canaries() {
			stuck, stacks := e.stuckInWait()
			if stuck {
				r.Violation("C02:lost:full-queue", fmt.Sprintf("only %d of %d requests were answered after the node that had stopped reading died", total, nconn*per), map[string]interface{}{"answered_per_connection": answered, "stuck_goroutines": stacks})
			} else {
				r.Inconclusive("full-queue-unanswered-but-not-stuck")
			}
		} else {
			r.Inconclusive("full-queue-canaries-failed")
		}
	}
	r.Count("full_queue_requests_answered", int64(total))
	r.Case("script/full-queue")
	r.Distinct("script/full-queue")
}

// c02Stress: pipelined value-mode traffic while faults are injected at PRNG moments and pause points delay a few percent of passages.
func c02Stress(r *ev.Run) {
	for _, race := range []bool{false, true} {
		label := "plain"
		if race {
			label = "race"
		}
		s, err := startSUT(r, race, 200, 20)
		if err != nil {
			r.Internal("start sut: %v", err)
			return
		}
		rnd := rand.New(rand.NewSource(r.Seed*53 + int64(len(label))))
		cl, err := fakecluster.New(3, 0)
		if err != nil {
			r.Internal("fakecluster: %v", err)
			s.Close()
			return
		}
		cl.AssignContiguous()
		cl.LogArgs = false
		svc, err := startRedisSvc(s, cl, cl.Addrs(), RedisOpts{ConnTimeout: 500 * time.Millisecond})
		if err != nil || !svc.WaitRouting(1, 10*time.Second) {
			r.Internal("stress: service did not start: %v", err)
			s.Close()
			cl.Close()
			return
		}
		for i, h := range c02Hooks {
			s.HookArm(h, sutc.HookAction{Mode: "sleep", Prob: 0.03, SleepUs: 1500, Seed: r.Seed + int64(i)})
		}
		s.HookArm("redis.client.start.before_drain", sutc.HookAction{Mode: "sleep", Prob: 0.5, SleepUs: 3000, Seed: r.Seed})
		nconn := 8
		pipes := 120
		nfaults := 40
		if r.Tier == "thorough" {
			pipes, nfaults = 400, 400
		}
		if race {
			pipes /= 4
			nfaults /= 4
		}
		var faultsDone int32
		stopFaults := make(chan struct{})
		var fwg sync.WaitGroup
		fwg.Add(1)
		go func() {
			defer fwg.Done()
			hosts := hostsOf(cl.Addrs())
			for i := 0; i < nfaults; i++ {
				select {
				case <-stopFaults:
					return
				case <-time.After(time.Duration(5+rnd.Intn(40)) * time.Millisecond):
				}
				n := cl.Nodes[rnd.Intn(len(cl.Nodes))]
				kind := []string{"rst", "fin", "silent-then-close", "stop-reading-then-die", "host-remove-add", "host-replace"}[rnd.Intn(6)]
				switch kind {
				case "rst":
					n.KillConns(true)
				case "fin":
					n.KillConns(false)
				case "silent-then-close":
					atomic.StoreInt32(&n.Silent, 1)
					time.Sleep(time.Duration(rnd.Intn(20)) * time.Millisecond)
					n.KillConns(false)
					atomic.StoreInt32(&n.Silent, 0)
				case "stop-reading-then-die":
					atomic.StoreInt32(&n.StopReading, 1)
					time.Sleep(time.Duration(rnd.Intn(30)) * time.Millisecond)
					n.KillConns(true)
					atomic.StoreInt32(&n.StopReading, 0)
				case "host-remove-add":
					h := hosts[n.Idx : n.Idx+1]
					s.HostOp("host_remove", svc.Name, h)
					s.HostOp("host_add", svc.Name, h)
				case "host-replace":
					s.HostOp("host_replace", svc.Name, hosts)
				}
				r.Count("stress_fault:"+kind, 1)
				r.Distinct("stress/" + label + "/" + kind)
				atomic.AddInt32(&faultsDone, 1)
			}
		}()
		var wg sync.WaitGroup
		var unanswered int32
		var sent, got int64
		type stuckConn struct {
			conn *rclient.Conn
			left int
		}
		var smu sync.Mutex
		var stuckConns []stuckConn
		for c := 0; c < nconn; c++ {
			wg.Add(1)
			go func(c int) {
				defer wg.Done()
				crnd := rand.New(rand.NewSource(r.Seed*977 + int64(c)))
				conn, err := svc.Dial()
				if err != nil {
					return
				}
				for p := 0; p < pipes; p++ {
					depth := 1 + crnd.Intn(30)
					var buf []byte
					for i := 0; i < depth; i++ {
						k := fmt.Sprintf("st.%d.%d", c, crnd.Intn(200))
						switch crnd.Intn(4) {
						case 0:
							buf = append(buf, resp.CmdS("SET", k, "v")...)
						case 1:
							buf = append(buf, resp.CmdS("MGET", k, k+"x", k+"y")...)
						case 2:
							buf = append(buf, resp.CmdS("DEL", k, k+"z")...)
						default:
							buf = append(buf, resp.CmdS("GET", k)...)
						}
					}
					if _, err := conn.C.Write(buf); err != nil {
						conn.Close()
						if conn, err = svc.Dial(); err != nil {
							return
						}
						continue
					}
					atomic.AddInt64(&sent, int64(depth))
					for i := 0; i < depth; i++ {
						if _, err := conn.Read(6 * time.Second); err != nil {
							if rclient.IsTimeout(err) {
								atomic.AddInt32(&unanswered, 1)
								smu.Lock()
								stuckConns = append(stuckConns, stuckConn{conn, depth - i})
								smu.Unlock()
								conn, _ = svc.Dial()
								if conn == nil {
									return
								}
							} else {
								conn.Close()
								if conn, err = svc.Dial(); err != nil {
									return
								}
							}
							break
						}
						atomic.AddInt64(&got, 1)
					}
				}
				conn.Close()
			}(c)
		}
		wg.Wait()
		close(stopFaults)
		fwg.Wait()
		s.HookReleaseAll()
		// heal: no node is silent or deaf any more, and connections that swallowed requests are closed (a hung server
		// connection keeps its requests pending by design; the property is about what happens once backends are back)
		for _, n := range cl.Nodes {
			atomic.StoreInt32(&n.Silent, 0)
			atomic.StoreInt32(&n.StopReading, 0)
			n.KillConns(false)
		}
		r.Count("stress_requests_sent", atomic.LoadInt64(&sent))
		r.Count("stress_replies_received", atomic.LoadInt64(&got))
		if !s.Alive() {
			time.Sleep(100 * time.Millisecond)
			r.Violation("C02:died:"+crashClass(s.CrashLine()), "the proxy died during fault stress: "+s.CrashLine(), map[string]interface{}{"workload": label, "log_tail": s.LogTail(4000)})
		} else if atomic.LoadInt32(&unanswered) > 0 {
			// faults have stopped; everything is healthy again: progress-relative deadline for the connections that timed out
			env := &c02Env{r: r, s: s, cl: cl, svc: svc, ka: keysFor(cl, cl.Nodes[0], 2, "cn0"), kb: keysFor(cl, cl.Nodes[1], 2, "cn1")}
			lost := 0
			if env.canaries() {
				for _, sc := range stuckConns {
					if _, err := sc.conn.Read(2 * time.Second); err != nil && rclient.IsTimeout(err) {
						lost++
					}
				}
				if lost > 0 {
					if stuck, stacks := env.stuckInWait(); stuck {
						r.Violation("C02:lost:stress", fmt.Sprintf("%d connections still have an unanswered request after the faults stopped and canaries succeed", lost), map[string]interface{}{"workload": label, "faults_injected": atomic.LoadInt32(&faultsDone), "stuck_goroutines": stacks})
					} else {
						r.Inconclusive("stress-unanswered-but-not-stuck")
					}
				}
			} else {
				r.Inconclusive("stress-canaries-failed")
			}
		}
		for _, sc := range stuckConns {
			sc.conn.Close()
		}
		if race {
			for _, rr := range raceReports(s, []string{"proc/redis/request.go", "proc/redis/upstream.go"}) {
				// upstream.go: only the hand-over of a backend client between concurrent requesters decides here (the unsynchronised
				// slots table read by chooseHost while a refresh writes it is a different matter, judged behaviourally by C03 / C14)
				if strings.Contains(rr.Key, "upstream.go") && !strings.Contains(rr.Text, "(*upstream).getClient()") {
					continue
				}
				r.Violation("C02:race:"+rr.Key, "data race on request completion state / on the backend client handed to concurrent requesters", map[string]interface{}{"report": rr.Text})
			}
		}
		r.Cases(int(atomic.LoadInt32(&faultsDone)), "")
		hits, _ := s.HookSnapshot()
		r.Set("hook_hits_"+label, hits)
		s.Close()
		cl.Close()
	}
}

// c02FilteredAfterPending: with compression enabled, a request that the filter chain answers itself (a banned command)
// follows a forwarded request on the same backend connection. The forwarded request must still reach the backend and be answered
// without any further traffic.
func c02FilteredAfterPending(r *ev.Run) {
	s, err := startSUT(r, false, 600000, 20)
	if err != nil {
		r.Internal("start sut: %v", err)
		return
	}
	defer s.Close()
	cl, err := fakecluster.New(2, 0)
	if err != nil {
		r.Internal("fakecluster: %v", err)
		return
	}
	defer cl.Close()
	cl.AssignContiguous()
	cl.LogArgs = false
	svc, err := startRedisSvc(s, cl, cl.Addrs(), RedisOpts{Compression: &predis.Compression{Enable: true, Algorithm: predis.Compression_SNAPPY, Threshold: 64}})
	if err != nil || !svc.WaitRouting(1, 10*time.Second) {
		r.Internal("service did not start: %v", err)
		return
	}
	ka := keysFor(cl, cl.Nodes[0], 10, "fk")
	reps := 8
	if r.Tier == "thorough" {
		reps = 40
	}
	for rep := 0; rep < reps; rep++ {
		conn, err := svc.Dial()
		if err != nil {
			time.Sleep(300 * time.Millisecond)
			if !s.Alive() {
				r.Violation("C02:died:"+crashClass(s.CrashLine()), "the proxy died: "+s.CrashLine(), map[string]interface{}{"script": "filtered-after-pending", "log_tail": s.LogTail(3000)})
				return
			}
			r.Internal("dial: %v", err)
			return
		}
		conn.DoS(5*time.Second, "SET", ka[0], "warm")
		// hold the backend writer right after it dequeued the first request, until the second one is queued behind it
		withReset := rep%2 == 1
		times := 1
		if withReset {
			times = 2 // the writer is held a second time, with the filtered request in hand
		}
		s.HookArm("redis.client.write.after_dequeue", sutc.HookAction{Mode: "park", Times: times})
		banned := []string{"APPEND", "SETRANGE", "GETBIT"}[rep%3]
		conn.C.Write(append(resp.CmdS("GET", ka[1+rep%8]), resp.CmdS(banned, ka[1+rep%8], "1", "x")...))
		parked := s.WaitParked("redis.client.write.after_dequeue", 1, 2*time.Second)
		time.Sleep(30 * time.Millisecond)
		if withReset && parked {
			// request 1 is written into the buffer (not flushed: request 2 is pending) and handed over; the writer dequeues request 2
			// and is held again; now the backend resets the connection, the backend reader notices and closes it; the flush that
			// follows the filtered request then fails with request 2 already answered by the filter
			hitsBefore, _ := s.HookState("redis.client.write.after_dequeue")
			s.HookReleaseParked("redis.client.write.after_dequeue")
			again := false
			for i := 0; i < 200 && !again; i++ {
				st, _ := s.HookState("redis.client.write.after_dequeue")
				again = st["hits"] > hitsBefore["hits"] && st["parked"] >= 1
				if !again {
					time.Sleep(5 * time.Millisecond)
				}
			}
			if os.Getenv("VERIF_DEBUG") != "" {
				st, _ := s.HookState("redis.client.write.after_dequeue")
				fmt.Fprintf(os.Stderr, "again=%v before=%v now=%v\n", again, hitsBefore, st)
			}
			if again {
				cl.Nodes[0].KillConns(true)
				time.Sleep(40 * time.Millisecond)
				r.Count("filtered_request_in_hand_when_backend_reset", 1)
			}
		}
		s.HookRelease("redis.client.write.after_dequeue")
		if !parked {
			r.Inconclusive("filtered-after-pending-not-parked")
			conn.Close()
			continue
		}
		v1, err1 := conn.Read(3 * time.Second)
		if err1 != nil && !rclient.IsTimeout(err1) {
			time.Sleep(300 * time.Millisecond) // a dying process closes its connections before it is reaped
		}
		if !s.Alive() {
			time.Sleep(100 * time.Millisecond)
			r.Violation("C02:died:"+crashClass(s.CrashLine()), "the proxy died: "+s.CrashLine(), map[string]interface{}{"script": "filtered-after-pending", "backend_reset_before_flush": withReset, "log_tail": s.LogTail(3000)})
			return
		}
		if err1 == nil {
			v2, err2 := conn.Read(3 * time.Second)
			if err2 != nil || v2.Kind != resp.Error {
				r.Violation("C02:filtered-request-reply", "the banned command behind a forwarded request did not get its error reply", map[string]interface{}{"first": v1.String(), "second": v2.String()})
			}
			r.Count("filtered_after_pending_answered", 1)
		} else if rclient.IsTimeout(err1) {
			// nothing else talks to that backend: is the request merely sitting in the proxy's write buffer?
			c2, _ := svc.Dial()
			c2.DoS(5*time.Second, "SET", ka[9], "nudge")
			c2.Close()
			_, errAfter := conn.Read(3 * time.Second)
			r.Violation("C02:unflushed-behind-filtered-request", "a forwarded request followed by a request that the compression filter answers itself was not answered within 3 s of idle time",
				map[string]interface{}{"pipeline": []string{"GET " + ka[1+rep%8], banned + " ..."}, "answered_after_unrelated_request_to_same_backend": errAfter == nil, "repetition": rep})
		} else {
			r.Inconclusive("filtered-after-pending-conn-error")
		}
		conn.Close()
		r.Case(fmt.Sprintf("script/filtered-after-pending/%s/reset=%v", banned, withReset))
	}
}

// c02MultiKeyStorm: multi-key requests whose children are completed by different backend reader goroutines at the same
// moment (keys spread over 8 nodes, no delays), with connection resets mixed in so that drains complete children too.
// Every request must be answered (a lost child completion leaves the parent unanswered forever).
func c02MultiKeyStorm(r *ev.Run) {
	s, err := startSUT(r, false, 600000, 20)
	if err != nil {
		r.Internal("start sut: %v", err)
		return
	}
	defer s.Close()
	cl, err := fakecluster.New(8, 0)
	if err != nil {
		r.Internal("fakecluster: %v", err)
		return
	}
	defer cl.Close()
	cl.AssignAll(func(sl int) *fakecluster.Node { return cl.Nodes[sl%8] })
	cl.LogArgs = false
	svc, err := startRedisSvc(s, cl, cl.Addrs(), RedisOpts{ConnTimeout: 500 * time.Millisecond})
	if err != nil || !svc.WaitRouting(1, 10*time.Second) {
		r.Internal("service did not start: %v", err)
		return
	}
	nconn, pipes := 16, 60
	if r.Tier == "thorough" {
		pipes = 700
	}
	stop := make(chan struct{})
	var fwg sync.WaitGroup
	fwg.Add(1)
	go func() {
		defer fwg.Done()
		frnd := rand.New(rand.NewSource(r.Seed + 404))
		for {
			select {
			case <-stop:
				return
			case <-time.After(time.Duration(20+frnd.Intn(60)) * time.Millisecond):
			}
			cl.Nodes[frnd.Intn(8)].KillConns(frnd.Intn(2) == 0)
			r.Count("storm_connection_resets", 1)
		}
	}()
	var sent, got int64
	var wg sync.WaitGroup
	var smu sync.Mutex
	var stuck []*rclient.Conn
	for c := 0; c < nconn; c++ {
		wg.Add(1)
		go func(c int) {
			defer wg.Done()
			crnd := rand.New(rand.NewSource(r.Seed*31 + int64(c)))
			conn, err := svc.Dial()
			if err != nil {
				return
			}
			for p := 0; p < pipes; p++ {
				depth := 20 + crnd.Intn(40)
				var buf []byte
				for i := 0; i < depth; i++ {
					name := []string{"MGET", "MSET", "DEL", "EXISTS"}[crnd.Intn(4)]
					args := []string{name}
					for k := 0; k < 8; k++ {
						args = append(args, fmt.Sprintf("storm%d.%d", c, crnd.Intn(4000)))
						if name == "MSET" {
							args = append(args, "v")
						}
					}
					buf = append(buf, resp.CmdS(args...)...)
				}
				if _, err := conn.C.Write(buf); err != nil {
					conn.Close()
					if conn, err = svc.Dial(); err != nil {
						return
					}
					continue
				}
				atomic.AddInt64(&sent, int64(depth))
				for i := 0; i < depth; i++ {
					if _, err := conn.Read(6 * time.Second); err != nil {
						if rclient.IsTimeout(err) {
							smu.Lock()
							stuck = append(stuck, conn)
							smu.Unlock()
						} else {
							conn.Close()
						}
						if conn, err = svc.Dial(); err != nil {
							return
						}
						break
					}
					atomic.AddInt64(&got, 1)
				}
			}
			conn.Close()
		}(c)
	}
	wg.Wait()
	close(stop)
	fwg.Wait()
	r.Count("storm_multikey_requests_sent", atomic.LoadInt64(&sent))
	r.Count("storm_multikey_replies", atomic.LoadInt64(&got))
	if sutDied(r, s, "multi-key storm") {
		return
	}
	if len(stuck) > 0 {
		env := &c02Env{r: r, s: s, cl: cl, svc: svc, ka: keysFor(cl, cl.Nodes[0], 2, "cn0"), kb: keysFor(cl, cl.Nodes[1], 2, "cn1")}
		if env.canaries() {
			lost := 0
			for _, c := range stuck {
				if _, err := c.Read(2 * time.Second); err != nil && rclient.IsTimeout(err) {
					lost++
				}
			}
			if lost > 0 {
				if st, stacks := env.stuckInWait(); st {
					r.Violation("C02:lost:multi-key-storm", fmt.Sprintf("%d connections have a multi-key request that was never answered although all its children had somewhere to complete", lost),
						map[string]interface{}{"requests_sent": atomic.LoadInt64(&sent), "stuck_goroutines": stacks})
				} else {
					r.Inconclusive("storm-unanswered-but-not-stuck")
				}
			}
		} else {
			r.Inconclusive("storm-canaries-failed")
		}
		for _, c := range stuck {
			c.Close()
		}
	}
	r.Cases(int(atomic.LoadInt64(&sent)/100), "stress/multi-key-storm")
	r.Require("storm_multikey_replies", 10000)
}

// c02RedirectFullQueues: redirections are handled by the reader goroutine of the backend client that received the MOVED / ASK
// reply. (1) Two nodes have more requests outstanding than a backend client's queues hold (1024 sent + 1 in the writer's hand +
// 1024 pending) and each answers its first request with MOVED to the other (a consistent re-shard the proxy has not fetched yet):
// everything must still be answered once the nodes answer. (2) A healthy node redirects one request to a node that is silent with
// full queues; removing the healthy host must return.
func c02RedirectFullQueues(r *ev.Run) {
	for _, variant := range []string{"redirect-cycle-between-full-backends", "host-removed-while-redirecting-into-full-silent-backend"} {
		s, err := startSUT(r, false, 600000, 20)
		if err != nil {
			r.Internal("start sut: %v", err)
			return
		}
		cl, err := fakecluster.New(2, 0)
		if err != nil {
			r.Internal("fakecluster: %v", err)
			s.Close()
			return
		}
		cl.AssignContiguous()
		cl.LogArgs = false
		a, b := cl.Nodes[0], cl.Nodes[1]
		gate := map[*fakecluster.Node]chan struct{}{a: make(chan struct{}), b: make(chan struct{})}
		for _, n := range cl.Nodes {
			n := n
			n.Before = func(args [][]byte) {
				switch strings.ToLower(string(args[0])) {
				case "cluster", "readonly", "ping":
					return
				}
				if len(args) > 1 && strings.HasPrefix(string(args[1]), "warm") {
					return
				}
				<-gate[n] // the node takes the request and looks at it (and at everything behind it) only when the gate opens
			}
		}
		svc, err := startRedisSvc(s, cl, cl.Addrs(), RedisOpts{ConnTimeout: 500 * time.Millisecond})
		if err != nil || !svc.WaitRouting(1, 10*time.Second) {
			r.Internal("service did not start: %v", err)
			s.Close()
			cl.Close()
			return
		}
		finish := func() {
			for _, g := range gate {
				select {
				case <-g:
				default:
					close(g)
				}
			}
			s.Close()
			cl.Close()
		}
		nkeys := 2300
		ka, kb := keysFor(cl, a, nkeys, "rq"), keysFor(cl, b, nkeys, "rq")
		// warm-up: both backend clients exist
		if wc, err := svc.Dial(); err == nil {
			wc.DoS(5*time.Second, "SET", keysFor(cl, a, 1, "warm")[0], "1")
			wc.DoS(5*time.Second, "SET", keysFor(cl, b, 1, "warm")[0], "1")
			wc.Close()
		}
		// one MGET per node with more children than the node's backend client can hold: the session parks in the send
		type side struct {
			conn *rclient.Conn
			done chan error
		}
		send := func(keys []string) *side {
			c, err := svc.Dial()
			if err != nil {
				return nil
			}
			sd := &side{conn: c, done: make(chan error, 1)}
			go func() {
				v, err := c.DoS(40*time.Second, append([]string{"MGET"}, keys...)...)
				if err == nil && !(v.Kind == resp.Array && len(v.Arr) == len(keys)) {
					err = fmt.Errorf("unexpected reply %s", truncStr(v.String(), 200))
				}
				sd.done <- err
			}()
			return sd
		}
		sa := send(ka)
		var sb *side
		if variant == "redirect-cycle-between-full-backends" {
			sb = send(kb)
		} else {
			sb = send(kb) // fills B's queues; B never answers in this variant
		}
		if sa == nil || sb == nil {
			r.Internal("dial failed")
			finish()
			return
		}
		// wait until both nodes hold 1024 unanswered requests (what the proxy has written) - progress relative
		full := false
		for i := 0; i < 400 && !full; i++ {
			st, _ := s.Stats("service." + svc.Name + ".")
			full = st["service."+svc.Name+".upstream.rq_total"] >= 2*2049 && cl.Received()-cl.Answered() >= 2
			if !full {
				time.Sleep(25 * time.Millisecond)
			}
		}
		if !full {
			r.Inconclusive("backend-queues-never-filled:" + variant)
			finish()
			continue
		}
		// the slot of each node's FIRST outstanding key now belongs to the other node, in every node's view; the proxy's table is stale
		cl.Lock()
		cl.SetOwnerLocked(fakecluster.Slot([]byte(ka[0])), b)
		if variant == "redirect-cycle-between-full-backends" {
			cl.SetOwnerLocked(fakecluster.Slot([]byte(kb[0])), a)
		}
		cl.Unlock()
		w := map[string]interface{}{"variant": variant, "children_per_mget": nkeys}
		switch variant {
		case "redirect-cycle-between-full-backends":
			close(gate[a])
			close(gate[b])
			var errA, errB error
			gotA, gotB := false, false
			deadline := time.After(20 * time.Second)
			for !(gotA && gotB) {
				select {
				case errA = <-sa.done:
					gotA = true
				case errB = <-sb.done:
					gotB = true
				case <-deadline:
					goto judged
				}
			}
		judged:
			if sutDied(r, s, variant) {
				finish()
				return
			}
			if !(gotA && gotB) {
				// progress relative: both nodes have answered everything they received, nothing is in flight towards them
				idle := cl.Received() == cl.Answered()
				g, _ := s.Goroutines()
				w["answered_mget_a"], w["answered_mget_b"] = gotA, gotB
				w["nodes_idle"] = idle
				w["backend_readers"] = truncStr(extractStacks(g, "redis.(*client).loopRead", 4), 6000)
				w["senders"] = truncStr(extractStacks(g, "redis.(*client).Send", 6), 9000)
				if os.Getenv("VERIF_DEBUG") != "" {
					fmt.Fprintf(os.Stderr, "ALL:\n%s\n", g)
				}
				if idle && strings.Contains(g, "redis.(*client).Send") {
					r.Violation("C02:lost:"+variant, "both nodes answered every request they received, yet the two multi-key requests are not answered 20 s later: the backend readers wait in each other's send", w)
				} else {
					r.Inconclusive("redirect-cycle-unanswered-but-not-stuck")
				}
			} else if errA != nil || errB != nil {
				w["error_a"], w["error_b"] = fmt.Sprint(errA), fmt.Sprint(errB)
				r.Violation("C02:wrong-reply:"+variant, "a multi-key request got an unexpected reply", w)
			} else {
				r.Count("redirect_cycle_answered", 1)
			}
		default:
			close(gate[a]) // A answers everything, its first reply redirects to the silent, full B
			time.Sleep(300 * time.Millisecond)
			if os.Getenv("VERIF_DEBUG") != "" {
				g, _ := s.Goroutines()
				fmt.Fprintf(os.Stderr, "BEFORE host_remove:\n%s\n", extractStacks(g, "redis.(*client)", 12))
			}
			done := make(chan error, 1)
			go func() { done <- s.HostOp("host_remove", svc.Name, hostsOf([]string{a.Addr})) }()
			select {
			case err := <-done:
				r.Count("host_removed_while_redirecting", 1)
				if os.Getenv("VERIF_DEBUG") != "" {
					g, _ := s.Goroutines()
					fmt.Fprintf(os.Stderr, "host_remove returned: %v\n%s\n", err, extractStacks(g, "redis.(*client)", 12))
				}
			case <-time.After(8 * time.Second):
				g, _ := s.Goroutines()
				w["stuck"] = truncStr(extractStacks(g, "redis.(*client).Stop", 2)+"\n\n"+extractStacks(g, "redis.(*client).Send", 2), 6000)
				if strings.Contains(g, "redis.(*client).Stop") && strings.Contains(g, "redis.(*client).Send") {
					r.Violation("C02:host-removal-hangs:"+variant, "removing a healthy host did not return within 8 s: its backend reader is parked in the send to another backend whose queues are full", w)
				} else {
					r.Inconclusive("host-remove-slow-but-not-stuck")
				}
			}
		}
		r.Case("script/" + variant)
		sa.conn.Close()
		sb.conn.Close()
		finish()
	}
}

// c02StopUnderTraffic: the service is stopped while sessions keep decoding pipelined requests (a session goes on with what is in its
// read buffer even after its connection was closed): requests reach the upstream after it has been told to quit. Each must be
// completed exactly once - a second completion is a panic that takes the process down.
func c02StopUnderTraffic(r *ev.Run) {
	reps := 4
	if r.Tier == "thorough" {
		reps = 25
	}
	for rep := 0; rep < reps; rep++ {
		s, err := startSUT(r, false, 600000, 20)
		if err != nil {
			r.Internal("start sut: %v", err)
			return
		}
		cl, err := fakecluster.New(3, 0)
		if err != nil {
			r.Internal("fakecluster: %v", err)
			s.Close()
			return
		}
		cl.AssignContiguous()
		cl.LogArgs = false
		svc, err := startRedisSvc(s, cl, cl.Addrs(), RedisOpts{ConnTimeout: 300 * time.Millisecond})
		if err != nil || !svc.WaitRouting(1, 10*time.Second) {
			r.Internal("service did not start: %v", err)
			s.Close()
			cl.Close()
			return
		}
		if rep%2 == 1 {
			// half of the slots are stale: redirections are in flight too
			ms := cl.Masters()
			cl.Lock()
			for sl := 0; sl < fakecluster.NumSlots; sl += 2 {
				cl.SetOwnerLocked(sl, ms[(sl/2)%len(ms)])
			}
			cl.Unlock()
		}
		var wg sync.WaitGroup
		for c := 0; c < 8; c++ {
			conn, err := svc.Dial()
			if err != nil {
				continue
			}
			wg.Add(1)
			go func(c int, conn *rclient.Conn) {
				defer wg.Done()
				defer conn.Close()
				for round := 0; round < 100000; round++ {
					var buf []byte
					for i := 0; i < 64; i++ {
						buf = append(buf, resp.CmdS("SET", fmt.Sprintf("sut%d.%d.%d", c, round, i), "v")...)
					}
					conn.C.SetWriteDeadline(time.Now().Add(5 * time.Second))
					if _, err := conn.C.Write(buf); err != nil {
						return
					}
					for i := 0; i < 64; i++ {
						if _, err := conn.Read(5 * time.Second); err != nil {
							return
						}
					}
				}
			}(c, conn)
		}
		time.Sleep(time.Duration(30+rep*17%90) * time.Millisecond)
		stopErr := s.StopProc(svc.Name, 15*time.Second)
		wg.Wait()
		time.Sleep(100 * time.Millisecond)
		if !s.Alive() {
			r.Violation("C02:died:"+crashClass(s.CrashLine()), "the proxy died while its service was stopped under pipelined traffic: "+s.CrashLine(),
				map[string]interface{}{"script": "stop-under-traffic", "redirections_in_flight": rep%2 == 1, "log_tail": s.LogTail(3000)})
			cl.Close()
			return
		}
		if stopErr == sutc.ErrTimeout {
			r.Inconclusive("stop-under-traffic-stop-timeout") // C09 judges hangs of Stop
		}
		r.Count("stops_under_traffic", 1)
		r.Case(fmt.Sprintf("script/stop-under-traffic/redirects=%v", rep%2 == 1))
		s.Close()
		cl.Close()
	}
	r.Require("stops_under_traffic", 2)
}

// c02ReplyWithheld: replies are written in request order, but a reply that is ready must not wait in the proxy's write buffer for the
// NEXT request to be answered: with a pipeline [GET on a fast node, GET on a node that takes 5 s], the first reply has to arrive
// while the second is still outstanding (it would wait for ever if the second backend never answered).
func c02ReplyWithheld(r *ev.Run) {
	s, err := startSUT(r, false, 600000, 20)
	if err != nil {
		r.Internal("start sut: %v", err)
		return
	}
	defer s.Close()
	cl, err := fakecluster.New(2, 0)
	if err != nil {
		r.Internal("fakecluster: %v", err)
		return
	}
	defer cl.Close()
	cl.AssignContiguous()
	cl.LogArgs = false
	fast, slow := cl.Nodes[0], cl.Nodes[1]
	const hold = 5 * time.Second
	slow.Delay = func(args [][]byte) time.Duration {
		if len(args) > 1 && strings.HasPrefix(string(args[1]), "held") {
			return hold
		}
		return 0
	}
	svc, err := startRedisSvc(s, cl, cl.Addrs(), RedisOpts{})
	if err != nil || !svc.WaitRouting(1, 10*time.Second) {
		r.Internal("service did not start: %v", err)
		return
	}
	reps := 2
	if r.Tier == "thorough" {
		reps = 8
	}
	for rep := 0; rep < reps; rep++ {
		conn, err := svc.Dial()
		if err != nil {
			r.Internal("dial: %v", err)
			return
		}
		kf := keysFor(cl, fast, 1, fmt.Sprintf("quick%d", rep))[0]
		ks := keysFor(cl, slow, 1, fmt.Sprintf("held%d", rep))[0]
		conn.DoS(5*time.Second, "SET", kf, "v") // backend connections exist
		nfast := 1 + rep%3
		var buf []byte
		for i := 0; i < nfast; i++ {
			buf = append(buf, resp.CmdS("GET", kf)...)
		}
		buf = append(buf, resp.CmdS("GET", ks)...)
		start := time.Now()
		conn.C.Write(buf)
		got := 0
		var firstAt time.Duration
		for i := 0; i < nfast; i++ {
			if _, err := conn.Read(hold + 5*time.Second); err != nil {
				break
			}
			if i == 0 {
				firstAt = time.Since(start)
			}
			got++
		}
		w := map[string]interface{}{"pipeline": fmt.Sprintf("%d x GET %s (node answers at once), GET %s (node answers after %s)", nfast, kf, ks, hold), "first_reply_after": firstAt.String(), "replies_before_the_slow_one": got}
		switch {
		case got < nfast:
			r.Violation("C02:lost:reply-behind-slow-request", "a reply that was ready never arrived", w)
		case firstAt > hold-time.Second: // (a starved machine delays everything, but not a local round trip by 4 s)
			r.Violation("C02:reply-withheld-behind-unanswered-request", fmt.Sprintf("the reply of a request answered at once by its backend reached the client only after %s, together with the reply of the next request (whose backend took %s): it sat in the proxy's write buffer", firstAt.Round(time.Millisecond), hold), w)
		default:
			r.Count("ready_replies_delivered_before_the_slow_one", 1)
		}
		conn.Read(hold + 5*time.Second)
		conn.Close()
		r.Case(fmt.Sprintf("script/reply-withheld/fast=%d", nfast))
	}
	r.Require("ready_replies_delivered_before_the_slow_one", 1)
}

// c02LateRedirection: a redirection that arrives while the redirect loop is between "nothing queued" and its wait for the next
// signal must still be followed: the loop is held at exactly that place (pause point at its top), a request is redirected (ASK: the
// slot is migrating and the key is absent), the loop is let go - the request must be answered although no further redirection
// arrives to wake the loop up. Also with short sleeps at that place under a sequential client.
func c02LateRedirection(r *ev.Run) {
	s, err := startSUT(r, false, 600000, 20)
	if err != nil {
		r.Internal("start sut: %v", err)
		return
	}
	defer s.Close()
	cl, err := fakecluster.New(2, 0)
	if err != nil {
		r.Internal("fakecluster: %v", err)
		return
	}
	defer cl.Close()
	cl.AssignContiguous()
	cl.LogArgs = false
	var asks int64
	cl.OnEvent = func(e *fakecluster.Event) {
		if e.Outcome == fakecluster.Ask {
			atomic.AddInt64(&asks, 1)
		}
	}
	svc, err := startRedisSvc(s, cl, cl.Addrs(), RedisOpts{})
	if err != nil || !svc.WaitRouting(1, 10*time.Second) {
		r.Internal("service did not start: %v", err)
		return
	}
	defer s.StopProc(svc.Name, 20*time.Second)
	const point = "redis.upstream.redirect.before_wait"
	keys := keysFor(cl, cl.Nodes[0], 400, "late")
	slotOf := func(k string) int { return fakecluster.Slot([]byte(k)) }
	migrate := func(k string, on bool) {
		cl.Lock()
		if on {
			cl.Nodes[0].SetMigratingLocked(slotOf(k), cl.Nodes[1])
			cl.Nodes[1].SetImportingLocked(slotOf(k), cl.Nodes[0])
		} else {
			cl.Nodes[0].SetMigratingLocked(slotOf(k), nil)
			cl.Nodes[1].SetImportingLocked(slotOf(k), nil)
		}
		cl.Unlock()
	}
	conn, err := svc.Dial()
	if err != nil {
		r.Internal("dial: %v", err)
		return
	}
	defer conn.Close()
	reps := 10
	if r.Tier == "thorough" {
		reps = 60
	}
	lost := func(how string, k string, w map[string]interface{}) {
		dump, _ := s.Goroutines()
		w["key"] = k
		w["how"] = how
		w["redirect_loop"] = extractStacks(dump, "loopRedirect", 1)
		r.Violation("C02:lost:redirection-arrived-while-the-loop-was-not-waiting", "an ASK-redirected request was never answered: its redirection was queued while the redirect loop was between 'nothing queued' and its wait, and nothing woke the loop up afterwards", w)
	}
	// (a) forced ordering
	s.HookArm(point, sutc.HookAction{Mode: "park"})
	ki := 0
	for rep := 0; rep < reps; rep++ {
		k1, k2 := keys[ki], keys[ki+1]
		ki += 2
		migrate(k1, true)
		migrate(k2, true)
		// the loop waits for a signal (first round) or is held at its top (it went round for the previous request): in the first
		// case a redirected request takes it once round
		if !s.WaitParked(point, 1, 50*time.Millisecond) {
			if _, err := conn.DoS(3*time.Second, "GET", k1); err != nil {
				lost("first request", k1, map[string]interface{}{"round": rep})
				break
			}
		}
		if !s.WaitParked(point, 1, 2*time.Second) {
			r.Inconclusive("late-redirection:loop-not-held")
			continue
		}
		before := atomic.LoadInt64(&asks)
		conn.C.Write(resp.CmdS("GET", k2))
		for i := 0; i < 400 && atomic.LoadInt64(&asks) == before; i++ {
			time.Sleep(5 * time.Millisecond)
		}
		if atomic.LoadInt64(&asks) == before {
			r.Inconclusive("late-redirection:no-ask")
			conn.Read(3 * time.Second)
			continue
		}
		time.Sleep(30 * time.Millisecond) // the backend reader has queued the redirection and signalled
		s.HookReleaseParked(point)
		v, err := conn.Read(3 * time.Second)
		if err != nil {
			lost("forced ordering: loop held at its top, request redirected, loop released", k2, map[string]interface{}{"round": rep})
			break
		}
		_ = v
		r.Count("redirections_queued_while_the_loop_was_held", 1)
		r.Case("script/late-redirection/forced")
		migrate(k1, false)
		migrate(k2, false)
	}
	s.HookRelease(point)
	// (b) short sleeps at the same place, sequential client: the next redirection arrives right after the previous one was followed
	if r.Violations() == 0 {
		s.HookArm(point, sutc.HookAction{Mode: "sleep", SleepUs: 20000})
		n := 60
		if r.Tier == "thorough" {
			n = 300
		}
		for i := 0; i < n && ki < len(keys); i++ {
			k := keys[ki]
			ki++
			migrate(k, true)
			if _, err := conn.DoS(3*time.Second, "GET", k); err != nil {
				lost("sequential redirected requests with a 20 ms sleep at the top of the loop", k, map[string]interface{}{"request": i})
				break
			}
			migrate(k, false)
			r.Count("sequential_redirected_requests_answered", 1)
		}
		s.HookRelease(point)
		r.Case("script/late-redirection/sleeps")
	}
}

// c02LateSenders: several senders are past the "client has quit?" check when the backend connection dies and the client exits
// (queues drained, done closed). Let go at the same instant, those that still get their request into the queue each drain it by
// themselves - concurrently. Every one of them must come back: the connection gets its answer, and answers to what it sends next.
func c02LateSenders(r *ev.Run) {
	s, err := startSUT(r, false, 600000, 20)
	if err != nil {
		r.Internal("start sut: %v", err)
		return
	}
	defer s.Close()
	cl, err := fakecluster.New(2, 0)
	if err != nil {
		r.Internal("fakecluster: %v", err)
		return
	}
	defer cl.Close()
	cl.AssignContiguous()
	cl.LogArgs = false
	svc, err := startRedisSvc(s, cl, cl.Addrs(), RedisOpts{})
	if err != nil || !svc.WaitRouting(1, 10*time.Second) {
		r.Internal("service did not start: %v", err)
		return
	}
	defer s.StopProc(svc.Name, 20*time.Second)
	const point = "redis.client.send.before_enqueue"
	keys := keysFor(cl, cl.Nodes[0], 64, "ls")
	nconn := 12
	reps := 80
	if r.Tier == "thorough" {
		reps = 500
	}
	if v, _ := strconv.Atoi(os.Getenv("VERIF_C02_LATE_ROUNDS")); v > 0 {
		reps = v
	}
	for rep := 0; rep < reps; rep++ {
		conns := make([]*rclient.Conn, 0, nconn)
		for i := 0; i < nconn; i++ {
			c, err := svc.Dial()
			if err != nil {
				break
			}
			conns = append(conns, c)
		}
		closeAll := func() {
			for _, c := range conns {
				c.Close()
			}
		}
		if len(conns) < nconn {
			closeAll()
			if !s.Alive() {
				r.Violation("C02:died:"+crashClass(s.CrashLine()), "the proxy died: "+s.CrashLine(), map[string]interface{}{"script": "late-senders", "log_tail": s.LogTail(3000)})
				return
			}
			r.Inconclusive("late-senders:dial")
			continue
		}
		// warm up: the backend client exists
		conns[0].DoS(3*time.Second, "GET", keys[0])
		s.HookArm(point, sutc.HookAction{Mode: "spin"})
		for i, c := range conns {
			c.C.Write(resp.CmdS("GET", keys[1+i]))
		}
		held := s.WaitParked(point, int64(nconn), 2*time.Second)
		cl.Nodes[0].KillConns(true)
		time.Sleep(60 * time.Millisecond) // the client notices, drains its (empty) queues and is gone
		s.HookRelease(point)
		if !held {
			r.Inconclusive("late-senders:not-held")
		}
		unanswered := 0
		var firstBad string
		for i, c := range conns {
			if _, err := c.Read(3 * time.Second); err != nil {
				unanswered++
				if firstBad == "" {
					firstBad = fmt.Sprintf("connection %d: %v", i, err)
				}
				continue
			}
			if _, err := c.DoS(3*time.Second, "GET", keys[20+i]); err != nil {
				unanswered++
				if firstBad == "" {
					firstBad = fmt.Sprintf("connection %d, follow-up request: %v", i, err)
				}
			}
		}
		if unanswered > 0 {
			if !s.Alive() {
				r.Violation("C02:died:"+crashClass(s.CrashLine()), "the proxy died: "+s.CrashLine(), map[string]interface{}{"script": "late-senders", "log_tail": s.LogTail(3000)})
				closeAll()
				return
			}
			dump, _ := s.Goroutines()
			r.Violation("C02:lost:late-senders", fmt.Sprintf("%d of %d connections whose request was being handed to a backend client at the moment it exited were not answered (or not served afterwards)", unanswered, nconn),
				map[string]interface{}{"round": rep, "first": firstBad, "held_at_the_pause_point": held, "stuck_in_drain": extractStacks(dump, "drainRequests", 2)})
			closeAll()
			return
		}
		closeAll()
		if held {
			r.Count("late_sender_rounds", 1)
		}
		r.Case("script/late-senders")
	}
}
