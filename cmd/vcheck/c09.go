package main

import (
	"fmt"
	hcpb "github.com/samaritan-proxy/samaritan/pb/config/hc"
	"io"
	"math/rand"
	"net"
	"os"
	"strings"
	"sync"
	"sync/atomic"
	"time"

	"verif/internal/ev"
	"verif/internal/fakecluster"
	"verif/internal/resp"
	"verif/internal/sutc"
	"verif/internal/tcpsim"
)

func init() {
	register(&Check{ID: "C09", Level: "fault_enumeration", Drive: c09})
}

type c09Case struct {
	Proto     string // redis | tcp
	Placement string
	Backend   string // responsive | silent | not-reading | closed | refresh-silent
	Conns     int
	Action    string // stop | drain-then-stop | stop-twice
}

func (c c09Case) key() string { return fmt.Sprintf("%s:%s:%s", c.Proto, c.Placement, c.Backend) }

type c09Env struct {
	r *ev.Run
	s *sutc.SUT
}

func (e *c09Env) ensureSUT() bool {
	if e.s != nil && e.s.Alive() {
		return true
	}
	if e.s != nil {
		e.s.Kill()
	}
	s, err := startSUT(e.r, false, 60000, 20)
	if err != nil {
		e.r.Internal("start sut: %v", err)
		return false
	}
	e.s = s
	return true
}

// leakedGoroutines returns the goroutines of the SUT that still run service code.
func leakedGoroutines(dump string) []string {
	var out []string
	for _, blk := range strings.Split(dump, "\n\n") {
		if !(strings.Contains(blk, "samaritan/proc/") || strings.Contains(blk, "samaritan/proc.") || strings.Contains(blk, "samaritan/host.")) {
			continue
		}
		if strings.Contains(blk, "tcp-shaker") || strings.Contains(blk, "main.(*sutState).handle") {
			continue // process-wide singleton started once by design / a control call of the harness
		}
		out = append(out, blk)
	}
	return out
}

func portRefuses(addr string) bool {
	for i := 0; i < 40; i++ {
		c, err := net.DialTimeout("tcp", addr, 500*time.Millisecond)
		if err != nil {
			return true
		}
		// with SO_REUSEPORT a dying listener may still complete a handshake: what matters is that nobody serves it
		c.SetReadDeadline(time.Now().Add(300 * time.Millisecond))
		c.Write(resp.CmdS("PING"))
		var b [1]byte
		_, rerr := c.Read(b[:])
		c.Close()
		if rerr == nil {
			return false // somebody answered
		}
		time.Sleep(25 * time.Millisecond)
	}
	return false
}

// runCase executes one lifecycle placement and judges it. Returns false if the SUT must be restarted.
func (e *c09Env) runCase(c c09Case, rnd *rand.Rand) {
	r := e.r
	if !e.ensureSUT() {
		return
	}
	s := e.s
	w := map[string]interface{}{"case": c}
	// backends
	var cl *fakecluster.Cluster
	var be *tcpsim.Backend
	var seeds []string
	if c.Proto == "redis" {
		var err error
		nnodes := 2
		if c.Placement == "serving-clients-being-recreated" {
			nnodes = 6 // one backend client (and one creation) per node
		}
		cl, err = fakecluster.New(nnodes, 0)
		if err != nil {
			r.Internal("fakecluster: %v", err)
			return
		}
		defer cl.Close()
		cl.AssignContiguous()
		cl.LogArgs = false
		seeds = cl.Addrs()
		switch c.Backend {
		case "refresh-silent":
			for _, n := range cl.Nodes {
				n.Handler = func(_ *fakecluster.Conn, args [][]byte) (fakecluster.Reply, bool) {
					if strings.EqualFold(string(args[0]), "cluster") {
						return fakecluster.Reply{NoReply: true}, true
					}
					return fakecluster.Reply{}, false
				}
			}
		case "closed":
			for _, n := range cl.Nodes {
				n.Stop(true)
			}
		}
	} else {
		var err error
		be, err = tcpsim.NewBackend(func(b *tcpsim.Backend, conn net.Conn) {
			if c.Backend == "not-reading" || c.Backend == "silent" {
				<-time.After(30 * time.Second)
				conn.Close()
				return
			}
			tcpsim.Echo(b, conn)
		})
		if err != nil {
			r.Internal("backend: %v", err)
			return
		}
		defer be.Close()
		seeds = []string{be.Addr}
		if c.Backend == "closed" {
			be.StopListening()
		}
	}
	name := fmt.Sprintf("c09_%d_%d", s.Pid(), atomic.AddInt64(&svcSeq, 1))
	port, releasePort := holdPort() // reserved against other processes until the proxy has bound it (or the case ends)
	defer releasePort()
	addr := fmt.Sprintf("127.0.0.1:%d", port)
	var cfg []byte
	if c.Proto == "redis" {
		cfg = redisConfigJSON(port, RedisOpts{ConnTimeout: 300 * time.Millisecond})
	} else {
		cfg = tcpConfigJSON(port, TCPOpts{ConnTimeout: 300 * time.Millisecond})
	}
	var occupier net.Listener
	if c.Placement == "bind-retrying" {
		var err error
		releasePort()                           // the occupier must own the port exclusively
		occupier, err = net.Listen("tcp", addr) // no SO_REUSEPORT: the proxy's bind fails and is retried every 500 ms
		if err != nil {
			r.Inconclusive("cannot-occupy-port")
			return
		}
		defer occupier.Close()
	}
	baseDump, _ := s.Goroutines()
	if len(leakedGoroutines(baseDump)) > 0 {
		// leftovers of an earlier case would blur the verdict: start from a fresh process
		s.Kill()
		if !e.ensureSUT() {
			return
		}
		s = e.s
	}
	if err := s.NewProc(name, cfg, hostsOf(seeds)); err != nil {
		r.Internal("proc_new: %v", err)
		return
	}
	hook := ""
	switch c.Placement {
	case "after-bind-before-publish":
		hook = "listener.serve.after_bind"
	case "before-accept":
		hook = "listener.serve.before_accept"
	}
	lateHook := "" // armed once the service is up
	switch c.Placement {
	case "conn-accepted-not-registered":
		lateHook = "listener.conn.before_register"
	case "backend-dial-in-flight":
		lateHook = "redis.upstream.create_client.after_dial"
	case "backend-writer-holds-request":
		// the backend writer is held between "written and flushed" and the hand-over to the sent queue; the backend's reply
		// arrives meanwhile, so the backend reader waits for a request that the writer drops when it sees quit
		lateHook = "redis.client.write.before_handoff"
	}
	if hook != "" {
		s.HookArm(hook, sutc.HookAction{Mode: "park", Times: 1})
	}
	if err := s.StartProc(name); err != nil {
		r.Internal("proc_start: %v", err)
		return
	}
	var clients []net.Conn
	defer func() {
		for _, cc := range clients {
			cc.Close()
		}
	}()
	switch c.Placement {
	case "immediately-after-start":
		// no waiting at all
	case "bind-retrying":
		time.Sleep(time.Duration(50+rnd.Intn(300)) * time.Millisecond)
	case "after-bind-before-publish", "before-accept":
		if !s.WaitParked(hook, 1, 3*time.Second) {
			s.HookRelease(hook)
			r.Inconclusive("hook-not-reached:" + hook)
			s.StopProc(name, 5*time.Second)
			return
		}
	default: // "serving", "serving-deep-pipeline", "serving-backend-queue-full", "serving-every-backend-queue-full", "serving-clients-being-recreated", "serving-after-host-replace": wait for the listener, open connections, put requests in flight
		up := false
		for i := 0; i < 400 && !up; i++ {
			if cc, err := net.DialTimeout("tcp", addr, time.Second); err == nil {
				cc.Close()
				up = true
			} else {
				time.Sleep(5 * time.Millisecond)
			}
		}
		if !up {
			r.Inconclusive("listener-did-not-come-up")
			s.StopProc(name, 5*time.Second)
			return
		}
		if c.Proto == "redis" && c.Backend != "closed" && c.Backend != "refresh-silent" {
			waitStat(s, name, "upstream.slots_refresh.success_total", 1, 5*time.Second)
		}
		if strings.HasPrefix(c.Placement, "serving-after-health-check-") && c.Proto == "tcp" {
			// the service was created without a health check; configuration updates add one (then change / remove it again):
			// whatever the update created must be stopped by Stop
			hcOn := &hcpb.HealthCheck{Interval: 50 * time.Millisecond, Timeout: time.Second, FallThreshold: 2, RiseThreshold: 2,
				Checker: &hcpb.HealthCheck_TcpChecker{TcpChecker: &hcpb.TCPChecker{}}}
			steps := []TCPOpts{{ConnTimeout: 300 * time.Millisecond, HealthCheck: hcOn}}
			switch c.Placement {
			case "serving-after-health-check-added-changed":
				hc2 := *hcOn
				hc2.Interval = 80 * time.Millisecond
				steps = append(steps, TCPOpts{ConnTimeout: 300 * time.Millisecond, HealthCheck: &hc2})
			case "serving-after-health-check-added-removed":
				steps = append(steps, TCPOpts{ConnTimeout: 300 * time.Millisecond})
			case "serving-after-health-check-added-removed-added":
				steps = append(steps, TCPOpts{ConnTimeout: 300 * time.Millisecond}, TCPOpts{ConnTimeout: 300 * time.Millisecond, HealthCheck: hcOn})
			}
			for i, o := range steps {
				if err := s.ConfigUpdate(name, tcpConfigJSON(port, o)); err != nil {
					if !s.Alive() {
						r.Violation("C09:crash:"+c.key(), "the proxy process died on a configuration update of the health check", map[string]interface{}{"case": c, "step": i, "tail": s.LogTail(4000)})
						e.s = nil
						return
					}
					r.Inconclusive("health-check-update-rejected")
				}
				time.Sleep(120 * time.Millisecond)
			}
		}
		if c.Placement == "serving-after-host-replace" && cl != nil {
			// hosts are replaced several times under traffic: clients of the same address are stopped and re-created
			var hw sync.WaitGroup
			stopT := make(chan struct{})
			for g := 0; g < 4; g++ {
				hw.Add(1)
				go func(g int) {
					defer hw.Done()
					cc, err := net.DialTimeout("tcp", addr, time.Second)
					if err != nil {
						return
					}
					defer cc.Close()
					rd := resp.NewReader(cc)
					for i := 0; ; i++ {
						select {
						case <-stopT:
							return
						default:
						}
						cc.SetDeadline(time.Now().Add(2 * time.Second))
						cc.Write(resp.CmdS("SET", fmt.Sprintf("hr%d.%d", g, i%50), "v"))
						if _, err := rd.Read(); err != nil {
							return
						}
					}
				}(g)
			}
			for i := 0; i < 6; i++ {
				s.HostOp("host_replace", name, hostsOf(seeds))
				time.Sleep(time.Duration(rnd.Intn(15)) * time.Millisecond)
			}
			close(stopT)
			hw.Wait()
		}
		if c.Backend == "silent" && cl != nil {
			for _, n := range cl.Nodes {
				atomic.StoreInt32(&n.Silent, 1)
			}
		}
		if c.Backend == "not-reading" && cl != nil {
			for _, n := range cl.Nodes {
				atomic.StoreInt32(&n.StopReading, 1)
			}
		}
		if lateHook == "redis.upstream.create_client.after_dial" && cl != nil {
			// a redirected request (handled on a backend reader goroutine, which nobody waits for) has to create a new backend
			// client for the redirect target: its dial is held while the service is stopped
			key := keysFor(cl, cl.Nodes[0], 1, "dial")[0]
			if wc, err := net.DialTimeout("tcp", addr, 2*time.Second); err == nil { // both backend clients exist
				rd := resp.NewReader(wc)
				for _, n := range cl.Nodes {
					wc.SetDeadline(time.Now().Add(2 * time.Second))
					wc.Write(resp.CmdS("SET", keysFor(cl, n, 1, "warm")[0], "v"))
					rd.Read()
				}
				wc.Close()
			}
			cl.Lock()
			cl.SetOwnerLocked(fakecluster.Slot([]byte(key)), cl.Nodes[1]) // the proxy's table is stale: node 0 answers MOVED to node 1
			cl.Unlock()
			// armed first: the lost connection also triggers a slots refresh, which may be the one that connects to node 1 again
			s.HookArm(lateHook, sutc.HookAction{Mode: "park", Times: 1})
			cl.Nodes[1].KillConns(true) // no client for node 1 any more
			time.Sleep(40 * time.Millisecond)
			if cc, err := net.DialTimeout("tcp", addr, 2*time.Second); err == nil {
				clients = append(clients, cc)
				cc.Write(resp.CmdS("SET", key, "v"))
			}
			if !s.WaitParked(lateHook, 1, 3*time.Second) {
				s.HookRelease(lateHook)
				r.Inconclusive("hook-not-reached:" + lateHook)
				lateHook = ""
			}
		}
		if lateHook == "listener.conn.before_register" || lateHook == "redis.client.write.before_handoff" {
			s.HookArm(lateHook, sutc.HookAction{Mode: "park", Times: 1})
		}
		for i := 0; i < c.Conns; i++ {
			cc, err := net.DialTimeout("tcp", addr, 2*time.Second)
			if err != nil {
				continue
			}
			clients = append(clients, cc)
			if c.Proto == "redis" {
				// requests in flight: a small pipeline per connection, replies are not awaited
				// (placement "serving-deep-pipeline": more requests than the session queue holds)
				var buf []byte
				depth := 1 + rnd.Intn(5)
				if c.Placement == "serving-deep-pipeline" {
					depth = 40 + rnd.Intn(40)
				}
				if c.Placement == "backend-writer-holds-request" {
					depth = 1 // flushed at once: the reply is on its way while the writer is held
				}
				for k := 0; k < depth; k++ {
					buf = append(buf, resp.CmdS("SET", fmt.Sprintf("k%d.%d", i, k), strings.Repeat("v", 1+rnd.Intn(2000)))...)
				}
				if c.Placement == "serving-every-backend-queue-full" && cl != nil {
					// the same on every node (connection i fills node i), and then the proxy is made to ask for the slots info:
					// whichever node it asks, the request waits for room in that node's queue
					args := []string{"MGET"}
					args = append(args, keysFor(cl, cl.Nodes[i%len(cl.Nodes)], 2600+rnd.Intn(400), fmt.Sprintf("qf%d", i))...)
					buf = resp.CmdS(args...)
				}
				if c.Placement == "serving-backend-queue-full" {
					// one multi-key request with more children than a backend client's queues hold (1024 pending + 1 in
					// the writer's hand + 1024 sent): the session reader itself is parked in the send to the backend client
					args := []string{"MGET"}
					for k := 0; k < 2600+rnd.Intn(800); k++ {
						args = append(args, fmt.Sprintf("{q%d}.%d", i, k))
					}
					buf = resp.CmdS(args...)
				}
				cc.Write(buf)
			} else {
				cc.Write([]byte("hello"))
			}
		}
		time.Sleep(time.Duration(10+rnd.Intn(40)) * time.Millisecond)
		if c.Placement == "serving-every-backend-queue-full" && cl != nil {
			time.Sleep(300 * time.Millisecond)             // the queues are full
			s.HostOp("host_add", name, hostsOf(seeds[:1])) // triggers a slots refresh, which parks in the send to a full backend client
			time.Sleep(150 * time.Millisecond)
		}
		if c.Placement == "serving-clients-being-recreated" && cl != nil {
			// every session keeps sending to every node while all backend connections are lost: the backend clients are being
			// created again (one creation per node, queued on the registry lock) at the moment the service is stopped
			for ci, cc := range clients {
				go io.Copy(io.Discard, cc)
				go func(ci int, cc net.Conn) {
					for k := 0; k < 200000; k++ {
						cc.SetWriteDeadline(time.Now().Add(2 * time.Second))
						if _, err := cc.Write(resp.CmdS("SET", fmt.Sprintf("rc%d.%d", ci, k), "v")); err != nil {
							return
						}
					}
				}(ci, cc)
			}
			time.Sleep(20 * time.Millisecond)
			for _, n := range cl.Nodes {
				n.KillConns(true)
			}
			time.Sleep(time.Duration(rnd.Intn(4000)) * time.Microsecond)
		}
		if lateHook == "redis.client.write.before_handoff" {
			if s.WaitParked(lateHook, 1, 3*time.Second) {
				time.Sleep(50 * time.Millisecond) // the reply reaches the backend reader
			} else {
				s.HookRelease(lateHook)
				r.Inconclusive("hook-not-reached:" + lateHook)
				lateHook = ""
			}
		}
		if lateHook == "listener.conn.before_register" && !s.WaitParked(lateHook, 1, 3*time.Second) {
			s.HookRelease(lateHook)
			r.Inconclusive("hook-not-reached:" + lateHook)
			lateHook = ""
		}
	}
	if lateHook != "" {
		hook = lateHook // released shortly after Stop has been called
	}

	// ---- the action
	stopErr := make(chan error, 1)
	if c.Action == "drain-then-stop" {
		if err := s.DrainProc(name, 6*time.Second); err != nil {
			e.judgeHang(c, "drain", w)
			return
		}
		if c.Placement == "bind-retrying" && occupier != nil {
			// drained while the port was still occupied: when the port becomes free the service must not start accepting
			// (the bind is retried every 500 ms)
			occupier.Close()
			time.Sleep(900 * time.Millisecond)
			if !portRefuses(addr) {
				r.Violation("C09:drain-forgotten:"+c.Proto, "StopListen was called while the bind was being retried; when the port became free the service bound it and accepts connections", w)
			}
			r.Count("drains_before_bind_judged", 1)
		}
		if c.Placement == "conn-accepted-not-registered" && hook == "listener.conn.before_register" && len(clients) > 0 {
			// the connection whose accept had returned before the drain is an established one: once its handler goes on, it is served
			s.HookRelease(hook)
			hook = ""
			cc := clients[0]
			cc.SetDeadline(time.Now().Add(3 * time.Second))
			ok := false
			if c.Proto == "redis" {
				rd := resp.NewReader(cc)
				cc.Write(resp.CmdS("PING"))
				for i := 0; i < 12; i++ {
					v, err := rd.Read()
					if err != nil {
						break
					}
					if v.Kind == resp.Simple && string(v.Str) == "PONG" {
						ok = true
						break
					}
				}
			} else {
				buf := make([]byte, 64)
				cc.Write([]byte("x"))
				n, _ := cc.Read(buf)
				ok = n > 0
			}
			if !ok {
				r.Violation("C09:drain-dropped-accepted-connection:"+c.Proto, "a connection that had been accepted before StopListen was called (its handler had not registered it yet) was closed instead of served", w)
			}
			r.Count("connections_accepted_before_drain_served", 1)
		}
		if strings.HasPrefix(c.Placement, "serving") {
			// new connections are refused, established ones are untouched
			if !portRefuses(addr) {
				r.Violation("C09:drain-still-accepting:"+c.Proto, "after StopListen returned, new connections are still served", w)
			}
			if c.Backend == "responsive" && len(clients) > 0 {
				cc := clients[0]
				cc.SetDeadline(time.Now().Add(3 * time.Second))
				ok := false
				if c.Proto == "redis" {
					rd := resp.NewReader(cc)
					cc.Write(resp.CmdS("PING"))
					for i := 0; i < 12; i++ {
						v, err := rd.Read()
						if err != nil {
							break
						}
						if v.Kind == resp.Simple && string(v.Str) == "PONG" {
							ok = true
							break
						}
					}
				} else {
					buf := make([]byte, 64)
					cc.Write([]byte("x"))
					n, _ := cc.Read(buf)
					ok = n > 0
				}
				if !ok {
					r.Violation("C09:drain-broke-established-connection:"+c.Proto, "after StopListen an established connection no longer works", w)
				}
				r.Count("drained_connections_still_served", 1)
			}
		}
	}
	go func() { stopErr <- s.StopProc(name, 60*time.Second) }()
	if hook != "" {
		time.Sleep(60 * time.Millisecond)
		s.HookRelease(hook)
	}
	select {
	case err := <-stopErr:
		if err != nil && err != sutc.ErrTimeout {
			if sutDied(r, s, w) {
				return
			}
		}
	case <-time.After(6 * time.Second):
		e.judgeHang(c, "stop", w)
		return
	}
	if c.Action == "stop-twice" {
		if err := s.StopProc(name, 6*time.Second); err == sutc.ErrTimeout {
			e.judgeHang(c, "second-stop", w)
			return
		}
	}
	if occupier != nil {
		occupier.Close()
		time.Sleep(700 * time.Millisecond) // a bind retry that should no longer happen
	}
	// ---- after Stop returned
	if !portRefuses(addr) {
		r.Violation("C09:port-still-served:"+c.key(), "after Stop returned the listening port still serves connections", w)
	}
	for _, cc := range clients {
		cc.SetReadDeadline(time.Now().Add(3 * time.Second))
		buf := make([]byte, 4096)
		for {
			_, err := cc.Read(buf)
			if err == nil {
				continue
			}
			if ne, ok := err.(net.Error); ok && ne.Timeout() {
				r.Violation("C09:client-connection-left-open:"+c.Proto, "a downstream connection is still open 3 s after Stop returned", w)
			}
			break
		}
	}
	if cl != nil && c.Backend != "closed" {
		for _, n := range cl.Nodes {
			atomic.StoreInt32(&n.StopReading, 0) // a node that does not read cannot notice that its peer is gone
		}
		ok := false
		for i := 0; i < 120 && !ok; i++ {
			open := 0
			for _, n := range cl.Nodes {
				open += n.NumConns()
			}
			if open == 0 {
				ok = true
			} else {
				time.Sleep(25 * time.Millisecond)
			}
		}
		if !ok {
			r.Violation("C09:upstream-connection-left-open:"+c.key(), "an upstream connection is still open 3 s after Stop returned", w)
		}
	}
	var leaked []string
	for i := 0; i < 60; i++ {
		dump, err := s.Goroutines()
		if err != nil {
			break
		}
		leaked = leakedGoroutines(dump)
		if len(leaked) == 0 {
			break
		}
		time.Sleep(50 * time.Millisecond)
	}
	if len(leaked) > 0 {
		w["leaked_goroutines"] = tail(leaked, 3)
		r.Violation("C09:goroutines-remain:"+c.key(), fmt.Sprintf("%d goroutines of the service remain 3 s after Stop returned", len(leaked)), w)
		s.Kill()
	}
	r.Case(fmt.Sprintf("%s/%s/%s/%s/c%d", c.Proto, c.Placement, c.Backend, c.Action, c.Conns))
	r.Count("placements_judged", 1)
}

// judgeHang turns an expired deadline into a verdict: the call is a hang only if the control channel still answers and two
// goroutine dumps 500 ms apart show the Stop / Drain call parked in the same frame.
func (e *c09Env) judgeHang(c c09Case, what string, w map[string]interface{}) {
	r := e.r
	s := e.s
	defer func() {
		s.HookReleaseAll()
		s.Kill() // a wedged processor cannot be reused
	}()
	if sutDied(r, s, w) {
		return
	}
	d1, err1 := s.Goroutines()
	time.Sleep(500 * time.Millisecond)
	d2, err2 := s.Goroutines()
	if err1 != nil || err2 != nil {
		r.Inconclusive("hang-dump-failed")
		return
	}
	frame := func(d string) string {
		for _, blk := range strings.Split(d, "\n\n") {
			if strings.Contains(blk, "main.(*sutState).handle") && (strings.Contains(blk, ".Stop(") || strings.Contains(blk, ".StopListen(") || strings.Contains(blk, ".Drain(")) {
				lines := strings.Split(blk, "\n")
				if len(lines) > 3 {
					return strings.Join(lines[1:min(len(lines), 9)], "\n")
				}
			}
		}
		return ""
	}
	f1, f2 := frame(d1), frame(d2)
	if f1 == "" || f1 != f2 {
		r.Inconclusive("deadline-expired-but-not-stuck:" + what)
		return
	}
	w["stuck_call"] = f2
	w["other_service_goroutines"] = tail(leakedGoroutines(d2), 4)
	r.Violation("C09:"+what+"-hangs:"+c.key(), what+" did not return within 6 s and is parked in the same frame in two goroutine dumps 500 ms apart", w)
	r.Case(fmt.Sprintf("%s/%s/%s/%s/c%d", c.Proto, c.Placement, c.Backend, c.Action, c.Conns))
}

func waitStat(s *sutc.SUT, name, suffix string, min uint64, timeout time.Duration) bool {
	deadline := time.Now().Add(timeout)
	for time.Now().Before(deadline) {
		m, err := s.Stats("service." + name + ".")
		if err != nil {
			return false
		}
		if m["service."+name+"."+suffix] >= min {
			return true
		}
		time.Sleep(5 * time.Millisecond)
	}
	return false
}

func c09(r *ev.Run) {
	r.Rule("lifecycle enumeration {stop immediately after start, while the bind is being retried (port occupied), after bind but before the socket is published, before the accept loop, with a connection accepted but not yet registered, with a backend dial in flight, with the backend writer holding a written request while its reply arrives, with a multi-key request that overflows a backend client's queues, after repeated host replacements under traffic, while serving with 0 / 1 / 50 connections and requests in flight (also more than the session queue holds)} x backend behaviour {responsive, silent, not reading, closed, silent for the slot refresh only} x {redis, tcp} x {stop, drain then stop, stop twice}, plus connection limits {1, 3, 16} (sequential arrivals, and bursts of 24-63 connections released together into registration); distinct = distinct (protocol, placement, backend, action, connections) tuples")
	r.Assume("bounded-progress restatement: Stop / StopListen must return within 6 s; an expired deadline is a hang only if the control channel still answers and two goroutine dumps 500 ms apart show the call parked in the same frame")
	r.Assume("after Stop: nobody serves the port (SO_REUSEPORT makes 'can re-bind' meaningless), every downstream and upstream connection is closed within 3 s, no goroutine with a frame in samaritan/proc or samaritan/host remains (the process-wide tcp-shaker loop is excluded)")
	e := &c09Env{r: r}
	defer func() {
		if e.s != nil {
			e.s.Kill()
		}
	}()
	rnd := rand.New(rand.NewSource(r.Seed + 9))
	var cases []c09Case
	reps := 3
	if r.Tier == "thorough" {
		reps = 12
	}
	for _, proto := range []string{"redis", "tcp"} {
		for rep := 0; rep < reps*3; rep++ {
			cases = append(cases, c09Case{proto, "immediately-after-start", "responsive", 0, []string{"stop", "drain-then-stop", "stop-twice"}[rep%3]})
		}
		for rep := 0; rep < reps; rep++ {
			cases = append(cases, c09Case{proto, "bind-retrying", "responsive", 0, "stop"}, c09Case{proto, "bind-retrying", "responsive", 0, "drain-then-stop"})
			cases = append(cases, c09Case{proto, "after-bind-before-publish", "responsive", 0, "stop"}, c09Case{proto, "after-bind-before-publish", "responsive", 0, "drain-then-stop"})
			cases = append(cases, c09Case{proto, "before-accept", "responsive", 0, "stop"})
			for _, n := range []int{0, 1, 50} {
				for _, act := range []string{"stop", "drain-then-stop", "stop-twice"} {
					if r.Tier != "thorough" && n == 1 && act != "stop" {
						continue
					}
					cases = append(cases, c09Case{proto, "serving", "responsive", n, act})
				}
			}
			cases = append(cases, c09Case{proto, "conn-accepted-not-registered", "responsive", 1, "stop"}, c09Case{proto, "conn-accepted-not-registered", "responsive", 1, "drain-then-stop"})
			if proto == "redis" {
				cases = append(cases, c09Case{proto, "backend-dial-in-flight", "responsive", 0, "stop"})
				cases = append(cases, c09Case{proto, "serving-deep-pipeline", "silent", 3, "stop"}, c09Case{proto, "serving-deep-pipeline", "responsive", 3, "stop"},
					c09Case{proto, "serving-deep-pipeline", "not-reading", 2, "drain-then-stop"}, c09Case{proto, "serving-after-host-replace", "responsive", 2, "stop"},
					c09Case{proto, "backend-writer-holds-request", "responsive", 1, "stop"}, c09Case{proto, "backend-writer-holds-request", "responsive", 1, "stop"},
					c09Case{proto, "backend-writer-holds-request", "responsive", 1, "stop"}, c09Case{proto, "backend-writer-holds-request", "responsive", 1, "stop"},
					c09Case{proto, "backend-writer-holds-request", "responsive", 1, "stop"}, c09Case{proto, "backend-writer-holds-request", "responsive", 1, "stop"},
					c09Case{proto, "serving-clients-being-recreated", "responsive", 8, "stop"}, c09Case{proto, "serving-clients-being-recreated", "responsive", 8, "stop"},
					c09Case{proto, "serving-clients-being-recreated", "responsive", 8, "stop"}, c09Case{proto, "serving-clients-being-recreated", "responsive", 8, "stop"},
					c09Case{proto, "serving-clients-being-recreated", "responsive", 8, "stop"}, c09Case{proto, "serving-clients-being-recreated", "responsive", 8, "stop"},
					c09Case{proto, "serving-every-backend-queue-full", "silent", 2, "stop"}, c09Case{proto, "serving-every-backend-queue-full", "not-reading", 2, "stop"},
					c09Case{proto, "serving-backend-queue-full", "silent", 2, "stop"}, c09Case{proto, "serving-backend-queue-full", "not-reading", 1, "drain-then-stop"})
			}
			if proto == "tcp" {
				cases = append(cases, c09Case{proto, "serving-after-health-check-added", "responsive", 1, "stop"}, c09Case{proto, "serving-after-health-check-added-changed", "responsive", 1, "stop"},
					c09Case{proto, "serving-after-health-check-added-removed", "responsive", 1, "drain-then-stop"}, c09Case{proto, "serving-after-health-check-added-removed-added", "closed", 0, "stop"})
			}
			backs := []string{"silent", "not-reading", "closed"}
			if proto == "redis" {
				backs = append(backs, "refresh-silent")
			}
			for _, b := range backs {
				cases = append(cases, c09Case{proto, "serving", b, 3, "stop"})
				if r.Tier == "thorough" {
					cases = append(cases, c09Case{proto, "serving", b, 0, "stop"}, c09Case{proto, "serving", b, 3, "drain-then-stop"})
				}
			}
		}
	}
	if only := os.Getenv("VERIF_C09_ONLY"); only != "" { // debugging aid: the volume requirements below then report the run inconclusive
		var kept []c09Case
		for _, c := range cases {
			if strings.Contains(c.Placement, only) {
				kept = append(kept, c)
			}
		}
		cases = append(kept, c09Case{"tcp", "serving", "responsive", 1, "stop"})
	}
	for _, c := range cases {
		e.runCase(c, rnd)
	}
	c09Limit(r, e, rnd)
	runAPIPart(r, "listener", false, nil, 10*time.Minute)
	runAPIPart(r, "controller", false, nil, 15*time.Minute)
	r.Sample(map[string]interface{}{"cases": len(cases), "example": cases[len(cases)/2]})
	r.Require("placements_judged", int64(len(cases)/2))
	r.Require("limit_bursts", 60)
	r.Require("controller_rounds_judged", 4)
}

// c09Limit: with limit L, connections under the limit are always served, never more than L are served at once, and a slot freed by a
// closing connection is given to a new one.
func c09Limit(r *ev.Run, e *c09Env, rnd *rand.Rand) {
	for _, L := range []int{1, 3, 16} {
		if !e.ensureSUT() {
			return
		}
		s := e.s
		var mu sync.Mutex
		active, maxActive := 0, 0
		be, err := tcpsim.NewBackend(func(b *tcpsim.Backend, conn net.Conn) {
			mu.Lock()
			active++
			if active > maxActive {
				maxActive = active
			}
			mu.Unlock()
			tcpsim.Echo(b, conn)
			mu.Lock()
			active--
			mu.Unlock()
		})
		if err != nil {
			r.Internal("backend: %v", err)
			return
		}
		svc, err := startTCPSvc(s, []sutc.Host{{Addr: be.Addr}}, TCPOpts{ConnLimit: uint32(L)})
		if err != nil {
			r.Internal("%v", err)
			be.Close()
			return
		}
		echo := func(c net.Conn) bool {
			c.SetDeadline(time.Now().Add(2 * time.Second))
			c.Write([]byte("ping"))
			buf := make([]byte, 4)
			n, _ := c.Read(buf)
			return n > 0
		}
		time.Sleep(50 * time.Millisecond) // the listener probe of startTCPSvc is gone
		var held []net.Conn
		w := map[string]interface{}{"limit": L}
		for i := 0; i < L; i++ {
			c, err := net.DialTimeout("tcp", svc.Addr, 2*time.Second)
			if err != nil || !echo(c) {
				r.Violation("C09:connection-under-limit-not-served", fmt.Sprintf("connection %d of %d (limit %d) was not served", i+1, L, L), w)
				break
			}
			held = append(held, c)
		}
		// over the limit: refused service
		extraServed := 0
		for i := 0; i < 3+L; i++ {
			c, err := net.DialTimeout("tcp", svc.Addr, 2*time.Second)
			if err == nil {
				if echo(c) {
					extraServed++
				}
				c.Close()
			}
		}
		mu.Lock()
		mx := maxActive
		mu.Unlock()
		if extraServed > 0 || mx > L {
			w["max_served_at_once"] = mx
			w["served_over_limit"] = extraServed
			r.Violation("C09:connection-limit-exceeded", fmt.Sprintf("with limit %d, %d connections were served at once", L, mx), w)
		}
		// a freed slot is reusable (bounded: 3 tries 300 ms apart)
		if len(held) > 0 {
			held[0].Close()
			held = held[1:]
			ok := false
			for t := 0; t < 10 && !ok; t++ {
				time.Sleep(100 * time.Millisecond)
				if c, err := net.DialTimeout("tcp", svc.Addr, 2*time.Second); err == nil {
					ok = echo(c)
					c.Close()
				}
			}
			if !ok {
				r.Violation("C09:freed-slot-not-reusable", "after a connection under the limit closed, a new connection was not served within 1 s", w)
			}
		}
		for _, c := range held {
			c.Close()
		}
		// bursts: B connections are accepted and held just before registration, then released together, so that their limit checks
		// and registrations interleave as tightly as the scheduler allows; at most L may be served, and (a slot being free) at least one
		waitIdle := func() bool {
			for t := 0; t < 300; t++ {
				mu.Lock()
				a := active
				mu.Unlock()
				if a == 0 {
					return true
				}
				time.Sleep(10 * time.Millisecond)
			}
			return false
		}
		rounds := 40
		if r.Tier == "thorough" {
			rounds = 400
		}
		const hookName = "listener.conn.before_register"
		for round := 0; round < rounds && waitIdle(); round++ {
			B := 24 + rnd.Intn(40)
			mu.Lock()
			maxActive = 0
			mu.Unlock()
			s.HookArm(hookName, sutc.HookAction{Mode: "spin", Times: B}) // spin: the held goroutines stay on their CPUs and run into registration at the same instant
			var conns []net.Conn
			for i := 0; i < B; i++ {
				if c, err := net.DialTimeout("tcp", svc.Addr, 2*time.Second); err == nil {
					conns = append(conns, c)
				}
			}
			parked := s.WaitParked(hookName, int64(len(conns)), 3*time.Second)
			s.HookRelease(hookName)
			if !parked {
				for _, c := range conns {
					c.Close()
				}
				r.Inconclusive("hook-not-reached:" + hookName + ":burst")
				continue
			}
			served := int32(0)
			var bw sync.WaitGroup
			for _, c := range conns {
				bw.Add(1)
				go func(c net.Conn) {
					defer bw.Done()
					if echo(c) {
						atomic.AddInt32(&served, 1)
					}
				}(c)
			}
			bw.Wait()
			mu.Lock()
			mx = maxActive
			mu.Unlock()
			for _, c := range conns {
				c.Close()
			}
			if os.Getenv("VERIF_DEBUG") != "" {
				fmt.Fprintf(os.Stderr, "burst L=%d B=%d served=%d mx=%d\n", L, len(conns), served, mx)
			}
			if int(served) > L || mx > L {
				r.Violation("C09:connection-limit-exceeded:burst", fmt.Sprintf("with limit %d, a burst of %d connections released together into registration had %d served at once (%d echoed)", L, len(conns), mx, served),
					map[string]interface{}{"limit": L, "burst": len(conns), "max_served_at_once": mx, "echoed": served, "round": round})
				break
			}
			if served == 0 {
				r.Violation("C09:connection-under-limit-not-served:burst", fmt.Sprintf("with limit %d and no connection open, none of a burst of %d connections was served", L, len(conns)),
					map[string]interface{}{"limit": L, "burst": len(conns), "round": round})
				break
			}
			r.Count("limit_bursts", 1)
		}
		st, _ := s.Stats("service." + svc.Name + ".")
		if st["service."+svc.Name+".downstream.cx_restricted"] == 0 {
			r.Violation("C09:restricted-not-counted", "connections over the limit were not counted as restricted", w)
		}
		s.StopProc(svc.Name, 10*time.Second)
		be.Close()
		r.Case(fmt.Sprintf("limit/%d", L))
		r.Count("limit_scenarios", 1)
	}
}
