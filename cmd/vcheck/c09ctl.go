//go:build verif

package main

// C09, controller part: services are stopped the way the running proxy stops them - the configuration store announces the removal of
// a dependency, the real controller's event loop stops the processor - and at the end the controller itself is stopped with services
// still running. Judged: the removal (and the controller's Stop) completes, the port is released, held connections are closed, the
// event loop goes on handling later events, nothing of the stopped services is left running.

import (
	"fmt"
	"math/rand"
	"net"
	"os"
	"runtime"
	"strconv"
	"strings"
	"sync/atomic"
	"time"

	"verif/internal/ev"
	"verif/internal/fakecluster"
	"verif/internal/resp"
	"verif/internal/tcpsim"

	"github.com/samaritan-proxy/samaritan/config"
	"github.com/samaritan-proxy/samaritan/controller"
	"github.com/samaritan-proxy/samaritan/pb/common"
	"github.com/samaritan-proxy/samaritan/pb/config/bootstrap"
	"github.com/samaritan-proxy/samaritan/pb/config/protocol"
	"github.com/samaritan-proxy/samaritan/pb/config/service"
)

func init() {
	apiParts["C09/controller"] = c09Controller
}

func ownStacks() string {
	buf := make([]byte, 8<<20)
	return string(buf[:runtime.Stack(buf, true)])
}

// parkedIn returns the stack block of the first goroutine that has needle in it.
func parkedIn(dump, needle string) string {
	for _, blk := range strings.Split(dump, "\n\n") {
		if strings.Contains(blk, needle) {
			return blk
		}
	}
	return ""
}

// frameLines reduces a goroutine block to its function lines (no addresses / arguments / wait durations).
func frameLines(blk string) string {
	var out []string
	for _, l := range strings.Split(blk, "\n")[1:] {
		if strings.HasPrefix(l, "\t") {
			continue
		}
		if i := strings.LastIndex(l, "("); i > 0 {
			l = l[:i]
		}
		out = append(out, l)
	}
	return strings.Join(out, "\n")
}

func c09Controller(r *ev.Run) {
	rnd := rand.New(rand.NewSource(r.Seed + 909))
	reps := 6
	if r.Tier == "thorough" {
		reps = 40
	}
	for rep := 0; rep < reps; rep++ {
		proto := []string{"tcp", "redis"}[rep%2]
		backend := []string{"responsive", "silent", "responsive", "not-reading"}[(rep/2)%4]
		nconn := []int{0, 1, 8, 40}[rnd.Intn(4)]
		key := fmt.Sprintf("%s:%s:%d", proto, backend, nconn)
		w := map[string]interface{}{"protocol": proto, "backend": backend, "connections": nconn, "round": rep}
		// backends
		var eps []*service.Endpoint
		var cleanup []func()
		var holdOpen int32
		if proto == "tcp" {
			be, err := tcpsim.NewBackend(func(b *tcpsim.Backend, c net.Conn) {
				switch backend {
				case "silent":
					buf := make([]byte, 4096)
					for {
						if _, err := c.Read(buf); err != nil {
							break
						}
					}
					c.Close()
				case "not-reading":
					for atomic.LoadInt32(&holdOpen) == 0 {
						time.Sleep(20 * time.Millisecond)
					}
					c.Close()
				default:
					tcpsim.Echo(b, c)
				}
			})
			if err != nil {
				r.Internal("backend: %v", err)
				return
			}
			cleanup = append(cleanup, func() { atomic.StoreInt32(&holdOpen, 1); be.Close() })
			h, p, _ := net.SplitHostPort(be.Addr)
			pn, _ := strconv.Atoi(p)
			eps = append(eps, &service.Endpoint{Address: &common.Address{Ip: h, Port: uint32(pn)}})
		} else {
			cl, err := fakecluster.New(2, 0)
			if err != nil {
				r.Internal("fakecluster: %v", err)
				return
			}
			cl.AssignContiguous()
			cl.LogArgs = false
			cleanup = append(cleanup, cl.Close)
			for _, a := range cl.Addrs() {
				h, p, _ := net.SplitHostPort(a)
				pn, _ := strconv.Atoi(p)
				eps = append(eps, &service.Endpoint{Address: &common.Address{Ip: h, Port: uint32(pn)}})
			}
			if backend != "responsive" {
				defer func(cl *fakecluster.Cluster) {}(cl)
				go func() {
					// the nodes answer the first slots refresh, then fall silent / stop reading
					time.Sleep(400 * time.Millisecond)
					for _, n := range cl.Nodes {
						if backend == "silent" {
							atomic.StoreInt32(&n.Silent, 1)
						} else {
							atomic.StoreInt32(&n.StopReading, 1)
						}
					}
				}()
			}
		}
		done := func() {
			for _, f := range cleanup {
				f()
			}
		}
		b := &bootstrap.Bootstrap{Admin: &bootstrap.Admin{Bind: &common.Address{Ip: "127.0.0.1", Port: 1}}}
		cfg, err := config.New(b)
		if err != nil {
			r.Internal("config.New: %v", err)
			done()
			return
		}
		ctl, err := controller.New(cfg.Subscribe())
		if err != nil {
			r.Internal("controller.New: %v", err)
			done()
			return
		}
		ctl.Start()
		add := func(name string, port int, proto string, eps []*service.Endpoint) {
			sc := &service.Config{Listener: &service.Listener{Address: &common.Address{Ip: "127.0.0.1", Port: uint32(port)}}, Protocol: protocol.TCP}
			ct := 300 * time.Millisecond
			sc.ConnectTimeout = &ct
			if proto == "redis" {
				sc.Protocol = protocol.Redis
				sc.ProtocolOptions = &service.Config_RedisOption{RedisOption: &protocol.RedisOption{}}
			}
			cfg.VerifDependencyUpdate([]*service.Service{{Name: name}}, nil)
			cfg.VerifSvcConfigUpdate(name, sc)
			cfg.VerifSvcEndpointUpdate(name, eps, nil)
		}
		port := freePort()
		addr := fmt.Sprintf("127.0.0.1:%d", port)
		name := fmt.Sprintf("c09c%d_%d", os.Getpid(), rep)
		add(name, port, proto, eps)
		up := false
		for i := 0; i < 300 && !up; i++ {
			if c, err := net.DialTimeout("tcp", addr, 200*time.Millisecond); err == nil {
				c.Close()
				up = true
			} else {
				time.Sleep(10 * time.Millisecond)
			}
		}
		if !up {
			r.Inconclusive("controller:service-not-up")
			ctl.Stop()
			done()
			continue
		}
		if proto == "redis" {
			time.Sleep(150 * time.Millisecond) // first slots refresh
		}
		// connections with something in flight
		var held []net.Conn
		for i := 0; i < nconn; i++ {
			c, err := net.DialTimeout("tcp", addr, time.Second)
			if err != nil {
				continue
			}
			if proto == "redis" {
				var pl []byte
				for k := 0; k < 1+rnd.Intn(40); k++ {
					pl = append(pl, resp.CmdS("GET", fmt.Sprintf("k%d.%d", i, k))...)
				}
				c.Write(pl)
			} else {
				c.Write([]byte(strings.Repeat("x", 1+rnd.Intn(30000))))
			}
			held = append(held, c)
		}
		if backend != "responsive" && proto == "redis" {
			time.Sleep(350 * time.Millisecond)
		} else {
			time.Sleep(time.Duration(rnd.Intn(60)) * time.Millisecond)
		}
		// (1) the dependency is removed: the controller's event loop stops the processor. The loop must come back: a service added
		// afterwards has to come up.
		last := rep%3 == 2 // every third round leaves the service to the controller's own Stop
		verdict := func(what, needle string, finished func() bool) bool {
			deadline := time.Now().Add(8 * time.Second)
			for time.Now().Before(deadline) {
				if finished() {
					return true
				}
				time.Sleep(20 * time.Millisecond)
			}
			d1 := frameLines(parkedIn(ownStacks(), needle))
			time.Sleep(700 * time.Millisecond)
			if finished() {
				return true
			}
			blk := parkedIn(ownStacks(), needle)
			if d1 != "" && d1 == frameLines(blk) {
				w["parked"] = blk
				r.Violation("C09:controller:"+what+"-hangs:"+proto+":"+backend, what+" did not complete within 8 s and is parked in the same frames in two goroutine dumps 700 ms apart", w)
			} else {
				r.Inconclusive("controller:" + what + "-slow")
			}
			return false
		}
		ok := true
		if !last {
			cfg.VerifDependencyUpdate(nil, []*service.Service{{Name: name}})
			port2 := freePort()
			addr2 := fmt.Sprintf("127.0.0.1:%d", port2)
			be2, _ := tcpsim.NewBackend(nil)
			h2, p2, _ := net.SplitHostPort(be2.Addr)
			pn2, _ := strconv.Atoi(p2)
			add(name+"_next", port2, "tcp", []*service.Endpoint{{Address: &common.Address{Ip: h2, Port: uint32(pn2)}}})
			ok = verdict("removal-through-the-controller", "handleSvcDel", func() bool {
				c, err := net.DialTimeout("tcp", addr2, 200*time.Millisecond)
				if err != nil {
					return false
				}
				defer c.Close()
				return echoRoundTrip(c, "next")
			})
			cleanup = append(cleanup, be2.Close)
		}
		// (2) the controller is stopped with whatever still runs
		if ok {
			stopped := make(chan struct{})
			go func() { ctl.Stop(); close(stopped) }()
			ok = verdict("controller-stop", "(*Controller).Stop", func() bool {
				select {
				case <-stopped:
					return true
				default:
					return false
				}
			})
		}
		if ok {
			// released: nobody serves the port, held connections are closed, nothing of the processors is left
			refused := false
			for i := 0; i < 100 && !refused; i++ {
				refused = portRefuses(addr)
				if !refused {
					time.Sleep(20 * time.Millisecond)
				}
			}
			if !refused {
				r.Violation("C09:controller:port-still-served:"+proto, "after the controller stopped the service its port is still served", w)
			}
			open := 0
			for _, c := range held {
				c.SetReadDeadline(time.Now().Add(3 * time.Second))
				buf := make([]byte, 65536)
				for {
					_, err := c.Read(buf)
					if err != nil {
						if ne, isNet := err.(net.Error); isNet && ne.Timeout() {
							open++
						}
						break
					}
				}
			}
			if open > 0 {
				w["still_open"] = open
				r.Violation("C09:controller:downstream-connection-left-open:"+proto+":"+backend, "connections of a service stopped through the controller were still open 3 s later", w)
			}
			var leaked []string
			for i := 0; i < 150; i++ {
				leaked = leakedGoroutines(ownStacks())
				if len(leaked) == 0 {
					break
				}
				time.Sleep(20 * time.Millisecond)
			}
			if len(leaked) > 0 {
				w["goroutines"] = leaked[:min(len(leaked), 3)]
				r.Violation("C09:controller:goroutine-left:"+proto+":"+backend, fmt.Sprintf("%d goroutines of the stopped processors are still running 3 s after the controller stopped", len(leaked)), w)
			}
			r.Count("controller_rounds_judged", 1)
		}
		for _, c := range held {
			c.Close()
		}
		done()
		r.Case("controller/" + key)
		if !ok {
			return // the process is left with a stuck event loop: later rounds would only repeat it
		}
	}
}
