package main

import (
	"bufio"
	"fmt"
	"github.com/samaritan-proxy/samaritan/cmd/samaritan/hotrestart"
	"net"
	"os"
	"os/exec"
	"path/filepath"
	"strconv"
	"strings"
	"syscall"
	"time"

	"github.com/samaritan-proxy/samaritan/pb/common"
	"github.com/samaritan-proxy/samaritan/pb/config/bootstrap"
	"github.com/samaritan-proxy/samaritan/pb/config/protocol"
	"github.com/samaritan-proxy/samaritan/pb/config/service"

	"verif/internal/child"
	"verif/internal/ev"
	"verif/internal/tcpsim"
)

// listeningInodes returns the inodes of LISTEN sockets on the port (IPv4).
func listeningInodes(port int) map[string]bool {
	out := map[string]bool{}
	f, err := os.Open("/proc/net/tcp")
	if err != nil {
		return out
	}
	defer f.Close()
	sc := bufio.NewScanner(f)
	hexPort := fmt.Sprintf(":%04X", port)
	for sc.Scan() {
		fs := strings.Fields(sc.Text())
		if len(fs) > 9 && strings.HasSuffix(fs[1], hexPort) && fs[3] == "0A" {
			out[fs[9]] = true
		}
	}
	return out
}

// processListens tells whether process pid owns a LISTEN socket on the port.
func processListens(pid, port int) bool {
	inodes := listeningInodes(port)
	ents, err := os.ReadDir(fmt.Sprintf("/proc/%d/fd", pid))
	if err != nil {
		return false
	}
	for _, e := range ents {
		l, err := os.Readlink(fmt.Sprintf("/proc/%d/fd/%s", pid, e.Name()))
		if err == nil && strings.HasPrefix(l, "socket:[") && inodes[strings.TrimSuffix(strings.TrimPrefix(l, "socket:["), "]")] {
			return true
		}
	}
	return false
}

func echoRoundTrip(c net.Conn, msg string) bool {
	c.SetDeadline(time.Now().Add(3 * time.Second))
	if _, err := c.Write([]byte(msg)); err != nil {
		return false
	}
	buf := make([]byte, len(msg))
	n := 0
	for n < len(msg) {
		k, err := c.Read(buf[n:])
		if err != nil {
			return false
		}
		n += k
	}
	return string(buf) == msg
}

// c17Smoke runs the hand-over between two real processes built from cmd/samaritan.
func c17Smoke(r *ev.Run) {
	dir := filepath.Join(ev.RunDir("C17"), "smoke")
	os.RemoveAll(dir)
	os.MkdirAll(dir, 0o755)
	bin := filepath.Join(dir, "samaritan")
	build := exec.Command("go", "build", "-o", bin, "github.com/samaritan-proxy/samaritan/cmd/samaritan")
	build.Dir = ev.Root
	if out, err := build.CombinedOutput(); err != nil {
		r.Internal("cannot build cmd/samaritan: %v: %s", err, truncStr(string(out), 600))
		return
	}
	defer os.RemoveAll(dir)
	be, err := tcpsim.NewBackend(nil)
	if err != nil {
		r.Internal("backend: %v", err)
		return
	}
	defer be.Close()
	host, portS, _ := net.SplitHostPort(be.Addr)
	bport, _ := strconv.Atoi(portS)
	adminPort, svcPort := freePort(), freePort()
	b := &bootstrap.Bootstrap{
		Admin: &bootstrap.Admin{Bind: &common.Address{Ip: "127.0.0.1", Port: uint32(adminPort)}},
		StaticServices: []*bootstrap.StaticService{{Name: "echo",
			Config:    &service.Config{Listener: &service.Listener{Address: &common.Address{Ip: "127.0.0.1", Port: uint32(svcPort)}}, Protocol: protocol.TCP},
			Endpoints: []*service.Endpoint{{Address: &common.Address{Ip: host, Port: uint32(bport)}}}}},
	}
	js, err := b.MarshalJSON()
	if err != nil {
		r.Internal("marshal bootstrap: %v", err)
		return
	}
	cfgFile := filepath.Join(dir, "sam.yaml") // JSON is YAML
	os.WriteFile(cfgFile, js, 0o644)
	start := func(tag string, env ...string) (*exec.Cmd, string) {
		logPath := filepath.Join(ev.RunDir("C17"), "smoke-"+tag+".log")
		f, _ := os.Create(logPath)
		cmd := exec.Command(bin, "-config", cfgFile, "-data", dir, "-pidfile", filepath.Join(dir, tag+".pid"))
		cmd.Stdout, cmd.Stderr = f, f
		cmd.Env = append(os.Environ(), env...)
		if err := cmd.Start(); err != nil {
			return nil, logPath
		}
		f.Close()
		return cmd, logPath
	}
	svcAddr := fmt.Sprintf("127.0.0.1:%d", svcPort)
	adminAddr := fmt.Sprintf("127.0.0.1:%d", adminPort)
	waitDial := func(addr string, d time.Duration) bool {
		deadline := time.Now().Add(d)
		for time.Now().Before(deadline) {
			if c, err := net.DialTimeout("tcp", addr, 300*time.Millisecond); err == nil {
				c.Close()
				return true
			}
			time.Sleep(20 * time.Millisecond)
		}
		return false
	}
	old, oldLog := start("old")
	if old == nil {
		r.Internal("cannot start the old process")
		return
	}
	oldDone := make(chan error, 1)
	go func() { oldDone <- old.Wait() }()
	defer old.Process.Kill()
	if !waitDial(adminAddr, 8*time.Second) || !waitDial(svcAddr, 8*time.Second) {
		r.Internal("the old process did not come up: %s", child.Tail(oldLog, 800))
		return
	}
	w := map[string]interface{}{"old_pid": old.Process.Pid, "admin": adminAddr, "service": svcAddr}
	c1, err := net.DialTimeout("tcp", svcAddr, 2*time.Second)
	if err != nil || !echoRoundTrip(c1, "before-handover") {
		r.Internal("echo through the old process failed")
		return
	}
	defer c1.Close()
	nw, newLog := start("new", "__Samaritan_Parent__="+strconv.Itoa(old.Process.Pid), "__Samaritan_Parent_Terminate_Time__=1500ms")
	if nw == nil {
		r.Internal("cannot start the new process")
		return
	}
	newDone := make(chan error, 1)
	go func() { newDone <- nw.Wait() }()
	defer nw.Process.Kill()
	w["new_pid"] = nw.Process.Pid
	// the new process owns admin and service listeners, the old one neither, while the old one is still alive
	handed := false
	deadline := time.Now().Add(6 * time.Second)
	for time.Now().Before(deadline) && !handed {
		if processListens(nw.Process.Pid, adminPort) && processListens(nw.Process.Pid, svcPort) &&
			!processListens(old.Process.Pid, adminPort) && !processListens(old.Process.Pid, svcPort) {
			handed = true
		}
		select {
		case <-oldDone:
			deadline = time.Now()
			oldDone <- nil
		default:
		}
		time.Sleep(20 * time.Millisecond)
	}
	if !handed {
		w["old_log"] = child.Tail(oldLog, 1500)
		w["new_log"] = child.Tail(newLog, 1500)
		r.Violation("C17:smoke:listeners-not-handed-over", "while the old process is alive, the new process does not own the admin and service listeners alone (admin stopped / listeners drained on request)", w)
		return
	}
	r.Count("smoke_listeners_handed_over", 1)
	// the established connection on the old process is untouched by the drain
	if !echoRoundTrip(c1, "after-drain") {
		r.Violation("C17:smoke:established-connection-broken-by-drain", "the connection established before the hand-over stopped working after the listeners were drained", w)
	}
	// new connections are served (by the new process: the old one no longer listens)
	c2, err := net.DialTimeout("tcp", svcAddr, 2*time.Second)
	if err != nil || !echoRoundTrip(c2, "new-process") {
		r.Violation("C17:smoke:new-connections-not-served", "after the hand-over new connections are not served", w)
	}
	if c2 != nil {
		defer c2.Close()
	}
	// terminate: the old process exits with status 0 after the acknowledged terminate request
	select {
	case err := <-oldDone:
		if err != nil {
			w["old_exit"] = err.Error()
			w["old_log"] = child.Tail(oldLog, 1500)
			r.Violation("C17:smoke:old-process-exit", "the old process did not exit cleanly after the terminate request", w)
		}
	case <-time.After(8 * time.Second):
		w["old_log"] = child.Tail(oldLog, 1500)
		r.Violation("C17:smoke:old-process-never-terminated", "the old process is still running 8 s after the hand-over (terminate time 1.5 s)", w)
	}
	if c2 != nil && !echoRoundTrip(c2, "after-old-exit") {
		r.Violation("C17:smoke:new-process-disturbed", "a connection served by the new process broke when the old process exited", w)
	}
	nw.Process.Signal(syscall.SIGTERM)
	select {
	case <-newDone:
	case <-time.After(8 * time.Second):
		r.Violation("C17:smoke:new-process-does-not-stop", "the new process did not exit within 8 s of SIGTERM", w)
	}
	r.Case("smoke/two-real-processes")
	r.Distinct("smoke/two-real-processes")
	r.Sample(map[string]interface{}{"smoke": "old process with an established echo connection, new process started with __Samaritan_Parent__, listeners handed over, old exits 0"})
}

// c17RealOldProcess: the harness plays the child against a real old process built from cmd/samaritan and sends every known request
// once, in several orders, while a client holds a fresh (not yet idle) connection to the admin port. Every request must be
// acknowledged with its reply and the old process must stay alive until it is asked to terminate.
func c17RealOldProcess(r *ev.Run) {
	dir := filepath.Join(ev.RunDir("C17"), "real")
	os.RemoveAll(dir)
	os.MkdirAll(dir, 0o755)
	defer os.RemoveAll(dir)
	bin := filepath.Join(dir, "samaritan")
	build := exec.Command("go", "build", "-o", bin, "github.com/samaritan-proxy/samaritan/cmd/samaritan")
	build.Dir = ev.Root
	if out, err := build.CombinedOutput(); err != nil {
		r.Internal("cannot build cmd/samaritan: %v: %s", err, truncStr(string(out), 600))
		return
	}
	be, err := tcpsim.NewBackend(nil)
	if err != nil {
		r.Internal("backend: %v", err)
		return
	}
	defer be.Close()
	host, portS, _ := net.SplitHostPort(be.Addr)
	bport, _ := strconv.Atoi(portS)
	orders := [][]int{{mtLocalConfReq, mtAdminReq, mtDrainReq, mtTerminateReq}, {mtAdminReq, mtLocalConfReq, mtDrainReq, mtTerminateReq}, {mtDrainReq, mtAdminReq, mtLocalConfReq, mtTerminateReq}, {mtAdminReq, mtDrainReq, mtTerminateReq}}
	names := map[int]string{mtAdminReq: "admin", mtLocalConfReq: "localconf", mtDrainReq: "drain", mtTerminateReq: "terminate"}
	for oi, order := range orders {
		adminPort, svcPort := freePort(), freePort()
		b := &bootstrap.Bootstrap{
			Admin: &bootstrap.Admin{Bind: &common.Address{Ip: "127.0.0.1", Port: uint32(adminPort)}},
			StaticServices: []*bootstrap.StaticService{{Name: "echo",
				Config:    &service.Config{Listener: &service.Listener{Address: &common.Address{Ip: "127.0.0.1", Port: uint32(svcPort)}}, Protocol: protocol.TCP},
				Endpoints: []*service.Endpoint{{Address: &common.Address{Ip: host, Port: uint32(bport)}}}}},
		}
		js, _ := b.MarshalJSON()
		cfgFile := filepath.Join(dir, fmt.Sprintf("sam%d.yaml", oi))
		os.WriteFile(cfgFile, js, 0o644)
		logPath := filepath.Join(ev.RunDir("C17"), fmt.Sprintf("real-old-%d.log", oi))
		f, _ := os.Create(logPath)
		cmd := exec.Command(bin, "-config", cfgFile, "-data", dir, "-pidfile", filepath.Join(dir, fmt.Sprintf("old%d.pid", oi)))
		cmd.Stdout, cmd.Stderr = f, f
		if err := cmd.Start(); err != nil {
			r.Internal("cannot start the old process: %v", err)
			return
		}
		f.Close()
		done := make(chan error, 1)
		go func() { done <- cmd.Wait() }()
		alive := func() bool {
			select {
			case err := <-done:
				done <- err
				return false
			default:
				return true
			}
		}
		adminAddr := fmt.Sprintf("127.0.0.1:%d", adminPort)
		up := false
		for i := 0; i < 400 && !up; i++ {
			if c, err := net.DialTimeout("tcp", adminAddr, 300*time.Millisecond); err == nil {
				c.Close()
				up = true
			} else {
				time.Sleep(20 * time.Millisecond)
			}
		}
		var uc *net.UnixConn
		for i := 0; i < 200 && uc == nil; i++ {
			uc, _ = net.DialUnix("unix", nil, &net.UnixAddr{Name: fmt.Sprintf("@sam_domain_socket_%d", cmd.Process.Pid), Net: "unix"})
			if uc == nil {
				time.Sleep(20 * time.Millisecond)
			}
		}
		if !up || uc == nil {
			cmd.Process.Kill()
			r.Internal("the old process did not come up: %s", child.Tail(logPath, 800))
			return
		}
		// a client that has just connected to the admin API and has not sent its request yet
		ac, _ := net.DialTimeout("tcp", adminAddr, time.Second)
		w := map[string]interface{}{"requests": order, "admin_connection_open_and_not_idle": ac != nil}
		ok := true
		for _, typ := range order {
			if err := hotrestart.VerifSendMessage(uc, uint8(typ), []byte("{}")); err != nil {
				w["send_error"] = err.Error()
			}
			res := safeRead(uc, 5*time.Second)
			time.Sleep(50 * time.Millisecond)
			if res.err != nil || res.pan != nil || int(res.m.Type) != typ+1 {
				w["failed_request"], w["reply_error"] = names[typ], fmt.Sprint(res.err)
				if !alive() {
					w["old_process_log_tail"] = child.Tail(logPath, 2500)
					r.Violation("C17:real:old-process-died:"+names[typ], "the real old process died on a "+names[typ]+" request instead of acknowledging it: "+crashLineOf(logPath), w)
				} else {
					r.Violation("C17:real:wrong-acknowledgement:"+names[typ], "the real old process did not acknowledge a "+names[typ]+" request with the matching reply", w)
				}
				ok = false
				break
			}
			r.Count("real_old_process_requests_acknowledged", 1)
		}
		if ok {
			select {
			case <-done:
			case <-time.After(8 * time.Second):
				r.Violation("C17:real:old-process-never-terminated", "the old process is still running 8 s after it acknowledged the terminate request", w)
			}
		}
		if ac != nil {
			ac.Close()
		}
		uc.Close()
		cmd.Process.Kill()
		r.Case(fmt.Sprintf("real-old-process/order%d", oi))
	}
}

func crashLineOf(logPath string) string {
	b, _ := os.ReadFile(logPath)
	for _, l := range strings.Split(string(b), "\n") {
		if strings.HasPrefix(l, "panic:") || strings.HasPrefix(l, "fatal error:") || strings.HasPrefix(l, "runtime: goroutine stack exceeds") {
			return strings.TrimSpace(l)
		}
	}
	return "exit without a panic line"
}
