package main

import "strings"

// Reference data written from the Redis <= 5.0 command table (server.c) and the
// proxy's documentation (docs/src/arch/protocol/redis/redis.md). It is independent of
// the proxy's own command tables.

// supportedKeyed: commands the documentation says are supported and forwarded by key,
// with an argument template used by the program generators:
//
//	k key  K key in the same slot as the first key  v value  f field  i small int  s score/float
//	b bit  L literal follows (upper-case word)  + the previous group may repeat
type cmdSpec struct {
	Name  string
	Tmpl  string
	Write bool // can modify data (Redis command table write flag)
}

var supportedKeyed = []cmdSpec{
	{"get", "k", false}, {"set", "k v", true}, {"setnx", "k v", true}, {"setex", "k i v", true}, {"psetex", "k i v", true},
	{"getset", "k v", true}, {"append", "k v", true}, {"strlen", "k", false}, {"incr", "k", true}, {"decr", "k", true},
	{"incrby", "k i", true}, {"decrby", "k i", true}, {"incrbyfloat", "k s", true}, {"getrange", "k i i", false},
	{"setrange", "k i v", true}, {"getbit", "k i", false}, {"setbit", "k i b", true}, {"bitcount", "k", false}, {"bitpos", "k b", false},
	{"expire", "k i", true}, {"expireat", "k i", true}, {"pexpire", "k i", true}, {"pexpireat", "k i", true}, {"persist", "k", true},
	{"ttl", "k", false}, {"pttl", "k", false}, {"type", "k", false}, {"dump", "k", false}, {"restore", "k i v", true}, {"sort", "k", false},
	{"hset", "k f v", true}, {"hsetnx", "k f v", true}, {"hget", "k f", false}, {"hmset", "k f v +", true}, {"hmget", "k f +", false},
	{"hgetall", "k", false}, {"hdel", "k f +", true}, {"hexists", "k f", false}, {"hlen", "k", false}, {"hkeys", "k", false},
	{"hvals", "k", false}, {"hstrlen", "k f", false}, {"hincrby", "k f i", true}, {"hincrbyfloat", "k f s", true}, {"hscan", "k i", false},
	{"lpush", "k v +", true}, {"rpush", "k v +", true}, {"lpushx", "k v", true}, {"rpushx", "k v", true}, {"lpop", "k", true}, {"rpop", "k", true},
	{"llen", "k", false}, {"lrange", "k i i", false}, {"lindex", "k i", false}, {"lset", "k i v", true}, {"lrem", "k i v", true},
	{"ltrim", "k i i", true}, {"linsert", "k L BEFORE v v", true}, {"rpoplpush", "k K", true},
	{"sadd", "k v +", true}, {"srem", "k v +", true}, {"smembers", "k", false}, {"scard", "k", false}, {"sismember", "k v", false},
	{"spop", "k", true}, {"srandmember", "k", false}, {"sscan", "k i", false}, {"sdiff", "k K", false}, {"sinter", "k K", false},
	{"sunion", "k K", false}, {"sdiffstore", "k K K", true}, {"sinterstore", "k K K", true}, {"sunionstore", "k K K", true}, {"smove", "k K v", true},
	{"zadd", "k s v +", true}, {"zscore", "k v", false}, {"zcard", "k", false}, {"zrem", "k v +", true}, {"zrange", "k i i", false},
	{"zrank", "k v", false}, {"zrevrank", "k v", false}, {"zincrby", "k s v", true}, {"zcount", "k s s", false}, {"zlexcount", "k L [a L [z", false},
	{"zrevrange", "k i i", false}, {"zrangebyscore", "k s s", false}, {"zrevrangebyscore", "k s s", false}, {"zrangebylex", "k L [a L [z", false},
	{"zrevrangebylex", "k L [z L [a", false}, {"zremrangebyrank", "k i i", true}, {"zremrangebyscore", "k s s", true}, {"zremrangebylex", "k L [a L [z", true},
	{"zinterstore", "k L 1 K", true}, {"zunionstore", "k L 1 K", true}, {"zscan", "k i", false},
	{"pfadd", "k v +", true}, {"pfcount", "k", false}, {"pfmerge", "k K", true},
	{"geoadd", "k s s v", true}, {"geodist", "k v v", false}, {"geohash", "k v", false}, {"geopos", "k v", false},
	{"georadius", "k s s s L m", true}, {"georadiusbymember", "k v s L m", true},
}

var supportedByName = func() map[string]cmdSpec {
	m := map[string]cmdSpec{}
	for _, c := range supportedKeyed {
		m[c.Name] = c
	}
	return m
}()

// multiKey commands the proxy splits per key.
var multiKeyCmds = []string{"mget", "mset", "del", "exists", "touch", "unlink"}

// locallyAnswered commands never reach a backend.
var locallyAnswered = []string{"ping", "quit", "select", "info", "time", "hotkey"}

// documentedUnsupported is the list in the proxy's documentation plus the families the property names.
var documentedUnsupported = strings.Fields(`keys migrate move object randomkey rename renamenx wait bitop msetnx blpop brpop brpoplpush
	psubscribe publish pubsub punsubscribe subscribe unsubscribe evalsha script discard exec multi unwatch watch cluster echo
	bgrewriteaof bgsave client command config dbsize debug flushall flushdb lastsave monitor role save shutdown slaveof sync slowlog`)

// redisCommands is the Redis 5.0 command table: name -> "w" (write), "r" (read-only) or "-" (neither / admin / no key).
var redisCommands = func() map[string]string {
	m := map[string]string{}
	add := func(flag string, names string) {
		for _, n := range strings.Fields(names) {
			m[n] = flag
		}
	}
	add("w", `set setnx setex psetex append del unlink setbit bitfield setrange incr decr rpush lpush rpushx lpushx linsert rpop lpop brpop
		brpoplpush blpop lset ltrim lrem rpoplpush sadd srem smove spop sinterstore sunionstore sdiffstore zadd zincrby zrem zremrangebyscore
		zremrangebyrank zremrangebylex zunionstore zinterstore zpopmin zpopmax bzpopmin bzpopmax hset hsetnx hmset hincrby hincrbyfloat hdel
		incrby decrby incrbyfloat getset mset msetnx swapdb move rename renamenx expire expireat pexpire pexpireat flushdb flushall sort persist
		restore restore-asking migrate bitop geoadd georadius georadiusbymember pfadd pfmerge pfdebug xadd xreadgroup xgroup xsetid xack xclaim xdel xtrim`)
	add("r", `get strlen exists getbit getrange substr mget llen lindex lrange sismember scard srandmember sinter sunion sdiff smembers sscan
		zrange zrangebyscore zrevrangebyscore zrangebylex zrevrangebylex zcount zlexcount zrevrange zcard zscore zrank zrevrank zscan hget hmget
		hlen hstrlen hkeys hvals hgetall hexists hscan randomkey keys scan dbsize type ttl touch pttl dump object memory bitcount bitpos
		georadius_ro georadiusbymember_ro geohash geopos geodist pfcount xrange xrevrange xlen xread xpending xinfo`)
	add("-", `module select auth ping echo save bgsave bgrewriteaof shutdown lastsave multi exec discard sync psync replconf info monitor slaveof
		replicaof role debug config subscribe unsubscribe psubscribe punsubscribe publish pubsub watch unwatch cluster asking readonly readwrite
		client eval evalsha slowlog script time wait command pfselftest post host: latency lolwut`)
	return m
}()
