package main

import (
	"fmt"
	"math/rand"
	"net"
	"os"
	"sort"
	"strings"
	"sync"
	"sync/atomic"
	"time"

	"verif/internal/ev"
	"verif/internal/fakecluster"
	"verif/internal/rclient"
	"verif/internal/resp"
	"verif/internal/sutc"
	"verif/internal/tcpsim"
)

func init() {
	register(&Check{ID: "C20", Level: "exploration", Drive: c20})
}

// waitQuiescent polls the stats of a service until two consecutive dumps (>= 50 ms apart) are identical.
func waitQuiescent(s *sutc.SUT, name string, timeout time.Duration) (map[string]uint64, bool) {
	deadline := time.Now().Add(timeout)
	var prev map[string]uint64
	for time.Now().Before(deadline) {
		cur, err := s.Stats("service." + name + ".")
		if err != nil {
			return prev, false
		}
		if prev != nil && sameStats(prev, cur) {
			return cur, true
		}
		prev = cur
		time.Sleep(60 * time.Millisecond)
	}
	return prev, false
}

func sameStats(a, b map[string]uint64) bool {
	if len(a) != len(b) {
		return false
	}
	for k, v := range a {
		if b[k] != v && !strings.Contains(k, "slots_refresh") { // (the refresh keeps failing, and counting, while a service has no host: not part of any equation)
			return false
		}
	}
	return true
}

// conservation checks the equations at quiescence and returns the broken ones.
func conservation(name string, st map[string]uint64) []string {
	p := "service." + name + "."
	var broken []string
	for _, side := range []string{"downstream", "upstream"} {
		g := func(k string) uint64 { return st[p+side+"."+k] }
		if a := st["gauge:"+p+side+".cx_active"]; a != 0 {
			broken = append(broken, fmt.Sprintf("%s.cx_active=%d (want 0)", side, a))
		}
		if g("cx_total") != g("cx_destroy_total") {
			broken = append(broken, fmt.Sprintf("%s.cx_total=%d != cx_destroy_total=%d", side, g("cx_total"), g("cx_destroy_total")))
		}
		if g("rq_total") != g("rq_success_total")+g("rq_failure_total") {
			broken = append(broken, fmt.Sprintf("%s.rq_total=%d != rq_success_total=%d + rq_failure_total=%d", side, g("rq_total"), g("rq_success_total"), g("rq_failure_total")))
		}
	}
	// per command
	cmds := map[string]bool{}
	for k := range st {
		if strings.HasPrefix(k, p+"redis.") && strings.HasSuffix(k, ".total") {
			cmds[strings.TrimSuffix(strings.TrimPrefix(k, p+"redis."), ".total")] = true
		}
	}
	for c := range cmds {
		t, su, e := st[p+"redis."+c+".total"], st[p+"redis."+c+".success"], st[p+"redis."+c+".error"]
		if t != su+e {
			broken = append(broken, fmt.Sprintf("redis.%s: total=%d != success=%d + error=%d", c, t, su, e))
		}
	}
	for k, v := range st {
		if strings.HasPrefix(k, "gauge:") && v >= 1<<63 {
			broken = append(broken, fmt.Sprintf("%s=%d wrapped below zero", k, v))
		}
	}
	sort.Strings(broken)
	return broken
}

func statsSubset(name string, st map[string]uint64) map[string]uint64 {
	out := map[string]uint64{}
	for k, v := range st {
		if v != 0 && (strings.Contains(k, "stream.cx_") || strings.Contains(k, "stream.rq_") && !strings.Contains(k, "duration")) {
			out[strings.Replace(k, "service."+name+".", "", 1)] = v
		}
	}
	return out
}

// judgeQuiescent waits for quiescence and reports broken equations under the scenario's witness key.
func judgeQuiescent(r *ev.Run, s *sutc.SUT, name, scenario string, detail map[string]interface{}) {
	st, ok := waitQuiescent(s, name, 8*time.Second)
	if sutDied(r, s, scenario) {
		return
	}
	if !ok {
		r.Inconclusive("stats-never-stable:" + scenario)
		return
	}
	broken := conservation(name, st)
	// Two identical dumps do not prove that nothing is in flight: a backend connect that got no answer yet (the listener was being
	// closed when the SYN arrived) is decided only by its retransmission or by the connect timeout (3 s by default). The equations
	// are therefore given up to 5 s to become true; a connection or request that is really lost stays lost.
	for waited := 0; len(broken) > 0 && waited < 5000; waited += 100 {
		time.Sleep(100 * time.Millisecond)
		if cur, err := s.Stats("service." + name + "."); err == nil {
			st = cur
			broken = conservation(name, st)
		}
		if len(broken) == 0 {
			r.Count("equations_true_only_after_an_in_flight_operation_ended", 1)
		}
	}
	if len(broken) > 0 {
		kind := "other"
		switch {
		case strings.Contains(broken[0], "cx_"):
			kind = "cx"
		case strings.Contains(broken[0], "rq_"):
			kind = "rq"
		case strings.Contains(broken[0], "redis."):
			kind = "cmd"
		}
		w := map[string]interface{}{"scenario": scenario, "broken": broken, "stats": statsSubset(name, st)}
		if kind == "cx" {
			if g, err := s.Goroutines(); err == nil {
				w["connection_handlers"] = truncStr(extractStacks(g, "HandleConn", 4)+"\n\n"+extractStacks(g, "handleConn", 4), 12000)
			}
		}
		for k, v := range detail {
			w[k] = v
		}
		r.Violation("C20:"+scenario+":"+kind, "statistics are not conserved at quiescence: "+strings.Join(broken, "; "), w)
	}
	r.Case("scenario/" + scenario)
	r.Count("scenarios_judged", 1)
}

func c20(r *ev.Run) {
	r.Rule("fixed scenario list x PRNG parameters, each ending in quiescence (client connections closed or service stopped; two identical stat dumps >= 50 ms apart): normal / multi-key traffic, invalid and unsupported requests, MOVED and ASK redirections, backend reset and silence with requests in flight, connection-limit rejections, client disconnecting with requests in flight, service stopped while connections are open (idle, and with pipelines and redirections in flight); the same for a TCP service (traffic, dial failures, host removal, a host flapping under arriving connections, stop while open); distinct = distinct scenarios x parameter classes")
	r.Assume("quiescence = every client connection of the scenario closed (or the service stopped), simulated nodes idle, two identical stat dumps >= 50 ms apart; equations still false then are re-read for up to 5 s (connect timeout 3 s) before they count")
	r.Assume("stat names follow utils.BuildStats: service.<name>.{downstream,upstream}.{cx_total,cx_destroy_total,cx_active,rq_total,rq_success_total,rq_failure_total} and service.<name>.redis.<cmd>.{total,success,error}")
	s, err := startSUT(r, false, 200, 20)
	if err != nil {
		r.Internal("start sut: %v", err)
		return
	}
	defer s.Close()
	rnd := rand.New(rand.NewSource(r.Seed + 20))
	rounds := 8
	if r.Tier == "thorough" {
		rounds = 60
	}
	if os.Getenv("VERIF_C20_ONLY") != "" {
		rounds = 300
	}
	for round := 0; round < rounds; round++ {
		if sutDied(r, s, "between rounds") {
			return
		}
		if os.Getenv("VERIF_C20_ONLY") == "" { // debugging aid: VERIF_C20_ONLY=<tcp scenario> repeats that scenario only
			c20Redis(r, s, rnd, round)
		}
		c20TCP(r, s, rnd, round)
	}
	r.Require("scenarios_judged", int64(rounds*12))
}

func c20Redis(r *ev.Run, s *sutc.SUT, rnd *rand.Rand, round int) {
	type scen struct {
		name string
		run  func(svc *RedisSvc, cl *fakecluster.Cluster) map[string]interface{}
		opts RedisOpts
		stop bool // stop the service while connections are open
		prep func(cl *fakecluster.Cluster) // changes to the cluster before the service is started
		live bool // traffic keeps flowing until the stop closes the connections (no wait for idle nodes before the stop)
	}
	var liveWg sync.WaitGroup
	var liveStop chan struct{} // closed once the stop of a "live" scenario has returned
	traffic := func(svc *RedisSvc, nconn, nreq int, mix string) []*rclient.Conn {
		var conns []*rclient.Conn
		var wg sync.WaitGroup
		var mu sync.Mutex
		for c := 0; c < nconn; c++ {
			wg.Add(1)
			go func(c int) {
				defer wg.Done()
				conn, err := svc.Dial()
				if err != nil {
					return
				}
				mu.Lock()
				conns = append(conns, conn)
				mu.Unlock()
				crnd := rand.New(rand.NewSource(int64(round*1000 + c)))
				for i := 0; i < nreq; i++ {
					k := fmt.Sprintf("k%d.%d", c, crnd.Intn(50))
					var args []string
					switch mix {
					case "invalid":
						args = [][]string{{"KEYS", "*"}, {"GET"}, {"nosuch", k}, {"MSET", k}, {"multi"}, {"SCAN", "x"}}[crnd.Intn(6)]
					default:
						args = [][]string{{"SET", k, "v"}, {"GET", k}, {"MGET", k, k + "x", "other"}, {"MSET", k, "1", k + "y", "2"}, {"DEL", k, "z" + k}, {"PING"}, {"INCR", k}, {"HSET", k, "f", "v"}, {"exists", k}}[crnd.Intn(9)]
					}
					if _, err := conn.DoS(10*time.Second, args...); err != nil {
						return
					}
				}
			}(c)
		}
		wg.Wait()
		return conns
	}
	closeAll := func(cs []*rclient.Conn) {
		for _, c := range cs {
			c.Close()
		}
	}
	scens := []scen{
		{name: "redis-normal", run: func(svc *RedisSvc, cl *fakecluster.Cluster) map[string]interface{} {
			n, q := 1+rnd.Intn(8), 20+rnd.Intn(80)
			closeAll(traffic(svc, n, q, "normal"))
			return map[string]interface{}{"connections": n, "requests_each": q}
		}},
		{name: "redis-invalid", run: func(svc *RedisSvc, cl *fakecluster.Cluster) map[string]interface{} {
			closeAll(traffic(svc, 1+rnd.Intn(4), 30, "invalid"))
			// a request the decoder rejects ends the connection
			if c, err := svc.Dial(); err == nil {
				c.C.Write([]byte("*1\r\n$-5\r\n"))
				c.Read(2 * time.Second)
				c.Close()
			}
			return nil
		}},
		{name: "redis-all-hosts-removed", run: func(svc *RedisSvc, cl *fakecluster.Cluster) map[string]interface{} {
			closeAll(traffic(svc, 2, 20, "normal"))
			// half of the slots have no owner (such keys go to any healthy host, which answers CLUSTERDOWN); then every endpoint is
			// removed: requests for those keys are rejected before a backend is chosen ("no available host")
			s.HostOp("host_remove", svc.Name, hostsOf(cl.Addrs()))
			time.Sleep(time.Duration(20+rnd.Intn(60)) * time.Millisecond)
			n := 1 + rnd.Intn(4)
			closeAll(traffic(svc, n, 30, "normal"))
			if os.Getenv("VERIF_DEBUG") != "" {
				if c, err := svc.Dial(); err == nil {
					for i := 0; i < 6; i++ {
						v, err := c.DoS(3*time.Second, "GET", fmt.Sprintf("dbg%d", i))
						fmt.Fprintf(os.Stderr, "after removal: GET dbg%d (slot %d) -> %s %v\n", i, fakecluster.Slot([]byte(fmt.Sprintf("dbg%d", i))), v.String(), err)
					}
					c.Close()
				}
			}
			if rnd.Intn(2) == 0 {
				// and added again
				s.HostOp("host_add", svc.Name, hostsOf(cl.Addrs()))
				time.Sleep(50 * time.Millisecond)
				closeAll(traffic(svc, 2, 20, "normal"))
			}
			return map[string]interface{}{"connections_after_the_removal": n}
		}, prep: func(cl *fakecluster.Cluster) {
			cl.Lock()
			for sl := rnd.Intn(2); sl < fakecluster.NumSlots; sl += 2 {
				cl.SetOwnerLocked(sl, nil)
			}
			cl.Unlock()
		}},
		{name: "redis-redirected", run: func(svc *RedisSvc, cl *fakecluster.Cluster) map[string]interface{} {
			conns := traffic(svc, 2, 10, "normal")
			ms := cl.Masters()
			cl.Lock()
			for sl := 0; sl < fakecluster.NumSlots; sl += 3 {
				cl.SetOwnerLocked(sl, ms[rnd.Intn(len(ms))]) // consistent re-shard: the table is stale until refreshed
			}
			for sl := 1; sl < fakecluster.NumSlots; sl += 97 {
				o := cl.Nodes[0].OwnerLocked(sl)
				t := ms[(o.Idx+1)%len(ms)]
				o.SetMigratingLocked(sl, t)
				t.SetImportingLocked(sl, o)
			}
			cl.Unlock()
			closeAll(traffic(svc, 4, 60, "normal"))
			closeAll(conns)
			return nil
		}},
		{name: "redis-backend-reset", run: func(svc *RedisSvc, cl *fakecluster.Cluster) map[string]interface{} {
			for _, n := range cl.Nodes {
				n.Delay = func([][]byte) time.Duration { return 2 * time.Millisecond }
			}
			var wg sync.WaitGroup
			var conns []*rclient.Conn
			for c := 0; c < 4; c++ {
				conn, err := svc.Dial()
				if err != nil {
					continue
				}
				conns = append(conns, conn)
				wg.Add(1)
				go func(c int, conn *rclient.Conn) {
					defer wg.Done()
					var buf []byte
					for i := 0; i < 40; i++ {
						buf = append(buf, resp.CmdS("SET", fmt.Sprintf("r%d.%d", c, i), "v")...)
					}
					conn.C.Write(buf)
					for i := 0; i < 40; i++ {
						if _, err := conn.Read(10 * time.Second); err != nil {
							return
						}
					}
				}(c, conn)
			}
			time.Sleep(time.Duration(5+rnd.Intn(30)) * time.Millisecond)
			for _, n := range cl.Nodes {
				n.KillConns(rnd.Intn(2) == 0)
			}
			wg.Wait()
			closeAll(conns)
			return nil
		}},
		{name: "redis-backend-silent-then-closed", run: func(svc *RedisSvc, cl *fakecluster.Cluster) map[string]interface{} {
			conn, err := svc.Dial()
			if err != nil {
				return nil
			}
			conn.DoS(5*time.Second, "SET", "warm", "1")
			for _, n := range cl.Nodes {
				n.Silent = 1
			}
			var buf []byte
			for i := 0; i < 20; i++ {
				buf = append(buf, resp.CmdS("GET", fmt.Sprintf("s%d", i))...)
			}
			conn.C.Write(buf)
			time.Sleep(30 * time.Millisecond)
			// every node answers again before any connection is closed: the loss of a connection makes the proxy ask for the slots
			// info at once, and a node that swallowed that request would keep it outstanding (no quiescence)
			for _, n := range cl.Nodes {
				n.Silent = 0
			}
			for _, n := range cl.Nodes {
				n.KillConns(false)
			}
			for i := 0; i < 20; i++ {
				if _, err := conn.Read(10 * time.Second); err != nil {
					break
				}
			}
			conn.Close()
			return nil
		}},
		{name: "redis-connection-limit", opts: RedisOpts{ConnLimit: uint32(1 + rnd.Intn(3))}, run: func(svc *RedisSvc, cl *fakecluster.Cluster) map[string]interface{} {
			var held []*rclient.Conn
			for i := 0; i < 8; i++ {
				c, err := svc.Dial()
				if err != nil {
					continue
				}
				c.DoS(500*time.Millisecond, "PING")
				held = append(held, c)
			}
			closeAll(held)
			return map[string]interface{}{"limit": svc.Opts.ConnLimit}
		}},
		{name: "redis-client-disconnects-with-requests-in-flight", run: func(svc *RedisSvc, cl *fakecluster.Cluster) map[string]interface{} {
			for _, n := range cl.Nodes {
				n.Delay = func([][]byte) time.Duration { return 3 * time.Millisecond }
			}
			for c := 0; c < 4; c++ {
				conn, err := svc.Dial()
				if err != nil {
					continue
				}
				var buf []byte
				for i := 0; i < 30; i++ {
					buf = append(buf, resp.CmdS("SET", fmt.Sprintf("d%d.%d", c, i), "v")...)
				}
				conn.C.Write(buf)
				time.Sleep(time.Duration(rnd.Intn(10)) * time.Millisecond)
				conn.Close()
			}
			return nil
		}},
		{name: "redis-stop-with-open-connections", stop: true, run: func(svc *RedisSvc, cl *fakecluster.Cluster) map[string]interface{} {
			n := 1 + rnd.Intn(5)
			traffic(svc, n, 10, "normal") // connections stay open
			return map[string]interface{}{"open_connections": n}
		}},
		{name: "redis-stop-while-asking-waits-for-room", stop: true, run: func(svc *RedisSvc, cl *fakecluster.Cluster) map[string]interface{} {
			// a backend with 1024 requests outstanding has stopped answering; a request is ASK-redirected to it (its writer waits
			// for room to queue the ASKING); the service is stopped with both connections open
			a, b := cl.Nodes[0], cl.Nodes[1]
			akeys := keysFor(cl, a, 4, "c20ask")
			bkeys := keysFor(cl, b, 1025, "c20fill")
			cl.Lock()
			for _, k := range akeys {
				sl := fakecluster.Slot([]byte(k))
				a.SetMigratingLocked(sl, b)
				b.SetImportingLocked(sl, a)
			}
			cl.Unlock()
			c1, err1 := svc.Dial()
			c2, err2 := svc.Dial()
			if err1 != nil || err2 != nil {
				return nil
			}
			c1.DoS(3*time.Second, "GET", bkeys[0])
			atomic.StoreInt32(&b.Silent, 1)
			c1.C.Write(resp.CmdS(append([]string{"MGET"}, bkeys[1:1025]...)...))
			time.Sleep(200 * time.Millisecond)
			for _, k := range akeys[:1+rnd.Intn(3)] {
				c2.C.Write(resp.CmdS("SET", k, "v"))
			}
			time.Sleep(200 * time.Millisecond)
			return map[string]interface{}{"outstanding_at_the_silent_backend": 1024}
		}},
		{name: "redis-stop-under-traffic", stop: true, live: true, run: func(svc *RedisSvc, cl *fakecluster.Cluster) map[string]interface{} {
			// pipelines keep flowing (part of them redirected: the table is stale) while the service is stopped under them
			ms := cl.Masters()
			cl.Lock()
			for sl := 0; sl < fakecluster.NumSlots; sl += 2 {
				cl.SetOwnerLocked(sl, ms[rnd.Intn(len(ms))])
			}
			cl.Unlock()
			// ... and it stays stale: slots keep changing hands every few milliseconds until the stop has returned
			liveStop = make(chan struct{})
			liveWg.Add(1)
			go func(stop chan struct{}) {
				defer liveWg.Done()
				rr := rand.New(rand.NewSource(int64(round) + 77))
				for {
					select {
					case <-stop:
						return
					case <-time.After(3 * time.Millisecond):
					}
					cl.Lock()
					base := rr.Intn(fakecluster.NumSlots)
					to := ms[rr.Intn(len(ms))]
					for sl := base; sl < base+3000 && sl < fakecluster.NumSlots; sl++ {
						cl.SetOwnerLocked(sl, to)
					}
					cl.Unlock()
				}
			}(liveStop)
			nc := 6 + rnd.Intn(7)
			for c := 0; c < nc; c++ {
				conn, err := svc.Dial()
				if err != nil {
					continue
				}
				liveWg.Add(1)
				go func(c int, conn *rclient.Conn) {
					defer liveWg.Done()
					defer conn.Close()
					for round := 0; round < 20000; round++ {
						var buf []byte
						for i := 0; i < 16; i++ {
							buf = append(buf, resp.CmdS("SET", fmt.Sprintf("live%d.%d.%d", c, round, i), "v")...)
						}
						conn.C.SetWriteDeadline(time.Now().Add(5 * time.Second))
						if _, err := conn.C.Write(buf); err != nil {
							return
						}
						for i := 0; i < 16; i++ {
							if _, err := conn.Read(5 * time.Second); err != nil {
								return
							}
						}
					}
				}(c, conn)
			}
			time.Sleep(time.Duration(20+rnd.Intn(80)) * time.Millisecond)
			return map[string]interface{}{"connections_sending_during_the_stop": nc}
		}},
	}
	for _, sc := range scens {
		cl, err := fakecluster.New(2+rnd.Intn(2), 0)
		if err != nil {
			r.Internal("fakecluster: %v", err)
			return
		}
		cl.AssignContiguous()
		cl.LogArgs = false
		if sc.prep != nil {
			sc.prep(cl)
		}
		svc, err := startRedisSvc(s, cl, cl.Addrs(), sc.opts)
		if err != nil {
			cl.Close()
			r.Internal("%v", err)
			return
		}
		svc.WaitRouting(1, 10*time.Second)
		// during the run gauges must never wrap
		stopSample := make(chan struct{})
		var sampleWg sync.WaitGroup
		sampleWg.Add(1)
		go func() {
			defer sampleWg.Done()
			for {
				select {
				case <-stopSample:
					return
				case <-time.After(15 * time.Millisecond):
				}
				st, err := s.Stats("service." + svc.Name + ".")
				if err != nil {
					return
				}
				for k, v := range st {
					if strings.HasPrefix(k, "gauge:") && v >= 1<<63 {
						r.Violation("C20:"+sc.name+":gauge-wrapped", fmt.Sprintf("gauge %s wrapped below zero during the run: %d", k, v), map[string]interface{}{"scenario": sc.name})
						return
					}
				}
				r.Count("gauge_samples_during_runs", 1)
			}
		}()
		detail := sc.run(svc, cl)
		close(stopSample)
		sampleWg.Wait()
		// no node may have an open request: wait until the nodes stopped receiving and answered everything they will answer
		for i, last := 0, int64(-1); i < 200 && !sc.live; i++ {
			rc, an := cl.Received(), cl.Answered()
			if rc == last && (an == rc || sc.name == "redis-backend-silent-then-closed" || sc.name == "redis-stop-while-asking-waits-for-room") {
				break
			}
			last = rc
			time.Sleep(25 * time.Millisecond)
		}
		if sc.stop {
			if err := s.StopProc(svc.Name, 15*time.Second); err != nil {
				r.Inconclusive("stop-did-not-return:" + sc.name)
				if liveStop != nil {
					close(liveStop)
					liveStop = nil
				}
				cl.Close()
				liveWg.Wait()
				continue
			}
		}
		if liveStop != nil {
			close(liveStop)
			liveStop = nil
		}
		liveWg.Wait()
		judgeQuiescent(r, s, svc.Name, sc.name, detail)
		if round == 0 && sc.name == "redis-normal" {
			st, _ := s.Stats("service." + svc.Name + ".")
			r.Sample(map[string]interface{}{"scenario": sc.name, "detail": detail, "stats_at_quiescence": statsSubset(svc.Name, st)})
		}
		if !sc.stop {
			s.StopProc(svc.Name, 15*time.Second)
		}
		cl.Close()
	}
}

func c20TCP(r *ev.Run, s *sutc.SUT, rnd *rand.Rand, round int) {
	type scen struct {
		name string
		run  func(svc *TCPSvc, bs []*tcpsim.Backend) map[string]interface{}
		opts TCPOpts
		stop bool
	}
	echoOnce := func(addr string, n int) bool {
		c, err := net.DialTimeout("tcp", addr, 2*time.Second)
		if err != nil {
			return false
		}
		defer c.Close()
		msg := make([]byte, n)
		for i := range msg {
			msg[i] = byte(i)
		}
		c.Write(msg)
		buf := make([]byte, n)
		c.SetReadDeadline(time.Now().Add(5 * time.Second))
		got := 0
		for got < n {
			k, err := c.Read(buf[got:])
			if err != nil {
				return false
			}
			got += k
		}
		return true
	}
	scens := []scen{
		{name: "tcp-normal", run: func(svc *TCPSvc, bs []*tcpsim.Backend) map[string]interface{} {
			n := 3 + rnd.Intn(20)
			var wg sync.WaitGroup
			for i := 0; i < n; i++ {
				wg.Add(1)
				go func() { defer wg.Done(); echoOnce(svc.Addr, 100+rnd.Intn(40000)) }()
			}
			wg.Wait()
			return map[string]interface{}{"connections": n}
		}},
		{name: "tcp-dial-failures", run: func(svc *TCPSvc, bs []*tcpsim.Backend) map[string]interface{} {
			for _, b := range bs {
				b.Close() // connects are refused now
			}
			for i := 0; i < 6; i++ {
				echoOnce(svc.Addr, 10)
			}
			return nil
		}},
		{name: "tcp-host-flapping-under-arriving-connections", run: func(svc *TCPSvc, bs []*tcpsim.Backend) map[string]interface{} {
			// one of the two hosts is removed and added again in a loop while connections arrive: removals land at every point of a
			// connection's life, also between the selection of the host and the end of the dial
			stop := make(chan struct{})
			var wg sync.WaitGroup
			var conns int64
			for g := 0; g < 16; g++ {
				wg.Add(1)
				go func() {
					defer wg.Done()
					for {
						select {
						case <-stop:
							return
						default:
						}
						echoOnce(svc.Addr, 10)
						atomic.AddInt64(&conns, 1)
					}
				}()
			}
			hs := []sutc.Host{{Addr: bs[0].Addr}}
			flaps := 0
			for ; flaps < 20000 && atomic.LoadInt64(&conns) < 15000; flaps++ {
				s.HostOp("host_remove", svc.Name, hs)
				s.HostOp("host_add", svc.Name, hs)
			}
			close(stop)
			wg.Wait()
			return map[string]interface{}{"flaps": flaps, "connections": atomic.LoadInt64(&conns)}
		}},
		{name: "tcp-host-removed-with-open-connections", run: func(svc *TCPSvc, bs []*tcpsim.Backend) map[string]interface{} {
			var open []net.Conn
			for i := 0; i < 5; i++ {
				c, err := net.DialTimeout("tcp", svc.Addr, 2*time.Second)
				if err == nil {
					c.Write([]byte("x"))
					open = append(open, c)
				}
			}
			time.Sleep(30 * time.Millisecond)
			var hs []sutc.Host
			for _, b := range bs {
				hs = append(hs, sutc.Host{Addr: b.Addr})
			}
			s.HostOp("host_remove", svc.Name, hs[:1])
			time.Sleep(50 * time.Millisecond)
			for _, c := range open {
				c.Close()
			}
			return nil
		}},
		{name: "tcp-connection-limit", opts: TCPOpts{ConnLimit: 2}, run: func(svc *TCPSvc, bs []*tcpsim.Backend) map[string]interface{} {
			var open []net.Conn
			for i := 0; i < 6; i++ {
				c, err := net.DialTimeout("tcp", svc.Addr, 2*time.Second)
				if err == nil {
					open = append(open, c)
				}
				time.Sleep(5 * time.Millisecond)
			}
			for _, c := range open {
				c.Close()
			}
			return nil
		}},
		{name: "tcp-stop-with-open-connections", stop: true, run: func(svc *TCPSvc, bs []*tcpsim.Backend) map[string]interface{} {
			n := 1 + rnd.Intn(4)
			for i := 0; i < n; i++ {
				c, err := net.DialTimeout("tcp", svc.Addr, 2*time.Second)
				if err == nil {
					c.Write([]byte("hello"))
					defer c.Close()
				}
			}
			time.Sleep(30 * time.Millisecond)
			return map[string]interface{}{"open_connections": n}
		}},
	}
	for _, sc := range scens {
		if only := os.Getenv("VERIF_C20_ONLY"); only != "" && sc.name != only {
			continue
		}
		var bs []*tcpsim.Backend
		var hs []sutc.Host
		for i := 0; i < 2; i++ {
			b, err := tcpsim.NewBackend(nil)
			if err != nil {
				r.Internal("backend: %v", err)
				return
			}
			bs = append(bs, b)
			hs = append(hs, sutc.Host{Addr: b.Addr})
		}
		svc, err := startTCPSvc(s, hs, sc.opts)
		if err != nil {
			r.Internal("%v", err)
			return
		}
		detail := sc.run(svc, bs)
		if sc.stop {
			if err := s.StopProc(svc.Name, 15*time.Second); err != nil {
				r.Inconclusive("stop-did-not-return:" + sc.name)
				continue
			}
		}
		judgeQuiescent(r, s, svc.Name, sc.name, detail)
		if !sc.stop {
			s.StopProc(svc.Name, 15*time.Second)
		}
		for _, b := range bs {
			b.Close()
		}
	}
}
