package main

import (
	"fmt"
	"math/rand"
	"regexp"
	"sort"
	"strconv"
	"strings"
	"sync"
	"sync/atomic"
	"time"

	"github.com/samaritan-proxy/samaritan/proc/redis/hotkey"

	"verif/internal/ev"
	"verif/internal/fakecluster"
	"verif/internal/resp"
)

func init() {
	register(&Check{ID: "C19", Level: "exploration", Drive: c19})
	apiParts["C19/counter"] = c19Counter
	apiParts["C19/exhaustive"] = c19Exhaustive
	apiParts["C19/concurrent"] = c19Concurrent
	apiParts["C19/collector"] = c19Collector
}

type hkOp struct {
	Kind string // incr, latch, free
	Key  string
}

func (o hkOp) String() string {
	if o.Kind == "incr" {
		return o.Key
	}
	return "<" + o.Kind + ">"
}

// replay applies ops to a fresh counter and returns the tracked state (by a final, destructive Latch).
func hkReplay(capacity uint8, ops []hkOp) map[string]uint64 {
	c := hotkey.NewCounter(capacity, nil)
	for _, o := range ops {
		switch o.Kind {
		case "incr":
			c.Incr(o.Key)
		case "latch":
			c.Latch()
		case "free":
			c.Free()
		}
	}
	return c.Latch()
}

func minCount(m map[string]uint64) uint64 {
	var min uint64 = 1<<63 - 1
	for _, v := range m {
		if v < min {
			min = v
		}
	}
	return min
}

func c19Counter(r *ev.Run) {
	rnd := rand.New(rand.NewSource(r.Seed))
	nseq := 400
	if r.Tier == "thorough" {
		nseq = 6000
	}
	caps := []uint8{1, 2, 3, 8, 50, 255}
	for si := 0; si < nseq; si++ {
		capacity := caps[rnd.Intn(len(caps))]
		if si%40 == 39 {
			capacity = 0
		}
		alpha := 1 + rnd.Intn(40)
		dist := []string{"uniform", "zipf", "roundrobin-cap+1"}[rnd.Intn(3)]
		if dist == "roundrobin-cap+1" {
			alpha = int(capacity) + 1
		}
		n := 5 + rnd.Intn(120)
		if capacity >= 50 {
			n = 100 + rnd.Intn(200)
			if rnd.Intn(2) == 0 {
				alpha = int(capacity) + rnd.Intn(20)
			}
		}
		zipf := rand.NewZipf(rnd, 1.3, 1, uint64(alpha-1+1))
		ops := make([]hkOp, 0, n)
		for i := 0; i < n; i++ {
			switch x := rnd.Intn(60); {
			case x == 0:
				ops = append(ops, hkOp{Kind: "latch"})
			case x == 1:
				ops = append(ops, hkOp{Kind: "free"})
			default:
				var k int
				switch dist {
				case "uniform":
					k = rnd.Intn(alpha)
				case "zipf":
					k = int(zipf.Uint64()) % alpha
				default:
					k = i % alpha
				}
				ops = append(ops, hkOp{Kind: "incr", Key: "k" + strconv.Itoa(k)})
			}
		}
		r.Checkpoint(map[string]interface{}{"phase": "counter", "capacity": capacity, "ops": opStrings(ops)})
		class := fmt.Sprintf("cap%d/%s", capacity, dist)
		if capacity == 0 {
			// a counter that can track nothing must track nothing (and not crash)
			if s := hkReplay(0, ops); len(s) != 0 {
				r.Violation("C19:capacity-0-tracks-keys", "a counter of capacity 0 tracks keys", map[string]interface{}{"ops": opStrings(ops), "tracked": s})
			}
			r.Case("counter/" + class)
			continue
		}
		prev := map[string]uint64{}
		witness := func(i int, cur map[string]uint64) map[string]interface{} {
			return map[string]interface{}{"capacity": capacity, "ops_prefix": opStrings(ops[:i+1]), "state_before": prev, "state_after": cur}
		}
		for i := range ops {
			cur := hkReplay(capacity, ops[:i+1])
			o := ops[i]
			switch o.Kind {
			case "latch", "free":
				if len(cur) != 0 {
					r.Violation("C19:not-reset-by-"+o.Kind, "the counter still tracks keys after "+o.Kind, witness(i, cur))
				}
			default:
				if len(cur) > int(capacity) {
					r.Violation("C19:counter-over-capacity", fmt.Sprintf("the counter tracks %d keys, capacity %d", len(cur), capacity), witness(i, cur))
				}
				if pv, ok := prev[o.Key]; ok {
					exp := copyMap(prev)
					exp[o.Key] = pv + 1
					if !sameMap(exp, cur) {
						r.Violation("C19:tracked-count-not-exact", "an access to a tracked key did not add exactly 1 to its count and leave the others alone", witness(i, cur))
					}
				} else if len(prev) < int(capacity) {
					exp := copyMap(prev)
					exp[o.Key] = 1
					if !sameMap(exp, cur) {
						r.Violation("C19:admission-wrong", "admitting a new key into a counter with free capacity did not yield S + {k:1}", witness(i, cur))
					}
				} else {
					// full: exactly one key with the lowest count left, k admitted with count 1
					var gone []string
					for k := range prev {
						if _, ok := cur[k]; !ok {
							gone = append(gone, k)
						}
					}
					okStep := len(gone) == 1 && cur[o.Key] == 1 && len(cur) == len(prev)
					if okStep {
						for k, v := range prev {
							if k != gone[0] && cur[k] != v {
								okStep = false
							}
						}
					}
					if !okStep {
						r.Violation("C19:eviction-wrong-shape", "admitting a key into a full counter did not evict exactly one key and admit the new one with count 1", witness(i, cur))
					} else if prev[gone[0]] != minCount(prev) {
						r.Violation("C19:evicted-not-lowest", fmt.Sprintf("evicted %q with count %d while the lowest count is %d", gone[0], prev[gone[0]], minCount(prev)), witness(i, cur))
					} else {
						r.Count("evictions_observed", 1)
					}
				}
			}
			prev = cur
		}
		r.Case("counter/" + class)
		r.Count("counter_steps", int64(len(ops)))
		if si == 0 {
			r.Sample(map[string]interface{}{"capacity": capacity, "distribution": dist, "ops": opStrings(ops), "final_state": prev})
		}
	}
	r.Require("evictions_observed", 200)
}

// c19Exhaustive enumerates every access sequence up to a length bound over at most maxKeys keys, up to renaming of the keys
// (restricted growth strings: the next new key is always the next unused name), and judges the last step of each sequence by the
// same step relation as c19Counter (all earlier steps are the last step of a shorter enumerated sequence).
func c19Exhaustive(r *ev.Run) {
	type bound struct {
		capacity uint8
		maxKeys  int
		maxLen   int
	}
	bounds := []bound{{1, 3, 10}, {2, 4, 11}, {3, 4, 12}, {3, 5, 11}, {4, 5, 11}}
	if r.Tier == "thorough" {
		bounds = []bound{{1, 3, 13}, {2, 4, 13}, {3, 4, 14}, {3, 5, 13}, {4, 5, 13}, {4, 6, 12}, {5, 6, 12}}
	}
	for _, b := range bounds {
		seqs := int64(0)
		stop := false
		var rec func(seq []hkOp, used int, prev map[string]uint64)
		rec = func(seq []hkOp, used int, prev map[string]uint64) {
			if len(seq) == b.maxLen || stop {
				return
			}
			for k := 0; k <= used && k < b.maxKeys; k++ {
				key := string(rune('A' + k))
				next := append(seq[:len(seq):len(seq)], hkOp{Kind: "incr", Key: key})
				cur := hkReplay(b.capacity, next)
				seqs++
				problem, what := "", ""
				if pv, ok := prev[key]; ok {
					exp := copyMap(prev)
					exp[key] = pv + 1
					if !sameMap(exp, cur) {
						problem, what = "C19:tracked-count-not-exact", "an access to a tracked key did not add exactly 1 to its count and leave the others alone"
					}
				} else if len(prev) < int(b.capacity) {
					exp := copyMap(prev)
					exp[key] = 1
					if !sameMap(exp, cur) {
						problem, what = "C19:admission-wrong", "admitting a new key into a counter with free capacity did not yield S + {k:1}"
					}
				} else {
					var gone []string
					for pk := range prev {
						if _, ok := cur[pk]; !ok {
							gone = append(gone, pk)
						}
					}
					okStep := len(gone) == 1 && cur[key] == 1 && len(cur) == len(prev)
					if okStep {
						for pk, v := range prev {
							if pk != gone[0] && cur[pk] != v {
								okStep = false
							}
						}
					}
					if !okStep {
						problem, what = "C19:eviction-wrong-shape", "admitting a key into a full counter did not evict exactly one key and admit the new one with count 1"
					} else if prev[gone[0]] != minCount(prev) {
						problem, what = "C19:evicted-not-lowest", fmt.Sprintf("evicted %q with count %d while the lowest count is %d", gone[0], prev[gone[0]], minCount(prev))
					}
				}
				if problem != "" {
					r.Violation(problem, what+" (shortest sequences are enumerated first along each branch)", map[string]interface{}{"capacity": b.capacity, "ops_prefix": opStrings(next), "state_before": prev, "state_after": cur, "enumeration": fmt.Sprintf("all sequences over <= %d keys up to length %d", b.maxKeys, b.maxLen)})
					stop = true
					return
				}
				nu := used
				if k == used {
					nu++
				}
				rec(next, nu, cur)
			}
		}
		rec(nil, 0, map[string]uint64{})
		r.Cases(int(seqs), fmt.Sprintf("counter-exhaustive/cap%d/keys%d/len%d", b.capacity, b.maxKeys, b.maxLen))
		r.Count("exhaustive_sequences_judged", seqs)
	}
	r.Require("exhaustive_sequences_judged", 100000)
}

func opStrings(ops []hkOp) string {
	s := make([]string, len(ops))
	for i, o := range ops {
		s[i] = o.String()
	}
	return strings.Join(s, " ")
}

func copyMap(m map[string]uint64) map[string]uint64 {
	o := make(map[string]uint64, len(m)+1)
	for k, v := range m {
		o[k] = v
	}
	return o
}

func sameMap(a, b map[string]uint64) bool {
	if len(a) != len(b) {
		return false
	}
	for k, v := range a {
		if b[k] != v {
			return false
		}
	}
	return true
}

// c19Concurrent: writers + latchers; each access lands in exactly one latch window.
func c19Concurrent(r *ev.Run) {
	rounds := 60
	if r.Tier == "thorough" {
		rounds = 800
	}
	rnd := rand.New(rand.NewSource(r.Seed + 1))
	for ri := 0; ri < rounds; ri++ {
		alpha := 1 + rnd.Intn(20)
		capacity := uint8(alpha + rnd.Intn(10))
		small := ri%3 == 0
		if small {
			capacity = uint8(1 + rnd.Intn(alpha))
		}
		c := hotkey.NewCounter(capacity, nil)
		nw := 2 + rnd.Intn(4)
		per := 200 + rnd.Intn(800)
		var calls [64]int64
		var sums [64]uint64
		var smu sync.Mutex
		var wg sync.WaitGroup
		stop := make(chan struct{})
		overCap := int64(0)
		latches := int64(0)
		var lwg sync.WaitGroup
		for l := 0; l < 2; l++ {
			lwg.Add(1)
			go func() {
				defer lwg.Done()
				for {
					select {
					case <-stop:
						return
					default:
					}
					m := c.Latch()
					atomic.AddInt64(&latches, 1)
					if len(m) > int(capacity) {
						atomic.AddInt64(&overCap, 1)
					}
					smu.Lock()
					for k, v := range m {
						i, _ := strconv.Atoi(k[1:])
						sums[i] += v
					}
					smu.Unlock()
					time.Sleep(time.Duration(50+len(m)) * time.Microsecond)
				}
			}()
		}
		for w := 0; w < nw; w++ {
			wg.Add(1)
			go func(w int) {
				defer wg.Done()
				wr := rand.New(rand.NewSource(r.Seed*31 + int64(ri*10+w)))
				for i := 0; i < per; i++ {
					k := wr.Intn(alpha)
					c.Incr("k" + strconv.Itoa(k))
					atomic.AddInt64(&calls[k], 1)
				}
			}(w)
		}
		wg.Wait()
		close(stop)
		lwg.Wait()
		for k, v := range c.Latch() {
			i, _ := strconv.Atoi(k[1:])
			sums[i] += v
		}
		for k := 0; k < alpha; k++ {
			if small {
				if sums[k] > uint64(calls[k]) {
					r.Violation("C19:concurrent-overcount", "a key's latched counts add up to more than its accesses", map[string]interface{}{"key": k, "latched": sums[k], "accesses": calls[k], "capacity": capacity})
				}
			} else if sums[k] != uint64(calls[k]) {
				r.Violation("C19:concurrent-count-lost", "with capacity >= alphabet, a key's latched counts do not add up to its accesses (an access landed in no window or in two)", map[string]interface{}{"key": k, "latched": sums[k], "accesses": calls[k], "capacity": capacity, "latches": latches})
			}
		}
		if overCap > 0 {
			r.Violation("C19:counter-over-capacity", "a latch returned more keys than the capacity", map[string]interface{}{"capacity": capacity})
		}
		r.Count("concurrent_latches", latches)
		r.Case(fmt.Sprintf("concurrent/w%d/small=%v", nw, small))
	}
	r.Sample(map[string]interface{}{"concurrent_rounds": rounds})
}

type hkReport struct {
	Name  string
	Value int
}

// reportProblems applies the four assertions of the statement to a HOTKEY report.
func reportProblems(rep []hkReport, capacity int, accessed func(string) bool) []string {
	var p []string
	if len(rep) > capacity {
		p = append(p, fmt.Sprintf("over-capacity: lists %d keys, capacity %d", len(rep), capacity))
	}
	seen := map[string]bool{}
	for i, k := range rep {
		if seen[k.Name] {
			p = append(p, "duplicate: key "+k.Name+" listed twice")
		}
		seen[k.Name] = true
		if i > 0 && rep[i-1].Value < k.Value {
			p = append(p, fmt.Sprintf("unsorted: heat %d before %d", rep[i-1].Value, k.Value))
		}
		if !accessed(k.Name) {
			p = append(p, "phantom: key "+k.Name+" was never accessed")
		}
	}
	return p
}

func snapshotReport(keys []hotkey.HotKey) []hkReport {
	out := make([]hkReport, len(keys))
	for i, k := range keys {
		out[i] = hkReport{Name: k.Name, Value: int(k.Counter.Value())}
	}
	return out
}

// c19Collector drives the collector with manual collect / evict and a virtual minute clock.
func c19Collector(r *ev.Run) {
	rnd := rand.New(rand.NewSource(r.Seed + 2))
	var clock int64 = 1000
	var tickEvery int64 // the virtual clock advances every n-th read (also in the middle of one collect)
	var reads int64
	hotkey.VerifSetClock(func() int64 {
		n := atomic.AddInt64(&reads, 1)
		if te := atomic.LoadInt64(&tickEvery); te > 0 && n%te == 0 {
			return atomic.AddInt64(&clock, 1)
		}
		return atomic.LoadInt64(&clock)
	})
	runs := 150
	if r.Tier == "thorough" {
		runs = 2500
	}
	for ri := 0; ri < runs; ri++ {
		capacity := []uint8{1, 2, 3, 5, 8, 50, 254, 255}[rnd.Intn(8)]
		col := hotkey.NewCollector(capacity)
		ncnt := 1 + rnd.Intn(4)
		counters := make([]*hotkey.Counter, ncnt)
		for i := range counters {
			counters[i] = col.AllocCounter(fmt.Sprintf("backend%d", i))
		}
		var amu sync.Mutex
		accessed := map[string]bool{}
		isAccessed := func(k string) bool { amu.Lock(); defer amu.Unlock(); return accessed[k] }
		atomic.StoreInt64(&tickEvery, int64([]int{0, 0, 3, 7, 50}[rnd.Intn(5)]))
		concurrentReaders := ri%2 == 0
		stop := make(chan struct{})
		var rwg sync.WaitGroup
		var trace []string
		if concurrentReaders {
			for g := 0; g < 2; g++ {
				rwg.Add(1)
				go func() {
					defer rwg.Done()
					for {
						select {
						case <-stop:
							return
						default:
						}
						rep := snapshotReport(col.HotKeys())
						for _, p := range reportProblems(rep, int(capacity), isAccessed) {
							r.Violation("C19:report-"+strings.SplitN(p, ":", 2)[0]+":concurrent-reader", "a HOTKEY reader running concurrently with collection saw a report that is "+p,
								map[string]interface{}{"capacity": capacity, "report": rep})
						}
						r.Count("concurrent_reader_samples", 1)
					}
				}()
			}
		}
		steps := 10 + rnd.Intn(40)
		alpha := 2 + rnd.Intn(30)
		if capacity > 200 {
			alpha = 200 + rnd.Intn(400) // more distinct keys than the largest capacity can hold
		}
		// reports a reader still holds: HOTKEY walks the slice it was given without any lock, so a report that has been handed
		// out must never change afterwards (the deterministic form of "a reader preempted in the middle of formatting")
		type heldReport struct {
			keys []hotkey.HotKey
			was  []hkReport
			at   int
		}
		var held []heldReport
		for st := 0; st < steps; st++ {
			switch x := rnd.Intn(10); {
			case x < 5:
				n := 1 + rnd.Intn(300)
				if capacity > 200 {
					n += 2000
				}
				ci := rnd.Intn(ncnt)
				for i := 0; i < n; i++ {
					k := "key" + strconv.Itoa(rnd.Intn(alpha)%(1+rnd.Intn(alpha)))
					if capacity > 200 && i%2 == 0 {
						k = fmt.Sprintf("b%d.key%d", ci, rnd.Intn(alpha)) // every backend has its own hot keys: the merged report overflows
					}
					amu.Lock()
					accessed[k] = true
					amu.Unlock()
					counters[ci].Incr(k)
				}
				trace = append(trace, fmt.Sprintf("access x%d on backend%d", n, ci))
			case x < 8:
				col.VerifCollect()
				trace = append(trace, fmt.Sprintf("collect@%d", atomic.LoadInt64(&clock)))
			case x == 8:
				if rnd.Intn(2) == 0 {
					atomic.AddInt64(&clock, int64(1+rnd.Intn(3)))
				}
				col.VerifEvictStale()
				trace = append(trace, fmt.Sprintf("evict@%d", atomic.LoadInt64(&clock)))
			default:
				ci := rnd.Intn(ncnt)
				counters[ci].Free()
				counters[ci] = col.AllocCounter(fmt.Sprintf("backend%d", ci))
				trace = append(trace, fmt.Sprintf("free backend%d", ci))
			}
			rep := snapshotReport(col.HotKeys())
			for _, p := range reportProblems(rep, int(capacity), isAccessed) {
				r.Violation("C19:report-"+strings.SplitN(p, ":", 2)[0], "after a step the HOTKEY report is "+p,
					map[string]interface{}{"capacity": capacity, "report": rep, "trace": trace, "clock_ticks_every_n_reads": atomic.LoadInt64(&tickEvery)})
			}
			r.Count("collector_steps", 1)
			if len(rep) > 1 {
				r.Count("reports_with_several_keys", 1)
			}
			for _, h := range held {
				now := snapshotReport(h.keys)
				same := len(now) == len(h.was)
				for i := 0; same && i < len(now); i++ {
					same = now[i] == h.was[i]
				}
				if !same {
					r.Violation("C19:held-report-changed", "a report handed out earlier changed under its reader (the reader walks it without a lock): "+strings.Join(reportProblems(now, int(capacity), isAccessed), "; "),
						map[string]interface{}{"capacity": capacity, "handed_out_after_step": h.at, "report_then": h.was, "report_now": now, "trace": trace, "clock_ticks_every_n_reads": atomic.LoadInt64(&tickEvery)})
				}
				r.Count("held_reports_rechecked", 1)
			}
			if keys := col.HotKeys(); len(keys) > 0 {
				held = append(held, heldReport{keys, snapshotReport(keys), st})
				if len(held) > 4 {
					held = held[1:]
				}
			}
		}
		close(stop)
		rwg.Wait()
		r.Case(fmt.Sprintf("collector/cap%d/n%d/tick%d/readers=%v", capacity, ncnt, atomic.LoadInt64(&tickEvery), concurrentReaders))
		if ri == 0 {
			r.Sample(map[string]interface{}{"collector_capacity": capacity, "counters": ncnt, "trace": trace, "final_report": snapshotReport(col.HotKeys())})
		}
	}
	r.Require("reports_with_several_keys", 100)
	r.Require("held_reports_rechecked", 500)
}

var hotkeyLine = regexp.MustCompile(`^counter: (\d+)  keyname: (.*)$`)

func c19(r *ev.Run) {
	r.Rule("counter: PRNG access sequences (uniform / zipf / round-robin over capacity+1 keys) with latches and frees on capacities {0,1,2,3,8,50,255}, every prefix replayed on a fresh counter and consecutive snapshots judged by the step relation; every access sequence up to renaming over <= capacity+1 (+2) keys up to length 10-12 (12-14 thorough) for capacities 1-4 (5), judged by the same relation; concurrent writers and latchers; collector: PRNG sequences of accesses / collect / evict / free over 1-4 per-backend counters with a virtual minute clock that also ticks in the middle of a collect, with and without concurrent HOTKEY readers, the last four handed-out reports re-read after every step (a handed-out report must not change); end to end: HOTKEY reply of the real proxy parsed while GET traffic is mixed with EVAL / SCAN in every letter case (their first argument is not a key); distinct = distinct (capacity, distribution) / (capacity, counters, tick mode, readers) tuples")
	r.Assume("the tracked state after a prefix is observed by replaying the prefix on a fresh counter and latching (Latch is destructive)")
	runAPIPart(r, "counter", false, nil, 10*time.Minute)
	runAPIPart(r, "exhaustive", false, nil, 20*time.Minute)
	scope := []string{"proc/redis/hotkey/counter.go", "proc/redis/hotkey/collector.go"}
	runAPIPart(r, "concurrent", true, scope, 10*time.Minute)
	runAPIPart(r, "collector", true, scope, 10*time.Minute)
	c19EndToEnd(r)
}

func c19EndToEnd(r *ev.Run) {
	s, err := startSUT(r, false, 60000, 20)
	if err != nil {
		r.Internal("start sut: %v", err)
		return
	}
	defer s.Close()
	if err := s.HotkeyIntervals(20, 200); err != nil {
		r.Internal("hotkey intervals: %v", err)
		return
	}
	cl, err := fakecluster.New(3, 0)
	if err != nil {
		r.Internal("fakecluster: %v", err)
		return
	}
	defer cl.Close()
	cl.AssignContiguous()
	cl.LogArgs = false
	svc, err := startRedisSvc(s, cl, cl.Addrs(), RedisOpts{})
	if err != nil {
		r.Internal("%v", err)
		return
	}
	svc.WaitRouting(1, 10*time.Second)
	var amu sync.Mutex
	accessed := map[string]bool{}
	var wg sync.WaitGroup
	stop := make(chan struct{})
	for c := 0; c < 4; c++ {
		wg.Add(1)
		go func(c int) {
			defer wg.Done()
			conn, err := svc.Dial()
			if err != nil {
				return
			}
			defer conn.Close()
			crnd := rand.New(rand.NewSource(r.Seed + int64(c)))
			for {
				select {
				case <-stop:
					return
				default:
				}
				k := fmt.Sprintf("hot%d", crnd.Intn(1+crnd.Intn(120)))
				if crnd.Intn(5) == 0 {
					// forwarded commands whose first argument is not a key, in every letter case: nothing of them may be reported
					switch crnd.Intn(4) {
					case 0:
						conn.DoS(5*time.Second, []string{"EVAL", "eval", "Eval", "eVAL"}[crnd.Intn(4)], "return 'c19-script-body'", "0")
					case 1:
						conn.DoS(5*time.Second, []string{"SCAN", "scan", "Scan", "sCAN"}[crnd.Intn(4)], "0")
					case 2:
						conn.DoS(5*time.Second, []string{"SCAN", "Scan"}[crnd.Intn(2)], "0", "COUNT", "10")
					default:
						conn.DoS(5*time.Second, []string{"EVAL", "Eval"}[crnd.Intn(2)], "return redis.call('get', KEYS[1])", "1", k)
					}
					r.Count("e2e_keyless_commands_sent", 1)
					continue
				}
				amu.Lock()
				accessed[k] = true
				amu.Unlock()
				conn.DoS(5*time.Second, "GET", k)
			}
		}(c)
	}
	conn, err := svc.Dial()
	if err != nil {
		r.Internal("dial: %v", err)
		return
	}
	n := 150
	if r.Tier == "thorough" {
		n = 1500
	}
	for i := 0; i < n; i++ {
		v, err := conn.DoS(5*time.Second, "HOTKEY")
		if err != nil || v.Kind != resp.Bulk {
			if sutDied(r, s, "HOTKEY") {
				break
			}
			r.Violation("C19:e2e-hotkey-no-reply", "HOTKEY did not return a bulk reply", map[string]interface{}{"reply": v.String()})
			break
		}
		lines := strings.Split(string(v.Str), "\n")
		var rep []hkReport
		for _, l := range lines[1:] {
			m := hotkeyLine.FindStringSubmatch(l)
			if m == nil {
				continue
			}
			val, _ := strconv.Atoi(m[1])
			rep = append(rep, hkReport{Name: m[2], Value: val})
		}
		for _, p := range reportProblems(rep, 50, func(k string) bool { amu.Lock(); defer amu.Unlock(); return accessed[k] }) {
			r.Violation("C19:report-"+strings.SplitN(p, ":", 2)[0]+":e2e", "the HOTKEY reply of the proxy is "+p, map[string]interface{}{"reply": string(v.Str)})
		}
		if len(rep) > 1 {
			r.Count("e2e_reports_with_several_keys", 1)
		}
		if i == n-1 {
			r.Sample(map[string]interface{}{"e2e_hotkey_reply_head": strings.Join(lines[:min(4, len(lines))], " | "), "keys_listed": len(rep)})
		}
		time.Sleep(2 * time.Millisecond)
	}
	close(stop)
	wg.Wait()
	conn.Close()
	r.Cases(n, "e2e/hotkey-replies")
	r.Require("e2e_reports_with_several_keys", 20)
	r.Require("e2e_keyless_commands_sent", 50)
	sortStrings(nil)
	_ = sort.Strings
}
