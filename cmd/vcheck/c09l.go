package main

import (
	"fmt"
	"io"
	"net"
	"strings"
	"sync/atomic"
	"time"

	"github.com/samaritan-proxy/samaritan/logger"
	"github.com/samaritan-proxy/samaritan/pb/common"
	"github.com/samaritan-proxy/samaritan/pb/config/service"
	"github.com/samaritan-proxy/samaritan/proc"
	"github.com/samaritan-proxy/samaritan/stats"
	"github.com/samaritan-proxy/samaritan/utils/vhook"

	"verif/internal/ev"
)

func init() {
	apiParts["C09/listener"] = c09Listener
}

// c09Listener drives the public listener on its own, with a handler that serves a connection until it is closed
// (what both processors rely on), through the pause points directly.
func c09Listener(r *ev.Run) {
	reps := 6
	if r.Tier == "thorough" {
		reps = 60
	}
	var seq int64
	for rep := 0; rep < reps; rep++ {
		for _, placement := range []string{"conn-accepted-not-registered", "immediately", "after-bind-before-publish", "serving"} {
			for _, action := range []string{"stop", "drain-then-stop"} {
				port := freePort()
				addr := fmt.Sprintf("127.0.0.1:%d", port)
				cfg := &service.Listener{Address: &common.Address{Ip: "127.0.0.1", Port: uint32(port)}}
				st := proc.NewDownstreamStats(stats.CreateScope(fmt.Sprintf("c09l.%d.", atomic.AddInt64(&seq, 1))))
				var handled int64
				l, err := proc.NewListener(cfg, st, logger.Get(), func(c net.Conn) {
					atomic.AddInt64(&handled, 1)
					io.Copy(io.Discard, c) // until somebody closes the connection
				})
				if err != nil {
					r.Internal("NewListener: %v", err)
					return
				}
				r.Checkpoint(map[string]interface{}{"phase": "listener", "placement": placement, "action": action})
				hook := ""
				switch placement {
				case "conn-accepted-not-registered":
					hook = "listener.conn.before_register"
				case "after-bind-before-publish":
					hook = "listener.serve.after_bind"
				}
				if hook == "listener.serve.after_bind" {
					vhook.Arm(hook, vhook.Action{Mode: "park", Times: 1})
				}
				served := make(chan struct{})
				go func() { l.Serve(); close(served) }()
				var client net.Conn
				if placement == "serving" || placement == "conn-accepted-not-registered" {
					for i := 0; i < 400; i++ {
						if c, err := net.DialTimeout("tcp", addr, time.Second); err == nil {
							c.Close()
							break
						}
						time.Sleep(5 * time.Millisecond)
					}
					time.Sleep(20 * time.Millisecond)
					if hook == "listener.conn.before_register" {
						vhook.Arm(hook, vhook.Action{Mode: "park", Times: 1})
					}
					client, _ = net.DialTimeout("tcp", addr, time.Second)
				}
				if hook != "" {
					deadline := time.Now().Add(3 * time.Second)
					for vhook.Parked(hook) < 1 && time.Now().Before(deadline) {
						time.Sleep(time.Millisecond)
					}
					if vhook.Parked(hook) < 1 {
						vhook.Release(hook)
						r.Inconclusive("listener-hook-not-reached:" + hook)
						l.Stop()
						continue
					}
				}
				stopped := make(chan struct{})
				go func() {
					if action == "drain-then-stop" {
						l.Drain()
					}
					l.Stop()
					close(stopped)
				}()
				if hook != "" {
					time.Sleep(50 * time.Millisecond)
					vhook.Release(hook)
				}
				w := map[string]interface{}{"placement": placement, "action": action}
				select {
				case <-stopped:
				case <-time.After(6 * time.Second):
					s1 := allStacks()
					time.Sleep(300 * time.Millisecond)
					s2 := allStacks()
					if strings.Contains(s1, "proc.(*listener).Stop") && strings.Contains(s2, "proc.(*listener).Stop") {
						w["stacks"] = extractStacks(s2, "proc.(*listener)", 4)
						r.Violation("C09:listener-stop-hangs:"+placement, "listener Stop did not return within 6 s (parked in two stack dumps 300 ms apart)", w)
					} else {
						r.Inconclusive("listener-stop-slow")
					}
					if client != nil {
						client.Close() // let it finish
					}
					<-stopped
					continue
				}
				select {
				case <-served:
				case <-time.After(3 * time.Second):
					r.Violation("C09:listener-serve-never-returns:"+placement, "Serve is still running 3 s after Stop returned", w)
				}
				if client != nil {
					client.SetReadDeadline(time.Now().Add(3 * time.Second))
					var b [1]byte
					if _, err := client.Read(b[:]); err != nil {
						if ne, ok := err.(net.Error); ok && ne.Timeout() {
							r.Violation("C09:listener-connection-left-open:"+placement, "a connection accepted before Stop is still open 3 s after Stop returned", w)
						}
					}
					client.Close()
				}
				if g := st.CxActive.Value(); g != 0 {
					w["cx_active"] = g
					r.Violation("C09:listener-active-gauge:"+placement, "the active-connection gauge is not zero after Stop", w)
				}
				r.Case(fmt.Sprintf("listener/%s/%s", placement, action))
				r.Count("listener_placements_judged", 1)
			}
		}
	}
}
