package main

import (
	"bytes"
	"fmt"
	"math/rand"
	"sync"
	"time"
	"verif/internal/fakecluster"
	"verif/internal/resp"

	sredis "github.com/samaritan-proxy/samaritan/proc/redis"

	"verif/internal/ev"
)

// refCRC16 is CRC16/XMODEM computed bit by bit (poly 0x1021, init 0, no reflection).
func refCRC16(b []byte) uint16 {
	var crc uint16
	for _, c := range b {
		crc ^= uint16(c) << 8
		for i := 0; i < 8; i++ {
			if crc&0x8000 != 0 {
				crc = crc<<1 ^ 0x1021
			} else {
				crc <<= 1
			}
		}
	}
	return crc
}

// refHashTag is the Redis Cluster specification's hash tag rule.
func refHashTag(key []byte) []byte {
	s := bytes.IndexByte(key, '{')
	if s < 0 {
		return key
	}
	e := bytes.IndexByte(key[s+1:], '}')
	if e <= 0 { // no '}' after, or empty tag
		return key
	}
	return key[s+1 : s+1+e]
}

func refSlot(key []byte) int { return int(refCRC16(refHashTag(key)) % 16384) }

func init() {
	register(&Check{ID: "C12", Level: "exploration", API: c12,
		APITimeout: map[string]time.Duration{"quick": 3 * time.Minute, "thorough": 15 * time.Minute}})
}

func c12(r *ev.Run) {
	r.Rule("keys enumerated exhaustively (all byte strings of length 0-3; all strings of length <=9 over {'{','}','a','b'}) plus PRNG binary keys with injected braces; distinct = distinct (CRC register state, next byte) transitions exercised + distinct hash-tag shapes (positions of first '{' and first following '}')")
	r.Assume("reference = bitwise CRC16/XMODEM and the specification's tag rule written in the harness, anchored by published vectors")
	// the oracle itself against published vectors
	vec := []struct {
		k string
		v int
	}{{"123456789", 0x31C3}, {"foo", 12182}, {"bar", 5061}}
	if refCRC16([]byte("123456789")) != 0x31C3 || refSlot([]byte("foo")) != 12182 || refSlot([]byte("bar")) != 5061 ||
		refSlot([]byte("{user1000}.following")) != refSlot([]byte("{user1000}.followers")) || refSlot([]byte("foo{}{bar}")) != refSlot([]byte("foo{}{bar}")) {
		r.Internal("reference CRC disagrees with published vectors")
		return
	}
	_ = vec
	check := func(key []byte, class string) bool {
		want := refSlot(key)
		got := sredis.VerifKeySlot(key)
		if got != want {
			r.Violation("C12:slot-mismatch:"+class, fmt.Sprintf("key %q routed by slot %d, specification says %d", key, got, want),
				map[string]interface{}{"key_hex": fmt.Sprintf("%x", key), "got": got, "want": want})
			return false
		}
		if rs := sredis.VerifRouteSlot(key); rs != want {
			r.Violation("C12:route-mismatch:"+class, fmt.Sprintf("key %q is routed (chooseHost) by slot %d, specification says %d", key, rs, want),
				map[string]interface{}{"key_hex": fmt.Sprintf("%x", key), "got": rs, "want": want})
			return false
		}
		if tag := sredis.VerifHashTag(key); !bytes.Equal(tag, refHashTag(key)) {
			r.Violation("C12:hashtag-mismatch:"+class, fmt.Sprintf("key %q hash tag %q, specification says %q", key, tag, refHashTag(key)),
				map[string]interface{}{"key_hex": fmt.Sprintf("%x", key)})
			return false
		}
		return true
	}

	// (1) all keys of length 0..3; count distinct (state, byte) transitions.
	trans := make([]uint64, (1<<24)/64)
	ntrans := 0
	mark := func(state uint16, b byte) {
		i := uint32(state)<<8 | uint32(b)
		if trans[i/64]&(1<<(i%64)) == 0 {
			trans[i/64] |= 1 << (i % 64)
			ntrans++
		}
	}
	key := make([]byte, 3)
	n := 0
	bad := 0
	check(nil, "enum")
	n++
	for a := 0; a < 256 && bad < 20; a++ {
		key[0] = byte(a)
		if !check(key[:1], "enum") {
			bad++
		}
		n++
		mark(0, byte(a))
		s1 := refCRC16(key[:1])
		for b := 0; b < 256; b++ {
			key[1] = byte(b)
			if !check(key[:2], "enum") {
				bad++
			}
			n++
			mark(s1, byte(b))
			s2 := refCRC16(key[:2])
			for c := 0; c < 256; c++ {
				key[2] = byte(c)
				if !check(key[:3], "enum") {
					bad++
				}
				mark(s2, byte(c))
			}
			n += 256
		}
		if a%32 == 0 {
			r.Checkpoint(fmt.Sprintf("enum3 first byte %d", a))
		}
	}
	r.Cases(n, "")
	r.Count("enum_keys_len_0_3", int64(n))
	r.Count("crc_transitions_exercised", int64(ntrans))
	r.Sample(map[string]interface{}{"key": "\\x00\\x01\\x02", "slot": refSlot([]byte{0, 1, 2})})

	// (2) tag scanner: all strings of length <= 9 over { } a b
	alpha := []byte("{}ab")
	shapes := map[string]struct{}{}
	var rec func(prefix []byte)
	m := 0
	rec = func(prefix []byte) {
		check(prefix, "tag-alphabet")
		m++
		s := bytes.IndexByte(prefix, '{')
		e := -1
		if s >= 0 {
			e = bytes.IndexByte(prefix[s+1:], '}')
		}
		shapes[fmt.Sprintf("%d/%d/%d", len(prefix), s, e)] = struct{}{}
		if len(prefix) == 9 {
			return
		}
		for _, c := range alpha {
			rec(append(prefix, c))
		}
	}
	rec(make([]byte, 0, 16))
	r.Cases(m, "")
	r.Count("tag_alphabet_keys", int64(m))
	r.Count("tag_shapes", int64(len(shapes)))
	r.Sample(map[string]interface{}{"key": "a{}{b}a", "tag": string(refHashTag([]byte("a{}{b}a"))), "slot": refSlot([]byte("a{}{b}a"))})

	// (3) random binary keys with injected braces
	rnd := rand.New(rand.NewSource(r.Seed))
	k := 200000
	if r.Tier == "thorough" {
		k = 10000000
	}
	for i := 0; i < k; i++ {
		l := rnd.Intn(64)
		if rnd.Intn(8) == 0 {
			l = rnd.Intn(513)
		}
		b := make([]byte, l)
		rnd.Read(b)
		for j := rnd.Intn(4); j > 0 && l > 0; j-- {
			b[rnd.Intn(l)] = "{}"[rnd.Intn(2)]
		}
		check(b, "random")
		if i == 0 {
			r.Sample(map[string]interface{}{"key_hex": fmt.Sprintf("%x", b), "slot": refSlot(b)})
		}
		if i%1000000 == 0 {
			r.Checkpoint(fmt.Sprintf("random key #%d", i))
		}
	}
	r.Cases(k, "")
	r.Count("random_keys", int64(k))
	// distinct classes: transitions + shapes (measured)
	r.Set("distinct_breakdown", map[string]int{"crc_transitions": ntrans, "tag_shapes": len(shapes)})
	for s := range shapes {
		r.Distinct("shape:" + s)
	}
	r.Set("crc_transition_space", 1<<24)
	if ntrans == 1<<24 {
		r.Exhaustive()
		r.Set("exhaustive_scope", "every (CRC register state, next byte) transition of the table-driven CRC and every key of length <= 3; every string of length <= 9 over {'{','}','a','b'}")
	}
	r.DistinctN(ntrans)
	r.Require("crc_transitions_exercised", 1<<24)
	r.Require("tag_shapes", 50)
	c12EndToEnd(r)
	r.Require("e2e_requests", 2000)
}

// c12EndToEnd: the same rule observed where it matters - at the nodes. Eight concurrent connections send every keyed request shape
// (key as first argument, EVAL's key after numkeys, per-key children of multi-key requests, inline commands) with PRNG keys (braces,
// binary bytes) to the real proxy in front of eight simulated masters whose table is loaded and stable: a node that receives a key of a
// slot it does not own answers MOVED, so any redirection the nodes log is a request the proxy hashed (or picked the key of) wrongly.
func c12EndToEnd(r *ev.Run) {
	s, err := startSUT(r, false, 600000, 20)
	if err != nil {
		r.Internal("start sut: %v", err)
		return
	}
	defer s.Close()
	cl, err := fakecluster.New(8, 0)
	if err != nil {
		r.Internal("fakecluster: %v", err)
		return
	}
	defer cl.Close()
	rnd := rand.New(rand.NewSource(r.Seed + 1212))
	randomLayout(rnd, cl)
	cl.LogArgs = false
	var mu sync.Mutex
	redirected := map[string]int{}
	var witness map[string]interface{}
	cl.OnEvent = func(e *fakecluster.Event) {
		if e.Outcome == fakecluster.Moved || e.Outcome == fakecluster.Ask {
			mu.Lock()
			redirected[e.Cmd]++
			if witness == nil {
				witness = map[string]interface{}{"command": e.Cmd, "received_by_node": e.Node, "outcome": e.Outcome}
			}
			mu.Unlock()
		}
	}
	svc, err := startRedisSvc(s, cl, cl.Addrs(), RedisOpts{})
	if err != nil || !svc.WaitRouting(1, 10*time.Second) {
		r.Internal("service did not start: %v", err)
		return
	}
	defer s.StopProc(svc.Name, 20*time.Second)
	time.Sleep(100 * time.Millisecond)
	mu.Lock()
	for k := range redirected { // (requests of the start-up window, before the table was loaded)
		delete(redirected, k)
	}
	witness = nil
	mu.Unlock()
	nreq := 400
	if r.Tier == "thorough" {
		nreq = 6000
	}
	var wg sync.WaitGroup
	for c := 0; c < 8; c++ {
		wg.Add(1)
		go func(c int) {
			defer wg.Done()
			crnd := rand.New(rand.NewSource(r.Seed*77 + int64(c)))
			conn, err := svc.Dial()
			if err != nil {
				return
			}
			defer conn.Close()
			key := func() []byte {
				l := 1 + crnd.Intn(24)
				b := make([]byte, l)
				for i := range b {
					b[i] = "abcxyz0189{}{}.:\x00\xff\x80 "[crnd.Intn(20)]
				}
				return b
			}
			for i := 0; i < nreq; i++ {
				var raw []byte
				switch crnd.Intn(8) {
				case 0:
					raw = resp.Cmd([]byte("GET"), key())
				case 1:
					raw = resp.Cmd([]byte("set"), key(), []byte("v"))
				case 2:
					raw = resp.Cmd([]byte([]string{"EVAL", "eval", "EvalSha"}[crnd.Intn(3)]), []byte("return 1"), []byte("1"), key(), []byte("arg"))
				case 3:
					raw = resp.Cmd([]byte("MGET"), key(), key(), key())
				case 4:
					raw = resp.Cmd([]byte("DEL"), key(), key())
				case 5:
					raw = resp.Cmd([]byte("exists"), key(), key(), key(), key())
				case 6:
					raw = resp.Cmd([]byte("HSET"), key(), []byte("f"), []byte("v"))
				default:
					k := key()
					for j := range k {
						if k[j] == ' ' || k[j] == 0 {
							k[j] = '_'
						}
					}
					raw = append(append([]byte("get "), k...), '\r', '\n')
				}
				conn.C.Write(raw)
				if _, err := conn.Read(10 * time.Second); err != nil {
					return
				}
				r.Count("e2e_requests", 1)
			}
		}(c)
	}
	wg.Wait()
	// reads routed at the same instant by many sessions (pipelines, no waiting): the choice of a node must not depend on what
	// another session is routing
	bursts := 40
	if r.Tier == "thorough" {
		bursts = 400
	}
	for c := 0; c < 16; c++ {
		wg.Add(1)
		go func(c int) {
			defer wg.Done()
			crnd := rand.New(rand.NewSource(r.Seed*79 + int64(c)))
			conn, err := svc.Dial()
			if err != nil {
				return
			}
			defer conn.Close()
			for b := 0; b < bursts; b++ {
				var raw []byte
				for i := 0; i < 30; i++ {
					raw = append(raw, resp.CmdS("GET", fmt.Sprintf("k%d.%d", c, crnd.Intn(1<<20)))...)
				}
				conn.C.Write(raw)
				for i := 0; i < 30; i++ {
					if _, err := conn.Read(10 * time.Second); err != nil {
						return
					}
				}
				r.Count("e2e_pipelined_reads", 30)
			}
		}(c)
	}
	wg.Wait()
	if sutDied(r, s, "C12 end to end") {
		return
	}
	mu.Lock()
	defer mu.Unlock()
	if len(redirected) > 0 {
		witness["redirected_by_command"] = redirected
		r.Violation("C12:e2e-request-reached-a-node-that-does-not-own-its-slot", "on a stable cluster whose layout the proxy has loaded, nodes answered requests with MOVED: the proxy sent a key to the wrong node", witness)
	}
	r.Case("e2e")
}
