package main

import (
	"bytes"
	"fmt"
	"math/rand"
	"net"
	"os"
	"strconv"
	"strings"
	"sync"
	"sync/atomic"
	"time"
	"verif/internal/rclient"

	predis "github.com/samaritan-proxy/samaritan/pb/config/protocol/redis"

	"verif/internal/ev"
	"verif/internal/fakecluster"
	"verif/internal/lclock"
	"verif/internal/resp"
	"verif/internal/sutc"
)

func init() {
	register(&Check{ID: "C01", Level: "exploration", Drive: c01})
}

// echoBytes encodes an argument vector unambiguously.
func echoBytes(args [][]byte) []byte {
	var b bytes.Buffer
	b.WriteString("E")
	for _, a := range args {
		b.WriteString(strconv.Itoa(len(a)))
		b.WriteByte(':')
		b.Write(a)
		b.WriteByte(',')
	}
	return b.Bytes()
}

// echoReply is the reply of an echo-mode node: a bulk string for most commands, a status line for
// SET-like commands and an error line for INCR-like ones (so that every reply type carries the request's identity).
func echoReply(cmd string, args [][]byte) resp.Value {
	switch cmd {
	case "set", "lset", "hmset", "setex", "ltrim":
		return resp.S("E" + fmt.Sprintf("%x", echoBytes(args)))
	case "incr", "incrby", "hincrby":
		return resp.E("ERR echo " + fmt.Sprintf("%x", echoBytes(args)))
	}
	return resp.B(echoBytes(args))
}

// bigArrayLen recognises keys "A<n>:..." whose reply is an array of n elements.
func bigArrayLen(key []byte) (int, bool) {
	if len(key) < 3 || key[0] != 'A' {
		return 0, false
	}
	i := bytes.IndexByte(key, ':')
	if i < 0 {
		return 0, false
	}
	n, err := strconv.Atoi(string(key[1:i]))
	if err != nil || n < 0 || n > 100000 {
		return 0, false
	}
	return n, true
}

func bigArrayReply(key []byte, n int) resp.Value {
	arr := make([]resp.Value, n)
	for i := range arr {
		arr[i] = resp.BS(fmt.Sprintf("%s#%d", key, i))
	}
	return resp.A(arr...)
}

// embeddedInt parses the integer embedded in a key "n<int>:...".
func embeddedInt(key []byte) int64 {
	if len(key) < 2 || key[0] != 'n' {
		return 0
	}
	i := bytes.IndexByte(key, ':')
	if i < 0 {
		return 0
	}
	v, _ := strconv.ParseInt(string(key[1:i]), 10, 64)
	return v
}

var sumCmds = map[string]bool{"del": true, "exists": true, "touch": true, "unlink": true}

// echoHandler makes a node answer keyed commands with an encoding of what it received.
func echoHandler(n *fakecluster.Node, completed *sync.Map) func(c *fakecluster.Conn, args [][]byte) (fakecluster.Reply, bool) {
	return func(c *fakecluster.Conn, args [][]byte) (fakecluster.Reply, bool) {
		cmd := strings.ToLower(string(args[0]))
		if fakecluster.IsLocal(cmd) {
			return fakecluster.Reply{}, false
		}
		key, ok := fakecluster.KeyOf(cmd, args)
		if !ok {
			return fakecluster.Reply{}, false
		}
		if n.OwnerLocked(fakecluster.Slot(key)) != n {
			return fakecluster.Reply{}, false // default semantics: MOVED
		}
		if completed != nil {
			completed.Store(string(key), lclock.Tick())
		}
		if sumCmds[cmd] {
			return fakecluster.Reply{Raw: resp.Encode(resp.I(embeddedInt(key)))}, true
		}
		if n, ok := bigArrayLen(key); ok {
			return fakecluster.Reply{Raw: resp.Encode(bigArrayReply(key, n))}, true
		}
		return fakecluster.Reply{Raw: resp.Encode(echoReply(cmd, args))}, true
	}
}

type c01Req struct {
	class string
	raw   []byte
	// expectation
	exact    *resp.Value
	anyError bool
	kind     byte     // when neither exact nor anyError: reply kind must match
	keys     []string // keys of simple keyed children, for inversion measurement
}

var c01SimpleCmds = []string{"GET", "get", "SET", "set", "hget", "HSET", "lrange", "ZADD", "expire", "Append", "sadd", "TTL", "hmget", "getset", "INCR", "incrby", "lpush", "zrangebyscore", "pfadd", "georadius", "LSET", "hmset", "setex", "ltrim", "HINCRBY"}
var c01Unsupported = []string{"KEYS", "multi", "EXEC", "subscribe", "CLUSTER", "flushall", "blpop", "nosuchcmd", "wait", "migrate"}

func c01GenReq(rnd *rand.Rand, connID, seq int, hostile, banned bool) c01Req {
	uid := fmt.Sprintf("c%dq%d", connID, seq)
	tag := ""
	if rnd.Intn(4) == 0 {
		tag = fmt.Sprintf("{t%d}", rnd.Intn(50))
	}
	key := func(i int) []byte { return []byte(fmt.Sprintf("%s%s.%d.%x", tag, uid, i, rnd.Intn(1<<16))) }
	val := func() []byte {
		n := rnd.Intn(20)
		if rnd.Intn(20) == 0 {
			n = 500 + rnd.Intn(9000)
		}
		b := make([]byte, n)
		rnd.Read(b)
		return b
	}
	bs := func(s string) []byte { return []byte(s) }
	pick := rnd.Intn(100)
	if hostile {
		// request content that must still produce exactly one reply
		switch rnd.Intn(4) {
		case 0:
			name := []string{"foo\r\nbar", "x\r\n+OK", "get\r\n", "\r\n", "a\rb", "a\nb"}[rnd.Intn(6)]
			return c01Req{class: "crlf-in-command-name", raw: resp.Cmd(bs(name), key(0)), anyError: true}
		case 1:
			name := []string{"foo\r\nbar", "$-1\r\n", "*1\r\n"}[rnd.Intn(3)]
			return c01Req{class: "crlf-in-command-name", raw: resp.Cmd(bs(name)), anyError: true}
		case 2:
			return c01Req{class: "binary-command-name", raw: resp.Cmd([]byte{0, 255, '+', '-'}, key(0)), anyError: true}
		default:
			return c01Req{class: "long-unsupported-name", raw: resp.Cmd(bytes.Repeat([]byte("Z"), 5000), key(0)), anyError: true}
		}
	}
	if big := rnd.Intn(1500); big < 3 {
		switch big {
		case 0: // a multi-key request with more arguments than any pre-allocation bound
			n := 1030 + rnd.Intn(1500)
			args := [][]byte{bs("MGET")}
			want := make([]resp.Value, n)
			for i := 0; i < n; i++ {
				k := []byte(fmt.Sprintf("%s.b%d", uid, i))
				args = append(args, k)
				want[i] = resp.B(echoBytes([][]byte{bs("get"), k}))
			}
			w := resp.A(want...)
			return c01Req{class: "big-mget", raw: resp.Cmd(args...), exact: &w}
		case 1:
			n := 1030 + rnd.Intn(1500)
			args := [][]byte{bs("DEL")}
			total := int64(0)
			for i := 0; i < n; i++ {
				v := int64(rnd.Intn(2))
				total += v
				args = append(args, []byte(fmt.Sprintf("n%d:%s.b%d", v, uid, i)))
			}
			w := resp.I(total)
			return c01Req{class: "big-del", raw: resp.Cmd(args...), exact: &w}
		default: // a backend reply that is a long array
			n := []int{1023, 1024, 1025, 1500, 4000}[rnd.Intn(5)]
			k := []byte(fmt.Sprintf("A%d:%s", n, uid))
			w := bigArrayReply(k, n)
			return c01Req{class: "big-array-reply", raw: resp.Cmd(bs("LRANGE"), k, bs("0"), bs("-1")), exact: &w, keys: []string{string(k)}}
		}
	}
	if banned && rnd.Intn(12) == 0 {
		// disabled under compression: answered by the proxy's filter chain with an error, nothing reaches a backend
		name := []string{"APPEND", "setbit", "GETBIT", "SetRange", "getrange", "EVAL"}[rnd.Intn(6)]
		return c01Req{class: "banned-under-compression", raw: resp.Cmd(bs(name), key(0), bs("1"), key(0)), anyError: true}
	}
	switch {
	case pick < 45: // simple keyed command
		cmd := c01SimpleCmds[rnd.Intn(len(c01SimpleCmds))]
		args := [][]byte{bs(cmd), key(0)}
		for i := rnd.Intn(4); i > 0; i-- {
			args = append(args, val())
		}
		if banned {
			switch strings.ToLower(cmd) {
			case "append", "eval", "setbit", "getbit", "setrange", "getrange":
				return c01Req{class: "banned-under-compression", raw: resp.Cmd(args...), anyError: true}
			}
		}
		want := echoReply(strings.ToLower(cmd), args)
		return c01Req{class: "simple-" + string(want.Kind), raw: resp.Cmd(args...), exact: &want, keys: []string{string(args[1])}}
	case pick < 55: // MGET
		n := 1 + rnd.Intn(8)
		args := [][]byte{bs([]string{"MGET", "mget", "MgEt"}[rnd.Intn(3)])}
		want := make([]resp.Value, n)
		keys := []string{}
		for i := 0; i < n; i++ {
			k := key(i)
			args = append(args, k)
			want[i] = resp.B(echoBytes([][]byte{bs("get"), k}))
			keys = append(keys, string(k))
		}
		w := resp.A(want...)
		return c01Req{class: "mget", raw: resp.Cmd(args...), exact: &w, keys: keys}
	case pick < 62: // MSET
		n := 1 + rnd.Intn(6)
		args := [][]byte{bs("MSET")}
		for i := 0; i < n; i++ {
			args = append(args, key(i), val())
		}
		w := resp.S("OK")
		return c01Req{class: "mset", raw: resp.Cmd(args...), exact: &w}
	case pick < 72: // sum commands
		n := 1 + rnd.Intn(7)
		args := [][]byte{bs([]string{"DEL", "exists", "Touch", "UNLINK"}[rnd.Intn(4)])}
		total := int64(0)
		for i := 0; i < n; i++ {
			v := int64(rnd.Intn(3))
			total += v
			args = append(args, []byte(fmt.Sprintf("n%d:%s%s.%d", v, tag, uid, i)))
		}
		w := resp.I(total)
		return c01Req{class: "sum", raw: resp.Cmd(args...), exact: &w}
	case pick < 80: // local
		switch rnd.Intn(5) {
		case 0:
			w := resp.S("PONG")
			return c01Req{class: "local", raw: resp.CmdS("PING"), exact: &w}
		case 1:
			w := resp.S("OK")
			return c01Req{class: "local", raw: resp.CmdS("select", "3"), exact: &w}
		case 2:
			return c01Req{class: "local", raw: resp.CmdS("INFO"), kind: resp.Bulk}
		case 3:
			return c01Req{class: "local", raw: resp.CmdS("time"), kind: resp.Array}
		default:
			return c01Req{class: "local", raw: resp.CmdS("hotkey"), kind: resp.Bulk}
		}
	case pick < 88: // invalid / unsupported
		switch rnd.Intn(6) {
		case 0:
			return c01Req{class: "unsupported", raw: resp.Cmd(bs(c01Unsupported[rnd.Intn(len(c01Unsupported))]), key(0)), anyError: true}
		case 1:
			return c01Req{class: "arity", raw: resp.CmdS("GET"), anyError: true}
		case 2:
			return c01Req{class: "arity", raw: resp.CmdS("mset", "k"), anyError: true}
		case 3:
			return c01Req{class: "non-bulk-array", raw: []byte("*2\r\n$3\r\nGET\r\n:1\r\n"), anyError: true}
		case 4:
			return c01Req{class: "empty-array", raw: []byte("*0\r\n"), anyError: true}
		default:
			return c01Req{class: "non-array", raw: [][]byte{[]byte("+OK\r\n"), []byte(":12\r\n"), []byte("$3\r\nfoo\r\n"), []byte("*-1\r\n"), []byte("$-1\r\n")}[rnd.Intn(5)], anyError: true}
		}
	case pick < 94: // inline
		if rnd.Intn(2) == 0 {
			w := resp.S("PONG")
			return c01Req{class: "inline", raw: []byte("PING\r\n"), exact: &w}
		}
		k := []byte(fmt.Sprintf("%s%s.i", tag, uid))
		w := resp.B(echoBytes([][]byte{bs("get"), k}))
		return c01Req{class: "inline", raw: []byte("get  " + string(k) + " \r\n"), exact: &w, keys: []string{string(k)}}
	default: // eval (key is argument 3)
		k := key(0)
		args := [][]byte{bs("EVAL"), bs("return 1"), bs("1"), k, val()}
		if banned {
			return c01Req{class: "banned-under-compression", raw: resp.Cmd(args...), anyError: true}
		}
		w := resp.B(echoBytes(args))
		return c01Req{class: "eval", raw: resp.Cmd(args...), exact: &w, keys: []string{string(k)}}
	}
}

func (q *c01Req) matches(v resp.Value) bool {
	switch {
	case q.exact != nil:
		return v.Equal(*q.exact)
	case q.anyError:
		return v.Kind == resp.Error && !bytes.ContainsAny(v.Str, "\r\n")
	default:
		return v.Kind == q.kind
	}
}

func genFrags(rnd *rand.Rand, n int) ([]int, string) {
	switch rnd.Intn(6) {
	case 0:
		return nil, "whole"
	case 1:
		if n > 3000 {
			break
		}
		f := make([]int, n)
		for i := range f {
			f[i] = 1
		}
		return f, "1byte"
	case 2:
		if n > 20000 {
			break
		}
		var f []int
		for t := 0; t < n; {
			k := 1 + rnd.Intn(7)
			f = append(f, k)
			t += k
		}
		return f, "tiny"
	case 3:
		var f []int
		for t := 0; t < n; {
			k := 1 + rnd.Intn(300)
			f = append(f, k)
			t += k
		}
		return f, "medium"
	}
	var f []int
	for t := 0; t < n; {
		k := 1 + rnd.Intn(5000)
		f = append(f, k)
		t += k
	}
	return f, "large"
}

type c01Stats struct {
	pipelines, requests, inversions, pipelinesInverted, redirects, reshards int64
	dumped                                                                  int32
}

// c01Workload runs nconns connections x npipes pipelines against a fresh service.
func c01Workload(r *ev.Run, s *sutc.SUT, seed int64, nconns, npipes int, label string, st *c01Stats, compression bool) {
	rnd := rand.New(rand.NewSource(seed))
	cl, err := fakecluster.New(3+rnd.Intn(4), 0)
	if err != nil {
		r.Internal("fakecluster: %v", err)
		return
	}
	defer cl.Close()
	cl.LogArgs = false
	layout := randomLayout(rnd, cl)
	var completed sync.Map
	var redirects int64
	cl.OnEvent = func(e *fakecluster.Event) {
		if e.Outcome == fakecluster.Moved || e.Outcome == fakecluster.Ask {
			atomic.AddInt64(&redirects, 1)
		}
	}
	for _, n := range cl.Nodes {
		n := n
		n.Handler = echoHandler(n, &completed)
		dr := rand.New(rand.NewSource(seed + int64(n.Idx)*7919))
		var dmu sync.Mutex
		n.Delay = func(args [][]byte) time.Duration {
			dmu.Lock()
			defer dmu.Unlock()
			switch dr.Intn(40) {
			case 0:
				return time.Duration(dr.Intn(3000)) * time.Microsecond
			case 1, 2, 3:
				return time.Duration(dr.Intn(200)) * time.Microsecond
			}
			return 0
		}
	}
	opts := RedisOpts{}
	if compression {
		opts.Compression = &predis.Compression{Enable: true, Algorithm: predis.Compression_SNAPPY, Threshold: 1 << 30}
	}
	svc, err := startRedisSvc(s, cl, cl.Addrs(), opts)
	if err != nil {
		r.Internal("%s: %v", label, err)
		return
	}
	defer s.StopProc(svc.Name, 20*time.Second)
	if !svc.WaitRouting(1, 10*time.Second) {
		r.Internal("%s: routing table never loaded", label)
		return
	}
	if strings.HasPrefix(label, "redirect-storm") {
		// every slot changes hands once and the proxy never learns it (its refresh timers are minutes away in this SUT): for the
		// whole workload every keyed request is answered MOVED first, from several nodes at once
		ms := cl.Masters()
		cl.Lock()
		for sl := 0; sl < fakecluster.NumSlots; sl++ {
			cl.SetOwnerLocked(sl, ms[(cl.Nodes[0].OwnerLocked(sl).Idx+1)%len(ms)])
		}
		cl.Unlock()
	}
	r.Sample(map[string]interface{}{"workload": label, "masters": len(cl.Nodes), "layout": layout, "connections": nconns, "pipelines_per_connection": npipes})

	stop := make(chan struct{})
	var pipesDone int64
	// consistent, instantaneous re-shards at PRNG-chosen moments
	var rswg sync.WaitGroup
	rswg.Add(1)
	go func() {
		defer rswg.Done()
		rr := rand.New(rand.NewSource(seed ^ 0x5eed))
		next := int64(5 + rr.Intn(20))
		for {
			select {
			case <-stop:
				return
			case <-time.After(2 * time.Millisecond):
			}
			if atomic.LoadInt64(&pipesDone) < next {
				continue
			}
			next = atomic.LoadInt64(&pipesDone) + int64(10+rr.Intn(60))
			ms := cl.Masters()
			cl.Lock()
			base := rr.Intn(fakecluster.NumSlots)
			width := 1 + rr.Intn(600)
			to := ms[rr.Intn(len(ms))]
			for sl := base; sl < base+width && sl < fakecluster.NumSlots; sl++ {
				cl.SetOwnerLocked(sl, to)
			}
			cl.Unlock()
			atomic.AddInt64(&st.reshards, 1)
		}
	}()

	var wg sync.WaitGroup
	for ci := 0; ci < nconns; ci++ {
		wg.Add(1)
		go func(ci int) {
			defer wg.Done()
			crnd := rand.New(rand.NewSource(seed*1000003 + int64(ci)))
			connID := int(seed%100000)*1000 + ci
			conn, err := svc.Dial()
			if err != nil {
				r.Internal("%s: dial: %v", label, err)
				return
			}
			defer conn.Close()
			seq := 0
			for p := 0; p < npipes; p++ {
				depth := 1 + crnd.Intn(12)
				switch crnd.Intn(10) {
				case 0:
					depth = 30 + crnd.Intn(40) // around the 32-slot session queue
				case 1:
					depth = 100 + crnd.Intn(200)
				}
				hostile := p >= npipes-2 // hostile command names only in the last pipelines of a connection
				reqs := make([]c01Req, 0, depth+1)
				var data []byte
				classes := map[string]bool{}
				for i := 0; i < depth; i++ {
					q := c01GenReq(crnd, connID, seq, hostile && crnd.Intn(3) == 0, compression)
					seq++
					reqs = append(reqs, q)
					data = append(data, q.raw...)
					classes[q.class] = true
					if strings.HasPrefix(q.class, "big-") || strings.HasPrefix(q.class, "banned") {
						r.Count("class:"+q.class, 1)
					}
				}
				// sentinel: proves no extra and no missing reply
				sk := []byte(fmt.Sprintf("sentinel.c%d.%d", connID, seq))
				seq++
				sw := resp.B(echoBytes([][]byte{[]byte("GET"), sk}))
				reqs = append(reqs, c01Req{class: "sentinel", raw: resp.CmdS("GET", string(sk)), exact: &sw, keys: []string{string(sk)}})
				data = append(data, reqs[len(reqs)-1].raw...)

				frags, fclass := genFrags(crnd, len(data))
				werr := make(chan error, 1)
				go func() { werr <- conn.WriteFrags(data, frags, crnd.Intn(2)) }()
				bad := false
				for k := range reqs {
					v, err := conn.Read(30 * time.Second)
					if err != nil {
						key := "C01:missing-reply:" + reqs[k].class
						if hostile {
							key = "C01:reply-count:hostile-command-name"
						}
						w := map[string]interface{}{"workload": label, "seed": seed, "connection": ci, "pipeline": p, "index": k, "request": trunc(reqs[k].raw), "error": err.Error()}
						if atomic.CompareAndSwapInt32(&st.dumped, 0, 1) {
							if g, gerr := s.Goroutines(); gerr == nil {
								w["proxy_goroutines_at_first_missing_reply"] = truncStr(g, 60000)
							}
							w["simulator_goroutines_at_first_missing_reply"] = truncStr(extractStacks(allStacks(), "internal/fakecluster", 40), 40000)
						}
						r.Violation(key, fmt.Sprintf("connection %d: no (parsable) reply for request %d of pipeline: %v", connID, k, err), w)
						bad = true
						break
					}
					if !reqs[k].matches(v) {
						key := "C01:wrong-reply:" + reqs[k].class
						culprit := ""
						for j := 0; j <= k; j++ {
							if reqs[j].class == "crlf-in-command-name" {
								key = "C01:reply-split:crlf-in-command-name"
								culprit = trunc(reqs[j].raw)
								break
							}
						}
						want := "(any single-line error)"
						if reqs[k].exact != nil {
							want = reqs[k].exact.String()
						}
						r.Violation(key, fmt.Sprintf("connection %d: reply %d of the pipeline is not the result of request %d", connID, k, k),
							map[string]interface{}{"workload": label, "seed": seed, "connection": ci, "pipeline": p, "index": k, "request": trunc(reqs[k].raw), "got": v.String(), "want": want, "fragmentation": fclass, "earlier_request_with_crlf_name": culprit})
						bad = true
						break
					}
				}
				<-werr
				if bad {
					return // the stream is out of step; stop judging this connection
				}
				// inversion measurement from backend completion stamps
				var last int64
				inv := 0
				for _, q := range reqs {
					for _, k := range q.keys {
						if v, ok := completed.LoadAndDelete(k); ok {
							if v.(int64) < last {
								inv++
							}
							last = v.(int64)
						}
					}
				}
				atomic.AddInt64(&st.inversions, int64(inv))
				if inv > 0 {
					atomic.AddInt64(&st.pipelinesInverted, 1)
				}
				atomic.AddInt64(&st.pipelines, 1)
				atomic.AddInt64(&st.requests, int64(len(reqs)))
				atomic.AddInt64(&pipesDone, 1)
				cs := make([]string, 0, len(classes))
				for c := range classes {
					cs = append(cs, c)
				}
				sortStrings(cs)
				invc := "inv0"
				if inv > 3 {
					invc = "inv-many"
				} else if inv > 0 {
					invc = "inv-few"
				}
				r.Case(strings.Join(cs, "+") + "/" + fclass + "/" + invc)
				r.Count("frag:"+fclass, 1)
				if p == 0 && ci == 0 {
					r.Sample(map[string]interface{}{"pipeline_depth": len(reqs), "fragmentation": fclass, "classes": cs, "first_request": trunc(reqs[0].raw)})
				}
			}
			// nothing may follow the last sentinel
			if v, err := conn.Read(30 * time.Millisecond); err == nil {
				r.Violation("C01:extra-reply", fmt.Sprintf("connection %d received a reply nobody asked for", connID), map[string]interface{}{"workload": label, "seed": seed, "extra": v.String()})
			}
		}(ci)
	}
	wg.Wait()
	close(stop)
	rswg.Wait()
	atomic.AddInt64(&st.redirects, atomic.LoadInt64(&redirects))
	if !s.Alive() {
		r.Violation("C01:sut-died", "the proxy process died during the workload: "+s.CrashLine(), map[string]interface{}{"workload": label, "log_tail": s.LogTail(4000)})
	}
}

func sortStrings(s []string) {
	for i := 1; i < len(s); i++ {
		for j := i; j > 0 && s[j] < s[j-1]; j-- {
			s[j], s[j-1] = s[j-1], s[j]
		}
	}
}

func c01(r *ev.Run) {
	r.Rule("pipelines of mixed requests (simple / MGET / MSET / sum / local / invalid / inline / EVAL / hostile command names) of depth 1-300 on concurrent connections over 3-6 echo-mode nodes with PRNG slot layouts, per-reply backend delays, PRNG byte fragmentation and consistent re-shards; one workload in which every slot has changed hands and the proxy never refreshes (every keyed request is redirected); distinct = distinct (request-class set, fragmentation class, backend-completion-inversion class) triples")
	r.Assume("echo-mode nodes answer with an encoding of the exact argument vector they received; harness RESP codec parses replies")
	nconns, npipes, rounds := 16, 150, 1
	if r.Tier == "thorough" {
		nconns, npipes, rounds = 64, 120, 5
	}
	st := &c01Stats{}
	for round := 0; round < rounds; round++ {
		s, err := startSUT(r, false, 100, 20)
		if err != nil {
			r.Internal("start sut: %v", err)
			return
		}
		if os.Getenv("VERIF_C01_ONLY") != "compression" { // debugging aid
			c01Workload(r, s, r.Seed*31+int64(round), nconns, npipes, fmt.Sprintf("plain-%d", round), st, false)
		}
		c01Workload(r, s, r.Seed*37+int64(round), nconns, npipes/3, fmt.Sprintf("compression-%d", round), st, true)
		c01StopAndWait(r, s, r.Seed*43+int64(round), 8, 150)
		c01HalfClose(r, s, r.Seed*47+int64(round), 40)
		s.Close()
	}
	// sustained redirection: nothing is ever routed right at the first attempt
	if ss, err := startSUT(r, false, 600000, 600000); err == nil {
		before := atomic.LoadInt64(&st.redirects)
		c01Workload(r, ss, r.Seed*41, nconns, npipes/3, "redirect-storm", st, false)
		r.Count("redirects_during_the_redirect_storm", atomic.LoadInt64(&st.redirects)-before)
		sutDied(r, ss, "redirect storm")
		ss.Close()
	} else {
		r.Internal("start storm sut: %v", err)
	}
	// race tier: same workload at 1/5 volume on the -race SUT
	s, err := startSUT(r, true, 100, 20)
	if err != nil {
		r.Internal("start race sut: %v", err)
		return
	}
	c01Workload(r, s, r.Seed*31+977, nconns, (npipes+4)/5, "race", st, false)
	races := raceReports(s, []string{"proc/redis/request.go"})
	s.Close()
	for _, rr := range races {
		r.Violation("C01:race:"+rr.Key, "data race in the request completion path", map[string]interface{}{"report": rr.Text})
	}
	r.Count("pipelines", st.pipelines)
	r.Count("requests", st.requests)
	r.Count("backend_completion_inversions", st.inversions)
	r.Count("pipelines_with_inverted_backend_completion", st.pipelinesInverted)
	r.Count("redirected_requests", st.redirects)
	r.Count("reshards", st.reshards)
	r.Require("pipelines_with_inverted_backend_completion", 5)
	r.Require("redirected_requests", 1)
	r.Require("stop_and_wait_requests", 500)
	r.Require("half_closed_pipelines_answered", 20)
	for _, c := range []string{"big-mget", "big-del", "big-array-reply", "banned-under-compression"} {
		r.Require("class:"+c, 3)
	}
}

// c01StopAndWait: a client whose segments end in the middle of the next request and that waits for the replies to the requests it has
// completed before it sends the rest (a slow link, a client that computes the tail of its request from the reply). The reply to a
// complete request must not be held back by the bytes of an incomplete one behind it.
func c01StopAndWait(r *ev.Run, s *sutc.SUT, seed int64, nconns, nreq int) {
	rnd := rand.New(rand.NewSource(seed))
	cl, err := fakecluster.New(3, 0)
	if err != nil {
		r.Internal("fakecluster: %v", err)
		return
	}
	defer cl.Close()
	cl.LogArgs = false
	randomLayout(rnd, cl)
	var completed sync.Map
	for _, n := range cl.Nodes {
		n.Handler = echoHandler(n, &completed)
	}
	svc, err := startRedisSvc(s, cl, cl.Addrs(), RedisOpts{})
	if err != nil || !svc.WaitRouting(1, 10*time.Second) {
		r.Internal("stop-and-wait: service did not start: %v", err)
		return
	}
	defer s.StopProc(svc.Name, 20*time.Second)
	var wg sync.WaitGroup
	var bad int32
	for c := 0; c < nconns; c++ {
		wg.Add(1)
		go func(c int) {
			defer wg.Done()
			crnd := rand.New(rand.NewSource(seed*131 + int64(c)))
			conn, err := svc.Dial()
			if err != nil {
				r.Internal("dial: %v", err)
				return
			}
			defer conn.Close()
			var carry []byte // the part of the current request that has been sent already is not in here: only what is still to send
			cur := c01GenReq(crnd, 9000+c, 0, false, false)
			carry = cur.raw
			for i := 0; i < nreq && atomic.LoadInt32(&bad) == 0; i++ {
				next := c01GenReq(crnd, 9000+c, i+1, false, false)
				// the rest of the current request, then a proper prefix of the next one; cuts prefer the header lines
				cut := 1 + crnd.Intn(len(next.raw)-1)
				if crnd.Intn(2) == 0 {
					cut = 1 + crnd.Intn(min(len(next.raw)-1, 12))
				}
				if _, err := conn.C.Write(append(append([]byte{}, carry...), next.raw[:cut]...)); err != nil {
					r.Inconclusive("stop-and-wait:write-failed")
					return
				}
				v, err := conn.Read(3 * time.Second)
				w := map[string]interface{}{"connection": c, "request": i, "class": cur.class, "complete_request": abbrevArg(cur.raw), "bytes_of_the_next_request_sent_behind_it": abbrevArg(next.raw[:cut]), "next_class": next.class}
				if err != nil {
					if !s.Alive() {
						return
					}
					atomic.StoreInt32(&bad, 1)
					r.Violation("C01:missing-reply:withheld-behind-incomplete-request", "the reply to a complete request did not arrive within 3 s while the first bytes of the next request were already sent (the client waits for the reply before it sends the rest)", w)
					return
				}
				if !cur.matches(v) {
					atomic.StoreInt32(&bad, 1)
					w["reply"] = v.String()
					r.Violation("C01:wrong-reply:stop-and-wait:"+cur.class, "reply does not belong to the request at this position", w)
					return
				}
				r.Count("stop_and_wait_requests", 1)
				r.Distinct("stop-and-wait/" + cur.class + "/" + next.class)
				cur, carry = next, next.raw[cut:]
			}
		}(c)
	}
	wg.Wait()
	sutDied(r, s, "stop-and-wait workload")
	r.Case("stop-and-wait")
}

// c01HalfClose: a client that sends a pipeline and then shuts down its sending side (as `printf ... | nc` does) keeps reading: it
// must still receive exactly one reply per request, in order, and then the end of the stream.
func c01HalfClose(r *ev.Run, s *sutc.SUT, seed int64, n int) {
	rnd := rand.New(rand.NewSource(seed))
	cl, err := fakecluster.New(3, 0)
	if err != nil {
		r.Internal("fakecluster: %v", err)
		return
	}
	defer cl.Close()
	cl.LogArgs = false
	randomLayout(rnd, cl)
	var completed sync.Map
	for _, nd := range cl.Nodes {
		nd.Handler = echoHandler(nd, &completed)
		dr := rand.New(rand.NewSource(seed + int64(nd.Idx)))
		var dmu sync.Mutex
		nd.Delay = func(args [][]byte) time.Duration {
			dmu.Lock()
			defer dmu.Unlock()
			if dr.Intn(4) == 0 {
				return time.Duration(dr.Intn(20000)) * time.Microsecond
			}
			return 0
		}
	}
	svc, err := startRedisSvc(s, cl, cl.Addrs(), RedisOpts{})
	if err != nil || !svc.WaitRouting(1, 10*time.Second) {
		r.Internal("half-close: service did not start: %v", err)
		return
	}
	defer s.StopProc(svc.Name, 20*time.Second)
	for i := 0; i < n; i++ {
		conn, err := svc.Dial()
		if err != nil {
			r.Internal("dial: %v", err)
			return
		}
		depth := 1 + rnd.Intn(40)
		var reqs []c01Req
		var raw []byte
		for k := 0; k < depth; k++ {
			q := c01GenReq(rnd, 7000+i, k, false, false)
			reqs = append(reqs, q)
			raw = append(raw, q.raw...)
		}
		// every other pipeline does not end with a shutdown but with bytes the decoder rejects: the connection is closed for
		// them, but the requests read before them are answered first
		malformed := i%2 == 1
		if malformed {
			raw = append(raw, [][]byte{[]byte("*1\r\n$-5\r\n"), []byte("PING\n"), []byte("*2\r\n$3\r\nGET\r\n$x\r\n"), []byte("$3\rabc\r\n")}[rnd.Intn(4)]...)
		}
		conn.C.Write(raw)
		if tc, ok := conn.C.(*net.TCPConn); ok && !malformed {
			tc.CloseWrite()
		}
		got := 0
		var problem string
		for k := 0; k < depth; k++ {
			v, err := conn.Read(5 * time.Second)
			if err != nil {
				problem = fmt.Sprintf("reply %d of %d: %v", k, depth, err)
				break
			}
			if !reqs[k].matches(v) {
				problem = fmt.Sprintf("reply %d does not belong to request %d (%s): %s", k, k, reqs[k].class, v.String())
				break
			}
			got++
		}
		if problem == "" {
			v, err := conn.Read(5 * time.Second)
			if err == nil && malformed && v.Kind == resp.Error {
				_, err = conn.Read(5 * time.Second) // (an error reply for the rejected bytes is fine, then the close)
			}
			if err == nil {
				problem = "a reply too many"
			} else if rclient.IsTimeout(err) {
				problem = "the proxy did not close the connection after the last reply"
			}
		}
		conn.Close()
		if problem != "" {
			if sutDied(r, s, "half-close workload") {
				return
			}
			key, what := "C01:half-closed-client:replies-missing", "a client sent a pipeline, shut down its sending side and kept reading: it did not get one reply per request followed by the end of the stream"
			if malformed {
				key, what = "C01:replies-dropped-before-rejected-bytes", "a client sent a pipeline of valid requests followed by bytes the decoder rejects: the connection was closed without the replies to the requests that had been read"
			}
			r.Violation(key, what,
				map[string]interface{}{"pipeline_depth": depth, "replies_received": got, "problem": problem, "classes": func() []string {
					var cs []string
					for _, q := range reqs[:min(len(reqs), 8)] {
						cs = append(cs, q.class)
					}
					return cs
				}()})
			return
		}
		r.Count("half_closed_pipelines_answered", 1)
		r.Case(fmt.Sprintf("half-close/depth%d", min(depth, 5)))
	}
}
