package main

import (
	"fmt"
	"strconv"
	"sync/atomic"
	"time"

	"github.com/samaritan-proxy/samaritan/pb/common"
	hcpb "github.com/samaritan-proxy/samaritan/pb/config/hc"
	"github.com/samaritan-proxy/samaritan/pb/config/protocol"
	"github.com/samaritan-proxy/samaritan/pb/config/service"

	"verif/internal/sutc"
)

// TCPOpts configures a TCP service in the SUT.
type TCPOpts struct {
	Policy      service.LoadBalancePolicy
	ConnLimit   uint32
	HealthCheck *hcpb.HealthCheck
	ConnTimeout time.Duration
	IdleTimeout time.Duration
}

func tcpConfigJSON(port int, o TCPOpts) []byte {
	cfg := &service.Config{
		Listener:    &service.Listener{Address: &common.Address{Ip: "127.0.0.1", Port: uint32(port)}, ConnectionLimit: o.ConnLimit},
		Protocol:    protocol.TCP,
		LbPolicy:    o.Policy,
		HealthCheck: o.HealthCheck,
	}
	if o.ConnTimeout > 0 {
		cfg.ConnectTimeout = &o.ConnTimeout
	}
	if o.IdleTimeout > 0 {
		cfg.IdleTimeout = &o.IdleTimeout
	}
	b, err := cfg.MarshalJSON()
	if err != nil {
		panic(err)
	}
	return b
}

// TCPSvc is one TCP service running in a SUT.
type TCPSvc struct {
	S    *sutc.SUT
	Name string
	Addr string
	Port int
}

func startTCPSvc(s *sutc.SUT, hosts []sutc.Host, o TCPOpts) (*TCPSvc, error) {
	var lastErr error
	for attempt := 0; attempt < 5; attempt++ {
		name := fmt.Sprintf("t%d_%d", s.Pid(), atomic.AddInt64(&svcSeq, 1))
		port, release := holdPort()
		if err := s.NewProc(name, tcpConfigJSON(port, o), hosts); err != nil {
			release()
			return nil, fmt.Errorf("proc_new: %v", err)
		}
		if err := s.StartProc(name); err != nil {
			return nil, fmt.Errorf("proc_start: %v", err)
		}
		svc := &TCPSvc{S: s, Name: name, Port: port, Addr: "127.0.0.1:" + strconv.Itoa(port)}
		ok := waitBound(s, name, svc.Addr, 3*time.Second)
		release()
		if ok {
			return svc, nil
		}
		lastErr = fmt.Errorf("listener of %s did not bind %s", name, svc.Addr)
		s.StopProc(name, 10*time.Second)
	}
	return nil, lastErr
}
