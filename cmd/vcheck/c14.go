package main

import (
	"bytes"
	"fmt"
	"math/rand"
	"sort"
	"strings"
	"sync"
	"sync/atomic"
	"time"

	predis "github.com/samaritan-proxy/samaritan/pb/config/protocol/redis"

	"verif/internal/ev"
	"verif/internal/fakecluster"
	"verif/internal/resp"
)

func init() {
	register(&Check{ID: "C14", Level: "exploration", Drive: c14})
}

func mixCase(rnd *rand.Rand, s string, mode int) string {
	for i := 0; i < len(s); i++ {
		if s[i] >= 0x80 || s[i] == 0 { // keep non-ASCII near-miss names byte-exact
			return s
		}
	}
	switch mode {
	case 0:
		return strings.ToLower(s)
	case 1:
		return strings.ToUpper(s)
	}
	b := []byte(strings.ToLower(s))
	for i := range b {
		if rnd.Intn(2) == 0 {
			b[i] = bytes.ToUpper(b[i : i+1])[0]
		}
	}
	return string(b)
}

// canModify tells whether the reference command table says this forwarded command can modify data.
func canModify(cmd string, args [][]byte) bool {
	hasStore := func() bool {
		for _, a := range args[1:] {
			u := strings.ToUpper(string(a))
			if u == "STORE" || u == "STOREDIST" {
				return true
			}
		}
		return false
	}
	switch cmd {
	case "sort", "georadius", "georadiusbymember":
		return hasStore()
	case "eval", "evalsha":
		return true
	}
	return redisCommands[cmd] == "w"
}

type arrival struct {
	node    int
	replica bool
	cmd     string
	args    [][]byte
	outcome string
}

func c14(r *ev.Run) {
	rnd := rand.New(rand.NewSource(r.Seed))
	r.Rule("gate: every name of the Redis 5.0 command table + the documented unsupported list + PRNG non-Redis names, in lower / UPPER / mixed case, with 0-5 arguments (a unique id in the key position joins replies with node logs); routing: every documented supported command with template-generated arguments under read strategies MASTER / REPLICA / BOTH over layouts with 1-2 replicas per master; distinct = distinct (command name, case mode, argument count) and (command, strategy, receiving role) tuples")
	r.Assume("reference = Redis 5.0 command table flags (write / read-only) and the proxy documentation's unsupported list, written into cmd/vcheck/spec.go")
	r.Assume("commands outside the must-reject and locally-answered sets are judged only by the routing rule (supporting an additional routable command is not a violation)")

	s, err := startSUT(r, false, 60000, 20)
	if err != nil {
		r.Internal("start sut: %v", err)
		return
	}
	defer s.Close()

	mustReject := map[string]bool{}
	for _, n := range documentedUnsupported {
		mustReject[n] = true
	}
	local := map[string]bool{}
	for _, n := range locallyAnswered {
		local[n] = true
	}
	for n, f := range redisCommands {
		if f == "-" && !local[n] && n != "eval" {
			mustReject[n] = true
		}
	}
	var names []string
	nearMiss := map[string]bool{}
	seen := map[string]bool{}
	for n := range redisCommands {
		if !seen[n] {
			seen[n] = true
			names = append(names, n)
		}
	}
	for _, n := range documentedUnsupported {
		if !seen[n] {
			seen[n] = true
			names = append(names, n)
		}
	}
	sort.Strings(names)
	nrandom := 150
	if r.Tier == "thorough" {
		nrandom = 2500
	}
	for i := 0; i < nrandom; i++ {
		b := make([]byte, 1+rnd.Intn(10))
		for j := range b {
			b[j] = "abcdefghijklmnopqrstuvwxyz_-.0123456789"[rnd.Intn(39)]
		}
		n := string(b)
		if _, isRedis := redisCommands[n]; isRedis || local[n] || seen[n] {
			continue
		}
		// near misses of supported names are the interesting ones
		if i%3 == 0 {
			base := supportedKeyed[rnd.Intn(len(supportedKeyed))].Name
			n = base + string(b[:1])
			if _, isRedis := redisCommands[n]; isRedis || local[n] || seen[n] {
				continue
			}
		}
		seen[n] = true
		mustReject[n] = true
		names = append(names, n)
	}

	// systematic near misses of every supported name (truncation / prefix / suffix matching bugs)
	// and names that only match after Unicode case folding (U+212A KELVIN SIGN -> k, U+0130 -> i).
	for _, c := range supportedKeyed {
		vars := []string{c.Name + "x", c.Name + "_ro", "x" + c.Name, c.Name + c.Name, c.Name[:len(c.Name)-1] + "\x00", c.Name + " "}
		if len(c.Name) > 2 {
			vars = append(vars, c.Name[:len(c.Name)-1])
		}
		if i := strings.IndexByte(c.Name, 'k'); i >= 0 {
			vars = append(vars, c.Name[:i]+"\u212a"+c.Name[i+1:])
		}
		if i := strings.IndexByte(c.Name, 'i'); i >= 0 {
			vars = append(vars, c.Name[:i]+"\u0130"+c.Name[i+1:])
		}
		for _, n := range vars {
			if _, isRedis := redisCommands[n]; isRedis || local[n] || seen[n] || supportedByName[n].Name != "" {
				continue
			}
			seen[n] = true
			mustReject[n] = true
			nearMiss[n] = true
			names = append(names, n)
		}
	}

	strategies := []predis.ReadStrategy{predis.ReadStrategy_MASTER, predis.ReadStrategy_REPLICA, predis.ReadStrategy_BOTH}
	uidSeq := 0
	for li, strat := range strategies {
		nm := 2 + rnd.Intn(3)
		nrep := 1 + rnd.Intn(2)
		cl, err := fakecluster.New(nm, nrep)
		if err != nil {
			r.Internal("fakecluster: %v", err)
			return
		}
		layout := randomLayout(rnd, cl)
		var mu sync.Mutex
		var arrivals []arrival
		cl.LogArgs = false
		cl.OnEvent = func(e *fakecluster.Event) {
			switch e.Cmd {
			case "readonly", "cluster", "asking":
				return
			}
			mu.Lock()
			arrivals = append(arrivals, arrival{node: e.Node, replica: e.Replica, cmd: e.Cmd, args: e.Args, outcome: e.Outcome})
			mu.Unlock()
		}
		svc, err := startRedisSvc(s, cl, cl.Addrs(), RedisOpts{ReadStrategy: strat})
		if err != nil {
			cl.Close()
			r.Internal("%v", err)
			return
		}
		if !svc.WaitRouting(1, 10*time.Second) {
			cl.Close()
			r.Internal("routing table never loaded")
			return
		}
		conn, err := svc.Dial()
		if err != nil {
			r.Internal("dial: %v", err)
			return
		}
		take := func() []arrival {
			mu.Lock()
			defer mu.Unlock()
			a := arrivals
			arrivals = nil
			return a
		}
		// wait until the connections to all nodes are established and READONLY went through: warm-up
		take()

		// judgeArrivals applies the routing rule to the arrivals caused by one client command.
		judgeArrivals := func(sent [][]byte, as []arrival, stratName string) {
			for _, a := range as {
				key, ok := fakecluster.KeyOf(a.cmd, a.args)
				if !ok {
					continue
				}
				slot := fakecluster.Slot(key)
				cl.Lock()
				owner := cl.Nodes[0].OwnerLocked(slot)
				recv := cl.Nodes[a.node]
				recvMaster := recv.Master()
				cl.Unlock()
				write := canModify(a.cmd, a.args)
				role := "master"
				if a.replica {
					role = "replica"
				}
				r.Distinct(fmt.Sprintf("route/%s/%s/%s", a.cmd, stratName, role))
				r.Count("arrivals_judged", 1)
				if a.replica {
					r.Count("arrivals_at_replicas", 1)
				}
				switch {
				case write && (a.replica || recv != owner):
					r.Violation("C14:write-not-at-owning-master:"+a.cmd, fmt.Sprintf("%s (can modify data) was sent to %s node %d under strategy %s; owner of slot %d is node %d", a.cmd, role, a.node, stratName, slot, owner.Idx),
						map[string]interface{}{"sent": argStrings(sent), "arrived": argStrings(a.args), "strategy": stratName, "receiver": a.node, "receiver_role": role, "owner": owner.Idx, "layout": layout})
				case !write && a.replica && strat == predis.ReadStrategy_MASTER:
					r.Violation("C14:replica-read-under-MASTER:"+a.cmd, "a read was sent to a replica although the read strategy is MASTER",
						map[string]interface{}{"sent": argStrings(sent), "arrived": argStrings(a.args), "receiver": a.node})
				case !write && a.replica && recvMaster != owner:
					r.Violation("C14:read-at-foreign-replica:"+a.cmd, "a read was sent to a replica of another shard",
						map[string]interface{}{"sent": argStrings(sent), "arrived": argStrings(a.args), "receiver": a.node, "owner": owner.Idx})
				case !a.replica && recv != owner:
					r.Violation("C14:sent-to-non-owner:"+a.cmd, "a command was first sent to a master that does not own the key's slot",
						map[string]interface{}{"sent": argStrings(sent), "arrived": argStrings(a.args), "receiver": a.node, "owner": owner.Idx})
				}
			}
		}

		// ---- gate check
		for _, name := range names {
			for caseMode := 0; caseMode < 3; caseMode++ {
				if li > 0 && caseMode != li { // full product only under the first strategy
					continue
				}
				for _, nargs := range []int{0, 1, 2, 3, 5} {
					if r.Tier != "thorough" && nargs == 5 && caseMode != 2 {
						continue
					}
					if nearMiss[name] && (li > 0 || (nargs != 1 && nargs != 3)) {
						continue
					}
					uidSeq++
					uid := fmt.Sprintf("uid%dz", uidSeq)
					args := [][]byte{[]byte(mixCase(rnd, name, caseMode))}
					for i := 0; i < nargs; i++ {
						if i == 0 {
							args = append(args, []byte(uid))
						} else if i == 2 {
							args = append(args, []byte(uid+".k3")) // key position of EVAL-like commands
						} else {
							args = append(args, []byte(fmt.Sprint(i)))
						}
					}
					if local[name] && nargs > 1 {
						continue
					}
					v, err := conn.Do(20*time.Second, args...)
					if err != nil {
						r.Violation("C14:no-reply", "no reply for command "+name, map[string]interface{}{"sent": argStrings(args), "error": err.Error()})
						conn.Close()
						conn, _ = svc.Dial()
						continue
					}
					as := take()
					reached := false
					for _, a := range as {
						for _, x := range a.args {
							if bytes.Contains(x, []byte(uid)) {
								reached = true
							}
						}
						if nargs == 0 && a.cmd == strings.ToLower(name) {
							reached = true
						}
					}
					r.Case(fmt.Sprintf("gate/%s/%d/%d", name, caseMode, nargs))
					switch {
					case mustReject[name]:
						r.Count("gate_must_reject", 1)
						if v.Kind != resp.Error {
							r.Violation("C14:unsupported-not-rejected:"+name, "a command outside the supported set was not answered with an error",
								map[string]interface{}{"sent": argStrings(args), "reply": v.String()})
						}
						if reached {
							r.Violation("C14:unsupported-reached-backend:"+name, "a command outside the supported set was sent to a backend",
								map[string]interface{}{"sent": argStrings(args), "reply": v.String(), "arrivals": len(as)})
						}
					case local[name]:
						r.Count("gate_local", 1)
						if v.Kind == resp.Error || reached {
							r.Violation("C14:local-command:"+name, "a command the proxy answers itself got an error or reached a backend",
								map[string]interface{}{"sent": argStrings(args), "reply": v.String(), "reached_backend": reached})
						}
					default:
						r.Count("gate_routable", 1)
						judgeArrivals(args, as, strat.String())
					}
				}
			}
		}

		// ---- routing check: documented supported commands with sensible arguments
		rounds := 3
		if r.Tier == "thorough" {
			rounds = 12
		}
		keys := keyPool(rnd, 12)
		for round := 0; round < rounds; round++ {
			for _, c := range supportedKeyed {
				args := genArgs(rnd, c, keys, false)
				if c.Name == "sort" && rnd.Intn(2) == 0 {
					args = append(args, []byte("STORE"), sameSlotKey(rnd, args[1]))
				}
				if (c.Name == "georadius" || c.Name == "georadiusbymember") && rnd.Intn(4) != 0 {
					// the storing forms of an otherwise read-only looking command, in any letter case and behind another option
					if rnd.Intn(2) == 0 {
						args = append(args, []byte("COUNT"), []byte("3"))
					}
					opt := []string{"STORE", "STOREDIST", "storedist", "StoreDist", "store"}[rnd.Intn(5)]
					args = append(args, []byte(opt), sameSlotKey(rnd, args[1]))
				}
				if _, err := conn.Do(20*time.Second, args...); err != nil {
					r.Violation("C14:no-reply", "no reply for command "+c.Name, map[string]interface{}{"sent": argStrings(args), "error": err.Error()})
					conn.Close()
					conn, _ = svc.Dial()
					continue
				}
				judgeArrivals(args, take(), strat.String())
				r.Case(fmt.Sprintf("route-cmd/%s/%s", c.Name, strat))
			}
			for _, name := range multiKeyCmds {
				args := [][]byte{[]byte(name)}
				for i := 1 + rnd.Intn(5); i > 0; i-- {
					args = append(args, keys[rnd.Intn(len(keys))])
					if name == "mset" {
						args = append(args, []byte("v"))
					}
				}
				if _, err := conn.Do(20*time.Second, args...); err != nil {
					continue
				}
				judgeArrivals(args, take(), strat.String())
				r.Case(fmt.Sprintf("route-cmd/%s/%s", name, strat))
			}
			ev := [][]byte{[]byte("EVAL"), []byte("return redis.call('set',KEYS[1],'x')"), []byte("1"), keys[rnd.Intn(len(keys))]}
			if _, err := conn.Do(20*time.Second, ev...); err == nil {
				judgeArrivals(ev, take(), strat.String())
			}
		}
		if li == 0 {
			r.Sample(map[string]interface{}{"strategy": strat.String(), "masters": nm, "replicas_per_master": nrep, "layout": layout, "names_tested": len(names)})
		}
		conn.Close()
		s.StopProc(svc.Name, 20*time.Second)
		cl.Close()
	}
	c14RefreshStorm(r)
	c14StrategyUpdate(r)
	c14ReplicaMigration(r)
	r.Require("gate_must_reject", 300)
	r.Require("arrivals_judged", 300)
	r.Require("arrivals_at_replicas", 20)
}

func argStrings(args [][]byte) []string {
	out := make([]string, len(args))
	for i, a := range args {
		out[i] = abbrevArg(a)
	}
	return out
}

// c14RefreshStorm judges the routing rule while the routing table is being refreshed continuously
// (stable topology): a refresh must never make a write land on a replica or a foreign master.
func c14RefreshStorm(r *ev.Run) {
	s, err := startSUT(r, false, 2, 1)
	if err != nil {
		r.Internal("start sut: %v", err)
		return
	}
	defer s.Close()
	rnd := rand.New(rand.NewSource(r.Seed + 99))
	for _, strat := range []predis.ReadStrategy{predis.ReadStrategy_MASTER, predis.ReadStrategy_BOTH} {
		cl, err := fakecluster.New(3, 2)
		if err != nil {
			r.Internal("fakecluster: %v", err)
			return
		}
		layout := randomLayout(rnd, cl)
		cl.LogArgs = false
		var mu sync.Mutex
		armed := false
		refreshes := 0
		cl.OnEvent = func(e *fakecluster.Event) {
			if e.Cmd == "cluster" {
				mu.Lock()
				refreshes++
				mu.Unlock()
				return
			}
			if e.Cmd == "readonly" || e.Cmd == "asking" {
				return
			}
			mu.Lock()
			on := armed
			mu.Unlock()
			if !on {
				return
			}
			key, ok := fakecluster.KeyOf(e.Cmd, e.Args)
			if !ok {
				return
			}
			owner := cl.Nodes[0].OwnerLocked(fakecluster.Slot(key)) // called under the cluster lock
			write := canModify(e.Cmd, e.Args)
			r.Count("storm_arrivals_judged", 1)
			recv := cl.Nodes[e.Node]
			if write && (e.Replica || recv != owner) {
				r.Violation("C14:write-not-at-owning-master-during-refresh:"+e.Cmd, fmt.Sprintf("%s was sent to node %d (replica=%v) while the routing table was being refreshed; owner is node %d", e.Cmd, e.Node, e.Replica, owner.Idx),
					map[string]interface{}{"arrived": argStrings(e.Args), "strategy": strat.String(), "layout": layout})
			}
			if !write && ((e.Replica && (strat == predis.ReadStrategy_MASTER || recv.Master() != owner)) || (!e.Replica && recv != owner)) {
				r.Violation("C14:read-misrouted-during-refresh:"+e.Cmd, "a read was sent to a node that may not serve it while the routing table was being refreshed",
					map[string]interface{}{"arrived": argStrings(e.Args), "strategy": strat.String(), "receiver": e.Node})
			}
		}
		svc, err := startRedisSvc(s, cl, cl.Addrs(), RedisOpts{ReadStrategy: strat})
		if err != nil {
			cl.Close()
			r.Internal("%v", err)
			return
		}
		if !svc.WaitRouting(3, 10*time.Second) {
			cl.Close()
			r.Internal("routing table never loaded")
			return
		}
		mu.Lock()
		armed = true
		mu.Unlock()
		nreq := 1500
		if r.Tier == "thorough" {
			nreq = 12000
		}
		var wg sync.WaitGroup
		for c := 0; c < 8; c++ {
			wg.Add(1)
			go func(c int) {
				defer wg.Done()
				crnd := rand.New(rand.NewSource(r.Seed*17 + int64(c)))
				conn, err := svc.Dial()
				if err != nil {
					return
				}
				defer conn.Close()
				for i := 0; i < nreq; i++ {
					k := fmt.Sprintf("storm.%d.%d", c, crnd.Intn(5000))
					if crnd.Intn(2) == 0 {
						conn.DoS(20*time.Second, "SET", k, "v")
					} else {
						conn.DoS(20*time.Second, "GET", k)
					}
				}
			}(c)
		}
		wg.Wait()
		mu.Lock()
		armed = false
		r.Count("storm_refreshes_during_traffic", int64(refreshes))
		mu.Unlock()
		r.Case("storm/" + strat.String())
		s.StopProc(svc.Name, 20*time.Second)
		cl.Close()
	}
	r.Require("storm_refreshes_during_traffic", 20)
	r.Require("storm_arrivals_judged", 1000)
}

// c14StrategyUpdate: the read strategy is also delivered at run time (service config update). After an update to MASTER has been
// applied, no read may arrive at a replica any more; writes never arrive at replicas whatever the history of strategies.
func c14StrategyUpdate(r *ev.Run) {
	s, err := startSUT(r, false, 60000, 20)
	if err != nil {
		r.Internal("start sut: %v", err)
		return
	}
	defer s.Close()
	rnd := rand.New(rand.NewSource(r.Seed + 314))
	type step struct{ from, to predis.ReadStrategy }
	steps := []step{{predis.ReadStrategy_REPLICA, predis.ReadStrategy_MASTER}, {predis.ReadStrategy_BOTH, predis.ReadStrategy_MASTER},
		{predis.ReadStrategy_MASTER, predis.ReadStrategy_REPLICA}, {predis.ReadStrategy_MASTER, predis.ReadStrategy_BOTH}}
	for _, st := range steps {
		cl, err := fakecluster.New(3, 1+rnd.Intn(2))
		if err != nil {
			r.Internal("fakecluster: %v", err)
			return
		}
		layout := randomLayout(rnd, cl)
		cl.LogArgs = false
		var mu sync.Mutex
		current := st.from // the strategy every request issued from now on is subject to
		armed := false
		replicaReads := map[string]int{}
		cl.OnEvent = func(e *fakecluster.Event) {
			if e.Cmd == "cluster" || e.Cmd == "readonly" || e.Cmd == "asking" {
				return
			}
			key, ok := fakecluster.KeyOf(e.Cmd, e.Args)
			if !ok {
				return
			}
			mu.Lock()
			cur, on := current, armed
			if on && e.Replica {
				replicaReads[cur.String()]++
			}
			mu.Unlock()
			if !on {
				return
			}
			owner := cl.Nodes[0].OwnerLocked(fakecluster.Slot(key))
			recv := cl.Nodes[e.Node]
			write := canModify(e.Cmd, e.Args)
			r.Count("strategy_update_arrivals_judged", 1)
			w := map[string]interface{}{"arrived": argStrings(e.Args), "started_with": st.from.String(), "updated_to": st.to.String(), "in_force": cur.String(), "receiver": e.Node, "layout": layout}
			switch {
			case write && (e.Replica || recv != owner):
				r.Violation("C14:write-not-at-owning-master-after-strategy-update:"+e.Cmd, fmt.Sprintf("%s was sent to node %d (replica=%v); owner is node %d", e.Cmd, e.Node, e.Replica, owner.Idx), w)
			case !write && e.Replica && cur == predis.ReadStrategy_MASTER:
				r.Violation("C14:replica-read-under-MASTER-after-strategy-update:"+e.Cmd, "the service was started with read strategy "+st.from.String()+" and updated to MASTER at run time, and a read still arrived at a replica", w)
			case !write && e.Replica && recv.Master() != owner:
				r.Violation("C14:read-at-foreign-replica-after-strategy-update:"+e.Cmd, "a read arrived at a replica of another master", w)
			}
		}
		svc, err := startRedisSvc(s, cl, cl.Addrs(), RedisOpts{ReadStrategy: st.from})
		if err != nil {
			cl.Close()
			r.Internal("%v", err)
			return
		}
		if !svc.WaitRouting(1, 10*time.Second) {
			cl.Close()
			r.Internal("routing table never loaded")
			return
		}
		conn, err := svc.Dial()
		if err != nil {
			cl.Close()
			r.Internal("dial: %v", err)
			return
		}
		traffic := func(n int) {
			for i := 0; i < n; i++ {
				k := fmt.Sprintf("su.%d", rnd.Intn(3000))
				switch rnd.Intn(4) {
				case 0:
					conn.DoS(20*time.Second, "SET", k, "v")
				case 1:
					conn.DoS(20*time.Second, "HSET", k+".h", "f", "v")
				case 2:
					conn.DoS(20*time.Second, "HGETALL", k+".h")
				default:
					conn.DoS(20*time.Second, "GET", k)
				}
			}
		}
		mu.Lock()
		armed = true
		mu.Unlock()
		traffic(300)
		// quiescent (request / reply on one connection), then the update; it is applied when the control call returns
		o := svc.Opts
		o.ReadStrategy = st.to
		if err := s.ConfigUpdate(svc.Name, redisConfigJSON(svc.Port, o)); err != nil {
			r.Internal("config_update: %v", err)
			conn.Close()
			cl.Close()
			return
		}
		mu.Lock()
		current = st.to
		mu.Unlock()
		traffic(600)
		conn.Close()
		mu.Lock()
		armed = false
		rr := fmt.Sprintf("%v", replicaReads)
		mu.Unlock()
		r.Case("strategy-update/" + st.from.String() + "->" + st.to.String())
		r.Count("strategy_updates_applied", 1)
		if st == steps[0] {
			r.Sample(map[string]interface{}{"strategy_update": st.from.String() + " -> " + st.to.String(), "reads_that_arrived_at_replicas_by_strategy_in_force": rr})
		}
		if st.from != predis.ReadStrategy_MASTER && replicaReads[st.from.String()] == 0 {
			r.Inconclusive("no-replica-read-before-the-update:" + st.from.String()) // then the update to MASTER proves nothing
		}
		s.StopProc(svc.Name, 20*time.Second)
		cl.Close()
	}
	r.Require("strategy_updates_applied", 4)
	r.Require("strategy_update_arrivals_judged", 1500)
}

// c14ReplicaMigration: replicas change masters while the masters keep their slots (replica migration, a new replica, a replica gone).
// Once the proxy has fetched the new layout, a read may only arrive at the owning master or at one of ITS replicas.
func c14ReplicaMigration(r *ev.Run) {
	s, err := startSUT(r, false, 60000, 20)
	if err != nil {
		r.Internal("start sut: %v", err)
		return
	}
	defer s.Close()
	rnd := rand.New(rand.NewSource(r.Seed + 1414))
	for _, strat := range []predis.ReadStrategy{predis.ReadStrategy_REPLICA, predis.ReadStrategy_BOTH} {
		cl, err := fakecluster.New(2+rnd.Intn(2), 1)
		if err != nil {
			r.Internal("fakecluster: %v", err)
			return
		}
		layout := randomLayout(rnd, cl)
		cl.LogArgs = false
		var mu sync.Mutex
		armed := false
		var fetches int64
		cl.OnEvent = func(e *fakecluster.Event) {
			if e.Cmd == "cluster" {
				atomic.AddInt64(&fetches, 1)
				return
			}
			if e.Cmd == "readonly" || e.Cmd == "asking" {
				return
			}
			mu.Lock()
			on := armed
			mu.Unlock()
			key, ok := fakecluster.KeyOf(e.Cmd, e.Args)
			if !on || !ok {
				return
			}
			owner := cl.Nodes[0].OwnerLocked(fakecluster.Slot(key))
			recv := cl.Nodes[e.Node]
			r.Count("replica_migration_arrivals_judged", 1)
			if e.Replica {
				r.Count("replica_migration_reads_at_replicas", 1)
			}
			if e.Replica && recv.Master() != owner {
				r.Violation("C14:read-at-foreign-replica:after-replica-migration:"+e.Cmd, fmt.Sprintf("a read of slot %d (owner node %d) arrived at node %d, which now replicates node %d: the proxy kept the replica list it had before the replicas changed masters", fakecluster.Slot(key), owner.Idx, e.Node, recv.Master().Idx),
					map[string]interface{}{"strategy": strat.String(), "arrived": argStrings(e.Args), "layout": layout})
			}
			if !e.Replica && recv != owner {
				r.Violation("C14:read-misrouted:after-replica-migration:"+e.Cmd, "a command arrived at a master that does not own its slot", map[string]interface{}{"strategy": strat.String(), "arrived": argStrings(e.Args)})
			}
		}
		svc, err := startRedisSvc(s, cl, cl.Addrs(), RedisOpts{ReadStrategy: strat})
		if err != nil || !svc.WaitRouting(1, 10*time.Second) {
			r.Internal("service did not start: %v", err)
			cl.Close()
			return
		}
		conn, err := svc.Dial()
		if err != nil {
			r.Internal("dial: %v", err)
			cl.Close()
			return
		}
		reads := func(n int) {
			for i := 0; i < n; i++ {
				conn.DoS(20*time.Second, "GET", fmt.Sprintf("rm.%d", rnd.Intn(4000)))
			}
		}
		reads(200)
		// rotate the replicas: the replica of master i now replicates master i+1
		ms := cl.Masters()
		cl.Lock()
		var reps []*fakecluster.Node
		for _, m := range ms {
			reps = append(reps, cl.Replicas(m)...)
		}
		for i, rp := range reps {
			cl.ReattachLocked(rp, ms[(i+1)%len(ms)])
		}
		cl.Unlock()
		// the proxy learns it: a host event triggers a refresh; wait until a fetch issued after the change has been served
		before := atomic.LoadInt64(&fetches)
		s.HostOp("host_add", svc.Name, hostsOf(cl.Addrs()[:1]))
		fetched := false
		for i := 0; i < 300 && !fetched; i++ {
			fetched = atomic.LoadInt64(&fetches) > before
			time.Sleep(10 * time.Millisecond)
		}
		if !fetched {
			r.Inconclusive("replica-migration:no-refresh-observed")
		} else {
			time.Sleep(100 * time.Millisecond) // the fetched layout is applied
			mu.Lock()
			armed = true
			mu.Unlock()
			reads(600)
			mu.Lock()
			armed = false
			mu.Unlock()
			r.Count("replica_migrations_judged", 1)
		}
		r.Case("replica-migration/" + strat.String())
		conn.Close()
		s.StopProc(svc.Name, 20*time.Second)
		cl.Close()
	}
	r.Require("replica_migrations_judged", 2)
	r.Require("replica_migration_reads_at_replicas", 100)
}
