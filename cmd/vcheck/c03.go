package main

import (
	"bytes"
	"fmt"
	"math/rand"
	"strings"
	"sync/atomic"
	"time"

	"verif/internal/ev"
	"verif/internal/fakecluster"
	"verif/internal/rclient"
	"verif/internal/refredis"
	"verif/internal/resp"
	"verif/internal/sutc"
)

func init() {
	register(&Check{ID: "C03", Level: "exploration", Drive: c03})
}

// keyPool builds a small pool of keys: plain, hash-tagged, degenerate tags, binary.
func keyPool(rnd *rand.Rand, n int) [][]byte {
	fixed := []string{"", "a", "foo", "{user1000}.following", "{user1000}.followers", "foo{}{bar}", "foo{{bar}}zap", "foo{bar}{zap}",
		"a}b{tag}c", "}{x}", "{", "}", "{}", "x{", "k\r\nk", "k\x00k", "\xff\xfe", "key with space", "*3", "$-1"}
	var out [][]byte
	for _, f := range fixed {
		out = append(out, []byte(f))
	}
	for len(out) < n {
		b := make([]byte, 1+rnd.Intn(12))
		for i := range b {
			b[i] = "abcxyz0123{}:.-_\r\n\x00"[rnd.Intn(19)]
		}
		out = append(out, b)
	}
	rnd.Shuffle(len(out), func(i, j int) { out[i], out[j] = out[j], out[i] })
	return out[:n]
}

var valLens = []int{0, 1, 2, 7, 64, 511, 512, 513, 4095, 4096, 4097, 8191, 8192, 8193, 16383, 16384, 16385}

func genVal(rnd *rand.Rand, big bool) []byte {
	n := rnd.Intn(24)
	switch rnd.Intn(10) {
	case 0:
		n = valLens[rnd.Intn(len(valLens))]
	case 1:
		if big {
			n = (1 << 20) + rnd.Intn(7<<20)
		}
	}
	b := make([]byte, n)
	switch rnd.Intn(3) {
	case 0:
		rnd.Read(b)
	case 1:
		for i := range b {
			b[i] = "ab\r\n\x00\xff$*+-:"[rnd.Intn(11)]
		}
	default:
		for i := range b {
			b[i] = byte('0' + rnd.Intn(10))
		}
	}
	return b
}

// sameSlotKey returns a key hashing to the same slot as k (via a hash tag when possible).
func sameSlotKey(rnd *rand.Rand, k []byte) []byte {
	tag := fakecluster.HashTag(k)
	if bytes.ContainsAny(tag, "{}") || len(tag) == 0 {
		return k // cannot build a different key in the same slot safely
	}
	return []byte(fmt.Sprintf("{%s}.%d", tag, rnd.Intn(3)))
}

// genArgs instantiates a command template.
func genArgs(rnd *rand.Rand, c cmdSpec, keys [][]byte, big bool) [][]byte {
	name := c.Name
	switch rnd.Intn(3) {
	case 0:
		name = strings.ToUpper(name)
	case 1:
		b := []byte(name)
		for i := range b {
			if rnd.Intn(2) == 0 {
				b[i] = byte(strings.ToUpper(string(b[i]))[0])
			}
		}
		name = string(b)
	}
	args := [][]byte{[]byte(name)}
	toks := strings.Fields(c.Tmpl)
	var first []byte
	var group [][]string
	_ = group
	emit := func(t string) {
		switch t {
		case "k":
			k := keys[rnd.Intn(len(keys))]
			if first == nil {
				first = k
			}
			args = append(args, k)
		case "K":
			args = append(args, sameSlotKey(rnd, first))
		case "v":
			args = append(args, genVal(rnd, big))
		case "f":
			args = append(args, []byte(fmt.Sprintf("f%d", rnd.Intn(4))))
		case "i":
			args = append(args, []byte(fmt.Sprint(rnd.Intn(9)-2)))
		case "s":
			args = append(args, []byte(fmt.Sprint(float64(rnd.Intn(50))/2)))
		case "b":
			args = append(args, []byte(fmt.Sprint(rnd.Intn(2))))
		}
	}
	for i := 0; i < len(toks); i++ {
		switch toks[i] {
		case "L":
			i++
			args = append(args, []byte(toks[i]))
		case "+":
			// repeat the previous group (everything after the key) 0-3 times
			grp := toks[1:i]
			for r := rnd.Intn(4); r > 0; r-- {
				for _, t := range grp {
					emit(t)
				}
			}
		default:
			emit(toks[i])
		}
	}
	return args
}

// refExec applies one client command to the single-server reference, with the
// multi-key commands defined as their per-key commands combined in argument order.
// ok=false means the expected reply is "any error" (request rejected by the proxy itself).
func refExec(ref *refredis.DB, args [][]byte) (want resp.Value, exact bool) {
	cmd := strings.ToLower(string(args[0]))
	switch cmd {
	case "mget":
		if len(args) < 2 {
			return resp.Value{}, false
		}
		out := make([]resp.Value, 0, len(args)-1)
		for _, k := range args[1:] {
			out = append(out, ref.Exec([][]byte{[]byte("get"), k}))
		}
		return resp.A(out...), true
	case "mset":
		if len(args) < 3 || len(args)%2 != 1 {
			return resp.Value{}, false
		}
		for i := 1; i+1 < len(args); i += 2 {
			ref.Exec([][]byte{[]byte("set"), args[i], args[i+1]})
		}
		return resp.S("OK"), true
	case "del", "exists", "touch", "unlink":
		if len(args) < 2 {
			return resp.Value{}, false
		}
		total := int64(0)
		for _, k := range args[1:] {
			v := ref.Exec([][]byte{args[0], k})
			if v.Kind != resp.Integer {
				return resp.Value{}, false
			}
			total += v.Int
		}
		return resp.I(total), true
	}
	if len(args) < 2 {
		return resp.Value{}, false
	}
	return ref.Exec(args), true
}

type c03Conf struct {
	masters, replicas int
	layout            string
}

func c03Layout(rnd *rand.Rand, cl *fakecluster.Cluster) string {
	ms := cl.Masters()
	if len(ms) > 1 && rnd.Intn(5) == 0 {
		// single-slot owners: the last master owns exactly one slot
		lone := rnd.Intn(fakecluster.NumSlots)
		rest := ms[:len(ms)-1]
		cl.AssignAll(func(s int) *fakecluster.Node {
			if s == lone {
				return ms[len(ms)-1]
			}
			return rest[s%len(rest)]
		})
		return "single-slot-owner"
	}
	return randomLayout(rnd, cl)
}

// c03ModeA runs sequential programs and compares every reply with the reference.
func c03ModeA(r *ev.Run, s *sutc.SUT, seed int64, nprog int, big bool, label string) {
	rnd := rand.New(rand.NewSource(seed))
	for pi := 0; pi < nprog; pi++ {
		if !s.Alive() {
			r.Violation("C03:sut-died", "the proxy died: "+s.CrashLine(), map[string]interface{}{"log_tail": s.LogTail(3000)})
			return
		}
		nm := 1 + rnd.Intn(8)
		nrep := rnd.Intn(2)
		cl, err := fakecluster.New(nm, nrep)
		if err != nil {
			r.Internal("fakecluster: %v", err)
			return
		}
		layout := c03Layout(rnd, cl)
		svc, err := startRedisSvc(s, cl, cl.Addrs(), RedisOpts{})
		if err != nil {
			cl.Close()
			r.Internal("%v", err)
			return
		}
		if !svc.WaitRouting(1, 10*time.Second) {
			cl.Close()
			r.Internal("routing table never loaded")
			return
		}
		cl.ResetLog()
		var redirects int64
		cl.LogArgs = false
		cl.OnEvent = func(e *fakecluster.Event) {
			if e.Outcome == fakecluster.Moved || e.Outcome == fakecluster.Ask {
				atomic.AddInt64(&redirects, 1)
			}
		}
		ref := refredis.New()
		nconn := 1 + rnd.Intn(16)
		conns := make([]*rclient.Conn, nconn)
		for i := range conns {
			conns[i], err = svc.Dial()
			if err != nil {
				r.Internal("dial: %v", err)
				return
			}
		}
		keys := keyPool(rnd, 6+rnd.Intn(10))
		ncmd := 50 + rnd.Intn(350)
		if big && pi%10 == 0 {
			ncmd = 40
		}
		type step struct {
			Args []string
			Want string
			Got  string
		}
		var trace []step
		failed := false
		for ci := 0; ci < ncmd && !failed; ci++ {
			var args [][]byte
			switch x := rnd.Intn(100); {
			case x < 12:
				name := multiKeyCmds[rnd.Intn(len(multiKeyCmds))]
				args = [][]byte{[]byte(name)}
				n := 1 + rnd.Intn(6)
				for i := 0; i < n; i++ {
					args = append(args, keys[rnd.Intn(len(keys))])
					if name == "mset" {
						args = append(args, genVal(rnd, big && pi%10 == 0))
					}
				}
				if rnd.Intn(15) == 0 {
					args = args[:len(args)-1] // arity-wrong
				}
			default:
				c := supportedKeyed[rnd.Intn(len(supportedKeyed))]
				if x < 60 { // bias to modelled commands so that state matters
					for {
						c = supportedKeyed[rnd.Intn(len(supportedKeyed))]
						probe := refredis.New().Exec([][]byte{[]byte(c.Name), []byte("k")})
						if !(probe.Kind == resp.Array && len(probe.Arr) > 0 && string(probe.Arr[0].Str) == "echo") {
							break
						}
					}
				}
				args = genArgs(rnd, c, keys, big && pi%10 == 0)
				if rnd.Intn(25) == 0 && len(args) > 2 {
					args = args[:len(args)-1] // deliberately arity-wrong
				}
			}
			want, exact := refExec(ref, args)
			conn := conns[ci%nconn]
			got, err := conn.Do(60*time.Second, args...)
			cname := strings.ToLower(string(args[0]))
			st := step{Want: want.String()}
			for _, a := range args {
				st.Args = append(st.Args, abbrevArg(a))
			}
			if err != nil {
				st.Got = "error: " + err.Error()
				trace = append(trace, st)
				r.Violation("C03:no-reply:"+cname, "no reply to a supported command on a stable cluster", map[string]interface{}{"workload": label, "seed": seed, "program": pi, "layout": layout, "masters": nm, "trace_tail": tail(trace, 12)})
				failed = true
				break
			}
			st.Got = got.String()
			trace = append(trace, st)
			okc := false
			if exact {
				okc = got.Equal(want)
			} else {
				okc = got.Kind == resp.Error
			}
			if !okc {
				r.Violation("C03:reply-differs:"+cname, "reply differs from the single-server reference", map[string]interface{}{"workload": label, "seed": seed, "program": pi, "layout": layout, "masters": nm, "connections": nconn, "trace_tail": tail(trace, 12)})
				failed = true
			}
			r.Count("cmd:"+cname, 1)
			if exact {
				r.Count("exact_comparisons", 1)
			}
		}
		if rd := atomic.LoadInt64(&redirects); rd > 0 && !failed {
			r.Violation("C03:redirect-on-stable-cluster", fmt.Sprintf("%d requests were answered MOVED/ASK by nodes although the routing table was loaded and the layout never changed", rd),
				map[string]interface{}{"workload": label, "seed": seed, "program": pi, "layout": layout, "masters": nm, "keys": keysToStrings(keys)})
		}
		// final state: union of node stores equals the reference
		if !failed {
			union := map[string]string{}
			cl.Lock()
			for _, m := range cl.Masters() {
				for _, k := range m.DB().Keys() {
					if _, dup := union[k]; dup {
						r.Violation("C03:key-on-two-nodes", "a key is stored on two nodes", map[string]interface{}{"key": k})
					}
					union[k] = m.DB().Dump(k)
				}
			}
			cl.Unlock()
			for _, k := range ref.Keys() {
				if union[k] != ref.Dump(k) {
					r.Violation("C03:final-state-differs", "data stored on the nodes differs from the reference's final state", map[string]interface{}{"key": k, "nodes": abbrevArg([]byte(union[k])), "reference": abbrevArg([]byte(ref.Dump(k)))})
					break
				}
				delete(union, k)
			}
			if len(union) > 0 {
				r.Violation("C03:final-state-differs", "nodes hold keys the reference does not", map[string]interface{}{"extra_keys": len(union)})
			}
		}
		for _, c := range conns {
			c.Close()
		}
		s.StopProc(svc.Name, 20*time.Second)
		cl.Close()
		r.Case(fmt.Sprintf("A/%dm%dr/%s/c%d", nm, nrep, layout, nconn/4))
		if pi == 0 {
			r.Sample(map[string]interface{}{"mode": "A", "masters": nm, "replicas_per_master": nrep, "layout": layout, "connections": nconn, "commands": ncmd, "first_steps": tail(trace[:min(4, len(trace))], 4)})
		}
		r.Count("modeA_programs", 1)
		r.Count("modeA_commands", int64(len(trace)))
	}
}

func keysToStrings(ks [][]byte) []string {
	out := make([]string, len(ks))
	for i, k := range ks {
		out[i] = fmt.Sprintf("%q", k)
	}
	return out
}

func abbrevArg(a []byte) string {
	if len(a) > 40 {
		return fmt.Sprintf("%q...(%d bytes)", a[:24], len(a))
	}
	return fmt.Sprintf("%q", a)
}

func tail[T any](s []T, n int) []T {
	if len(s) > n {
		return s[len(s)-n:]
	}
	return s
}

func c03(r *ev.Run) {
	r.Rule("Mode A: PRNG programs of 50-400 supported commands (documented command table, arity-correct and deliberately arity-wrong, multi-key commands) issued one at a time round-robin over 1-16 connections against 1-8 masters (0-1 replicas each) with contiguous / random-cut / scattered / single-slot-owner layouts, keys from a pool with degenerate hash tags and binary bytes, values with CR LF NUL and lengths around 512/4096/8192/16384 (MBs in thorough); every reply compared byte-for-byte with a single-server reference; Mode B: concurrent histories on hot keys checked for linearizability per key; distinct = distinct (mode, cluster shape, layout class, connection-count class) tuples")
	r.Assume("node stores and the single-server reference are the same engine (internal/refredis), so command semantics cancel out and only routing, splitting, re-assembly and relay are compared")
	r.Assume("commands not modelled by refredis are answered with a deterministic echo of their argument vector on both sides")
	nprog, nhist := 100, 80
	if r.Tier == "thorough" {
		nprog, nhist = 500, 400
	}
	s, err := startSUT(r, false, 60000, 20)
	if err != nil {
		r.Internal("start sut: %v", err)
		return
	}
	c03ModeA(r, s, r.Seed*101+1, nprog, r.Tier == "thorough", "plain")
	c03ModeB(r, s, r.Seed*101+2, nhist, "plain")
	s.Close()
	sr, err := startSUT(r, true, 60000, 20)
	if err != nil {
		r.Internal("start race sut: %v", err)
		return
	}
	c03ModeA(r, sr, r.Seed*101+3, nprog/5+1, false, "race")
	c03ModeB(r, sr, r.Seed*101+4, nhist/5+1, "race")
	for _, rr := range raceReports(sr, []string{"proc/redis/request.go"}) {
		r.Violation("C03:race:"+rr.Key, "data race in request splitting / re-assembly", map[string]interface{}{"report": rr.Text})
	}
	sr.Close()
	c03RefreshStorm(r)
	r.Require("exact_comparisons", 1000)
	r.Require("modeB_partitions_checked", 10)
}

// c03RefreshStorm: the layout never changes, but the routing table is re-fetched continuously (every 2 ms) while concurrent clients
// issue keyed commands: once the table has been loaded no command may be redirected, and replies still equal the reference.
func c03RefreshStorm(r *ev.Run) {
	s, err := startSUT(r, false, 2, 1)
	if err != nil {
		r.Internal("start sut: %v", err)
		return
	}
	defer s.Close()
	rnd := rand.New(rand.NewSource(r.Seed + 303))
	cl, err := fakecluster.New(4, 0)
	if err != nil {
		r.Internal("fakecluster: %v", err)
		return
	}
	defer cl.Close()
	layout := randomLayout(rnd, cl)
	cl.LogArgs = false
	var redirects, refreshes int64
	cl.OnEvent = func(e *fakecluster.Event) {
		switch {
		case e.Cmd == "cluster":
			atomic.AddInt64(&refreshes, 1)
		case e.Outcome == fakecluster.Moved || e.Outcome == fakecluster.Ask:
			atomic.AddInt64(&redirects, 1)
		}
	}
	svc, err := startRedisSvc(s, cl, cl.Addrs(), RedisOpts{})
	if err != nil || !svc.WaitRouting(3, 10*time.Second) {
		r.Internal("storm service did not start: %v", err)
		return
	}
	atomic.StoreInt64(&redirects, 0) // requests routed before the first table was loaded do not count
	atomic.StoreInt64(&refreshes, 0)
	nreq := 2500
	if r.Tier == "thorough" {
		nreq = 25000
	}
	var wrong int64
	done := make(chan struct{}, 8)
	for c := 0; c < 8; c++ {
		go func(c int) {
			defer func() { done <- struct{}{} }()
			crnd := rand.New(rand.NewSource(r.Seed*71 + int64(c)))
			conn, err := svc.Dial()
			if err != nil {
				return
			}
			defer conn.Close()
			for i := 0; i < nreq; i++ {
				k := fmt.Sprintf("storm.%d.%d", c, crnd.Intn(3000))
				v := fmt.Sprintf("v%d", i)
				if rep, err := conn.DoS(20*time.Second, "SET", k, v); err != nil || rep.Kind == resp.Error {
					atomic.AddInt64(&wrong, 1)
					return
				}
				if rep, err := conn.DoS(20*time.Second, "GET", k); err != nil || string(rep.Str) != v {
					atomic.AddInt64(&wrong, 1)
					return
				}
			}
		}(c)
	}
	for c := 0; c < 8; c++ {
		<-done
	}
	w := map[string]interface{}{"layout": layout, "refreshes_during_traffic": atomic.LoadInt64(&refreshes), "requests": 8 * nreq * 2}
	if rd := atomic.LoadInt64(&redirects); rd > 0 {
		w["redirected"] = rd
		r.Violation("C03:redirect-on-stable-cluster:during-refresh", fmt.Sprintf("%d requests were answered MOVED/ASK by nodes of a cluster whose layout never changed, while the routing table was being re-fetched", rd), w)
	}
	if atomic.LoadInt64(&wrong) > 0 {
		r.Violation("C03:reply-differs:during-refresh", "a connection read back something else than it wrote while the routing table was being re-fetched", w)
	}
	r.Count("storm_refreshes_during_traffic", atomic.LoadInt64(&refreshes))
	r.Count("storm_requests", int64(8*nreq*2))
	r.Case("storm/" + layout)
	r.Require("storm_refreshes_during_traffic", 20)
	s.StopProc(svc.Name, 20*time.Second)
}
