package main

import (
	"os"
	"regexp"
	"strings"

	"verif/internal/sutc"
)

// RaceReport is one deduplicated race-detector report that is in scope.
type RaceReport struct {
	Key  string
	Text string
}

var frameRe = regexp.MustCompile(`^\s+(/\S+\.go):\d+`)

// raceReports parses the "WARNING: DATA RACE" blocks of the SUT's log and returns
// those whose BOTH access stacks have their innermost repository frame inside scope
// (a list of path suffixes relative to /repo). Everything else is not deciding.
func raceReports(s *sutc.SUT, scope []string) []RaceReport {
	b, err := os.ReadFile(s.LogPath)
	if err != nil {
		return nil
	}
	return parseRaceLog(string(b), scope)
}

func parseRaceLog(log string, scope []string) []RaceReport {
	var out []RaceReport
	seen := map[string]bool{}
	blocks := strings.Split(log, "WARNING: DATA RACE")
	for _, blk := range blocks[1:] {
		if i := strings.Index(blk, "=================="); i >= 0 {
			blk = blk[:i]
		}
		// split into stacks: sections start with "Read at", "Write at", "Previous read at", "Previous write at"
		var accessStacks [][]string
		var cur []string
		inAccess := false
		for _, line := range strings.Split(blk, "\n") {
			t := strings.TrimSpace(line)
			switch {
			case strings.HasPrefix(t, "Read at"), strings.HasPrefix(t, "Write at"), strings.HasPrefix(t, "Previous read at"), strings.HasPrefix(t, "Previous write at"),
				strings.HasPrefix(t, "Atomic read at"), strings.HasPrefix(t, "Atomic write at"), strings.HasPrefix(t, "Previous atomic"):
				if inAccess {
					accessStacks = append(accessStacks, cur)
				}
				cur = nil
				inAccess = true
			case strings.HasPrefix(t, "Goroutine "):
				if inAccess {
					accessStacks = append(accessStacks, cur)
				}
				cur = nil
				inAccess = false
			default:
				if inAccess {
					if m := frameRe.FindStringSubmatch(line); m != nil {
						cur = append(cur, m[1])
					}
				}
			}
		}
		if inAccess {
			accessStacks = append(accessStacks, cur)
		}
		if len(accessStacks) < 2 {
			continue
		}
		repoDir := "/repo/" // tools/snap_matrix.sh links a scratch worktree instead and says so in VERIF_REPO
		if d := os.Getenv("VERIF_REPO"); d != "" {
			repoDir = strings.TrimSuffix(d, "/") + "/"
		}
		inner := func(stack []string) string {
			for _, f := range stack {
				if strings.HasPrefix(f, repoDir) && !strings.Contains(f, "/utils/vhook/") {
					return strings.TrimPrefix(f, repoDir)
				}
			}
			return ""
		}
		a, b2 := inner(accessStacks[0]), inner(accessStacks[1])
		inScope := func(f string) bool {
			for _, sfx := range scope {
				if strings.HasSuffix(sfx, "/") && strings.HasPrefix(f, sfx) {
					return true
				}
				if f == sfx {
					return true
				}
			}
			return false
		}
		if a == "" || b2 == "" || !inScope(a) || !inScope(b2) {
			continue
		}
		if a > b2 {
			a, b2 = b2, a
		}
		key := a + "~" + b2
		if seen[key] {
			continue
		}
		seen[key] = true
		if len(blk) > 3000 {
			blk = blk[:3000]
		}
		out = append(out, RaceReport{Key: key, Text: blk})
	}
	return out
}

// countRaceBlocks returns the number of race reports in the log regardless of scope.
func countRaceBlocks(s *sutc.SUT) int {
	b, err := os.ReadFile(s.LogPath)
	if err != nil {
		return 0
	}
	return strings.Count(string(b), "WARNING: DATA RACE")
}
