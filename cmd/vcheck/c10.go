package main

import (
	"bytes"
	"fmt"
	"io"
	"math/rand"
	"strconv"
	"time"

	sredis "github.com/samaritan-proxy/samaritan/proc/redis"

	"verif/internal/ev"
	"verif/internal/resp"
)

func init() {
	register(&Check{ID: "C10", Level: "exploration", API: c10, APIRace: true, RaceScope: []string{"proc/redis/codec.go", "proc/redis/bufio.go", "proc/redis/resp.go"},
		APITimeout: map[string]time.Duration{"quick": 5 * time.Minute, "thorough": 25 * time.Minute}})
}

func toSUT(v resp.Value) *sredis.RespValue {
	o := &sredis.RespValue{Type: sredis.RespType(v.Kind)}
	switch v.Kind {
	case resp.Integer:
		o.Int = v.Int
	case resp.Array:
		if !v.Null {
			o.Array = make([]sredis.RespValue, len(v.Arr))
			for i, e := range v.Arr {
				o.Array[i] = *toSUT(e)
			}
		}
	case resp.Bulk:
		if !v.Null {
			o.Text = v.Str
			if o.Text == nil {
				o.Text = []byte{}
			}
		}
	default:
		o.Text = v.Str
	}
	return o
}

func fromSUT(v *sredis.RespValue) resp.Value {
	o := resp.Value{Kind: byte(v.Type)}
	switch v.Type {
	case sredis.Integer:
		o.Int = v.Int
	case sredis.Array:
		if v.Array == nil {
			o.Null = true
		} else {
			o.Arr = make([]resp.Value, len(v.Array))
			for i := range v.Array {
				o.Arr[i] = fromSUT(&v.Array[i])
			}
		}
	case sredis.BulkString:
		if v.Text == nil {
			o.Null = true
		} else {
			o.Str = append([]byte{}, v.Text...)
		}
	default:
		o.Str = append([]byte{}, v.Text...)
	}
	return o
}

func sutEncode(vs []resp.Value, bufSize int) ([]byte, error) {
	var b bytes.Buffer
	e := sredis.VerifNewEncoder(&b, bufSize)
	for _, v := range vs {
		if err := e.Encode(toSUT(v)); err != nil {
			return nil, err
		}
	}
	if err := e.Flush(); err != nil {
		return nil, err
	}
	return b.Bytes(), nil
}

// chunkReader delivers a byte stream in scripted chunks.
type chunkReader struct {
	data   []byte
	chunks []int
	i      int
	left   int
}

func (c *chunkReader) Read(p []byte) (int, error) {
	if len(c.data) == 0 {
		return 0, io.EOF
	}
	if c.left == 0 {
		if c.i < len(c.chunks) {
			c.left = c.chunks[c.i]
			c.i++
		} else {
			c.left = len(c.data)
		}
		if c.left <= 0 {
			c.left = 1
		}
	}
	n := c.left
	if n > len(p) {
		n = len(p)
	}
	if n > len(c.data) {
		n = len(c.data)
	}
	copy(p, c.data[:n])
	c.data = c.data[n:]
	c.left -= n
	return n, nil
}

// decodeStream decodes all messages of data delivered with the given chunking.
func decodeStream(data []byte, chunks []int, bufSize int) (early []resp.Value, late []resp.Value, err error) {
	cr := &chunkReader{data: data, chunks: chunks}
	d := sredis.VerifNewDecoder(cr, bufSize)
	var raw []*sredis.RespValue
	for {
		v, e := d.Decode()
		if e != nil {
			err = e
			break
		}
		raw = append(raw, v)
		early = append(early, fromSUT(v))
	}
	for _, v := range raw {
		late = append(late, fromSUT(v))
	}
	return
}

func c10(r *ev.Run) {
	rnd := rand.New(rand.NewSource(r.Seed))
	thorough := r.Tier == "thorough"
	r.Rule("RESP values drawn from a PRNG generator biased to boundary integers / bulk lengths around 512, 4096, 8192 / null vs empty / nesting <= 6; streams of 1-50 messages (some followed by a 1000-2500 element array, by 33-92 null / empty arrays, by 300-700 further messages, or by lines of up to 40000 bytes) delivered through a scripted reader with chunkings {whole, 1-byte, every 2-way split (exhaustive for streams <= 96 bytes), PRNG chunks, chunk ending between CR and LF} x reader buffer sizes {32,33,64,127,4096,8192}; distinct = distinct (value shape, chunking class, buffer size) tuples and distinct integer-string classes")
	r.Assume("oracle: the harness's own RESP codec (internal/resp) and strconv")

	// (1)(2) single-value round trips
	nvals := 4000
	if thorough {
		nvals = 60000
	}
	var pool []resp.Value
	for _, i := range boundaryInts {
		pool = append(pool, resp.I(i))
	}
	for _, l := range bulkLens {
		pool = append(pool, resp.B(genText(rnd, l, false)))
	}
	pool = append(pool, resp.NullBulk(), resp.NullArray(), resp.A(), resp.B([]byte{}), resp.S(""), resp.E(""),
		resp.A(resp.NullBulk(), resp.A(), resp.NullArray(), resp.A(resp.A(resp.A(resp.I(-1))))))
	// arrays around and beyond any pre-allocation bound of a decoder
	for _, n := range []int{1023, 1024, 1025, 3000} {
		arr := make([]resp.Value, n)
		for i := range arr {
			arr[i] = resp.BS(fmt.Sprintf("e%d", i))
		}
		pool = append(pool, resp.A(arr...), resp.A(resp.A(arr...), resp.I(7)))
	}
	for len(pool) < nvals {
		pool = append(pool, genValue(rnd, 0, true))
	}
	for i, v := range pool {
		if i%500 == 0 {
			r.Checkpoint(map[string]interface{}{"phase": "roundtrip", "value": v.String()})
		}
		shape := valueShape(v)
		canon := resp.Encode(v)
		enc, err := sutEncode([]resp.Value{v}, 4096)
		if err != nil {
			r.Violation("C10:encode-error", "encoder failed on a valid value: "+err.Error(), map[string]interface{}{"value": v.String()})
			continue
		}
		if !bytes.Equal(enc, canon) {
			r.Violation("C10:encode-not-canonical:"+shape, "encoder output differs from canonical RESP bytes", map[string]interface{}{"value": v.String(), "got": trunc(enc), "want": trunc(canon)})
		}
		early, late, derr := decodeStream(enc, nil, 8192)
		if derr != io.EOF || len(early) != 1 || !early[0].Equal(v) || !late[0].Equal(v) {
			r.Violation("C10:roundtrip:"+shape, "decode(encode(v)) != v", map[string]interface{}{"value": v.String(), "decoded": fmt.Sprint(early), "err": fmt.Sprint(derr)})
		}
		// canonical bytes -> decode -> encode
		e2, _, derr2 := decodeStream(canon, nil, 4096)
		if derr2 == io.EOF && len(e2) == 1 {
			re, err := sutEncode(e2, 8192)
			if err != nil || !bytes.Equal(re, canon) {
				r.Violation("C10:reencode:"+shape, "encode(decode(b)) != b for canonical bytes", map[string]interface{}{"bytes": trunc(canon), "reencoded": trunc(re)})
			}
		} else {
			r.Violation("C10:decode-canonical:"+shape, "canonical bytes not decoded to one value", map[string]interface{}{"bytes": trunc(canon), "err": fmt.Sprint(derr2)})
		}
		r.Case("rt/" + shape)
		if i == 100 {
			r.Sample(map[string]interface{}{"roundtrip_value": v.String(), "bytes": trunc(canon)})
		}
	}
	r.Count("roundtrip_values", int64(len(pool)))

	// (3) streams and chunkings
	nstreams := 250
	if thorough {
		nstreams = 4000
	}
	bufSizes := []int{32, 33, 64, 127, 4096, 8192}
	for si := 0; si < nstreams; si++ {
		nm := 1 + rnd.Intn(8)
		if rnd.Intn(6) == 0 {
			nm = 1 + rnd.Intn(50)
		}
		small := si%3 == 0
		msgs := make([]resp.Value, nm)
		var data []byte
		shapes := ""
		for i := range msgs {
			if small {
				switch rnd.Intn(5) {
				case 0:
					msgs[i] = resp.I(genInt(rnd))
				case 1:
					msgs[i] = resp.B(genText(rnd, rnd.Intn(6), false))
				case 2:
					msgs[i] = resp.A(resp.B(genText(rnd, rnd.Intn(4), false)), resp.NullBulk())
				case 3:
					msgs[i] = resp.S(string(genText(rnd, rnd.Intn(5), true)))
				default:
					msgs[i] = genValue(rnd, 4, false)
				}
			} else {
				msgs[i] = genValue(rnd, 0, si%7 == 0)
			}
			data = resp.Append(data, msgs[i])
			if i < 3 {
				shapes += valueShape(msgs[i])
			}
		}
		if si%40 == 7 {
			// a long array between ordinary messages: whatever follows it must still be decoded as sent
			n := 1000 + rnd.Intn(1500)
			arr := make([]resp.Value, n)
			for i := range arr {
				arr[i] = resp.I(int64(i))
			}
			big := resp.A(arr...)
			tailMsg := resp.BS("after-the-long-array")
			msgs = append(msgs, big, tailMsg)
			data = resp.Append(data, big)
			data = resp.Append(data, tailMsg)
			nm += 2
			r.Count("streams_with_long_array", 1)
		}
		if si%40 == 11 {
			// many null arrays (top level and nested) on one decoder, then ordinary messages: state kept per decoder must not
			// accumulate over messages
			n := 33 + rnd.Intn(60)
			for i := 0; i < n; i++ {
				var m resp.Value
				switch rnd.Intn(3) {
				case 0:
					m = resp.NullArray()
				case 1:
					m = resp.A(resp.NullArray(), resp.NullBulk(), resp.A(resp.NullArray()))
				default:
					m = resp.A()
				}
				msgs = append(msgs, m)
				data = resp.Append(data, m)
			}
			tailMsg := resp.A(resp.BS("GET"), resp.BS("after-the-null-arrays"))
			msgs = append(msgs, tailMsg)
			data = resp.Append(data, tailMsg)
			nm += n + 1
			r.Count("streams_with_many_null_arrays", 1)
		}
		if si%40 == 13 {
			// a long run of small messages on one decoder
			n := 300 + rnd.Intn(400)
			for i := 0; i < n; i++ {
				m := genValue(rnd, 4, false)
				msgs = append(msgs, m)
				data = resp.Append(data, m)
			}
			nm += n
			r.Count("streams_with_hundreds_of_messages", 1)
		}
		if si%40 == 17 {
			// lines (simple strings, errors) longer than one, two and several reader buffers
			for _, l := range []int{65, 129, 255, 4097, 8193, 16385, 16500, 40000} {
				line := genText(rnd, l, true)
				var m resp.Value
				if rnd.Intn(2) == 0 {
					m = resp.S(string(line))
				} else {
					m = resp.E(string(line))
				}
				msgs = append(msgs, m, resp.I(int64(l)))
				data = resp.Append(data, m)
				data = resp.Append(data, resp.I(int64(l)))
				nm += 2
			}
			r.Count("streams_with_long_lines", 1)
		}
		r.Checkpoint(map[string]interface{}{"phase": "stream", "stream_hex": trunc(data), "len": len(data)})
		type chunking struct {
			class  string
			chunks []int
		}
		var cks []chunking
		cks = append(cks, chunking{"whole", nil})
		if len(data) <= 20000 {
			one := make([]int, len(data))
			for i := range one {
				one[i] = 1
			}
			cks = append(cks, chunking{"1byte", one})
		}
		if len(data) <= 96 {
			for i := 1; i < len(data); i++ {
				cks = append(cks, chunking{"split2-exhaustive", []int{i}})
			}
			r.Count("streams_with_exhaustive_2way_split", 1)
		} else {
			for j := 0; j < 6; j++ {
				cks = append(cks, chunking{"split2", []int{1 + rnd.Intn(len(data)-1)}})
			}
		}
		// chunks ending between CR and LF
		var crlf []int
		last := 0
		for i := 0; i+1 < len(data); i++ {
			if data[i] == '\r' && data[i+1] == '\n' && rnd.Intn(2) == 0 {
				crlf = append(crlf, i+1-last)
				last = i + 1
			}
		}
		if len(crlf) > 0 {
			cks = append(cks, chunking{"cr|lf", crlf})
		}
		for j := 0; j < 4; j++ {
			var c []int
			max := []int{3, 17, 300, 5000}[j]
			for tot := 0; tot < len(data); {
				n := 1 + rnd.Intn(max)
				c = append(c, n)
				tot += n
			}
			cks = append(cks, chunking{"prng" + strconv.Itoa(max), c})
		}
		for _, ck := range cks {
			bs := bufSizes
			if ck.class == "split2-exhaustive" {
				bs = []int{32, 4096}
			}
			for _, bsz := range bs {
				early, late, err := decodeStream(data, ck.chunks, bsz)
				ok := err == io.EOF && len(early) == nm
				for i := 0; ok && i < nm; i++ {
					if !early[i].Equal(msgs[i]) {
						ok = false
					}
				}
				if !ok {
					r.Violation(fmt.Sprintf("C10:stream:%s:buf%d", ck.class, bsz), "decoding a concatenation of messages did not yield exactly those messages then EOF",
						map[string]interface{}{"stream_hex": fmt.Sprintf("%x", truncN(data, 4096)), "chunks": truncInts(ck.chunks), "buf": bsz, "want_n": nm, "got_n": len(early), "err": fmt.Sprint(err)})
					continue
				}
				for i := 0; i < nm; i++ {
					if !late[i].Equal(msgs[i]) {
						r.Violation(fmt.Sprintf("C10:stream-late-aliasing:buf%d", bsz), "a decoded value changed after later messages were decoded (buffer aliasing)",
							map[string]interface{}{"stream_hex": fmt.Sprintf("%x", truncN(data, 4096)), "index": i, "chunks": truncInts(ck.chunks), "buf": bsz})
						break
					}
				}
				r.Case(fmt.Sprintf("st/%s/%s/%d", shapes, ck.class, bsz))
			}
		}
		if si == 1 {
			r.Sample(map[string]interface{}{"stream": trunc(data), "messages": nm, "chunkings": len(cks)})
		}
	}
	r.Count("streams", int64(nstreams))

	// (4) inline command == array form
	ninline := 600
	for i := 0; i < ninline; i++ {
		n := 1 + rnd.Intn(5)
		args := make([][]byte, n)
		line := []byte{}
		for j := range args {
			l := 1 + rnd.Intn(8)
			a := make([]byte, l)
			for k := range a {
				a[k] = "abcXYZ019:_-{}."[rnd.Intn(15)]
			}
			if j == 0 {
				a[0] = "gsPdm"[rnd.Intn(5)] // never a RESP type byte
			}
			args[j] = a
			for s := rnd.Intn(3); j > 0 && s >= 0; s-- {
				line = append(line, ' ')
			}
			line = append(line, a...)
		}
		for s := rnd.Intn(2); s > 0; s-- {
			line = append(line, ' ')
		}
		line = append(line, '\r', '\n')
		a1, _, e1 := decodeStream(line, nil, 4096)
		a2, _, e2 := decodeStream(resp.Cmd(args...), []int{1, 2, 3}, 64)
		if e1 != io.EOF || e2 != io.EOF || len(a1) != 1 || len(a2) != 1 || !a1[0].Equal(a2[0]) || !a1[0].Equal(resp.CmdValue(args...)) {
			r.Violation("C10:inline", "inline command decodes differently from its array form", map[string]interface{}{"inline": string(line), "inline_decoded": fmt.Sprint(a1), "array_decoded": fmt.Sprint(a2)})
		}
		r.Case(fmt.Sprintf("inline/%d", n))
		if i == 0 {
			r.Sample(map[string]interface{}{"inline": string(line)})
		}
	}

	// (5) integer fast paths vs strconv
	cmpB := func(s string, class string) {
		got, gerr := sredis.VerifBtoi64([]byte(s))
		want, werr := strconv.ParseInt(s, 10, 64)
		if (gerr == nil) != (werr == nil) || (gerr == nil && got != want) {
			r.Violation("C10:btoi64:"+class, fmt.Sprintf("btoi64(%q) = (%d,%v), strconv.ParseInt = (%d,%v)", s, got, gerr, want, werr), map[string]interface{}{"input": s})
		}
	}
	alpha := "+-019a _"
	cnt := 0
	var rec func(p string)
	rec = func(p string) {
		cmpB(p, "enum")
		cnt++
		if len(p) == 4 {
			return
		}
		for i := 0; i < len(alpha); i++ {
			rec(p + alpha[i:i+1])
		}
	}
	rec("")
	for _, i := range boundaryInts {
		s := strconv.FormatInt(i, 10)
		cmpB(s, "boundary")
		cmpB("+"+s, "boundary")
		cmpB(s+"0", "boundary")
		cmpB("0"+s, "boundary")
		cnt += 4
	}
	nr := 200000
	if thorough {
		nr = 3000000
	}
	for i := 0; i < nr; i++ {
		v := genInt(rnd)
		s := strconv.FormatInt(v, 10)
		if rnd.Intn(10) == 0 && len(s) > 0 {
			b := []byte(s)
			b[rnd.Intn(len(b))] = "x+- 9"[rnd.Intn(5)]
			s = string(b)
		}
		cmpB(s, "random")
	}
	cnt += nr
	r.Cases(cnt, "btoi64")
	r.Count("btoi64_inputs", int64(cnt))
	r.Distinct("btoi64/enum-len<=4-over-8-letters")
	ci := 0
	cmpI := func(i int64, class string) {
		if got, want := sredis.VerifItoa(i), strconv.FormatInt(i, 10); got != want {
			r.Violation("C10:itoa:"+class, fmt.Sprintf("itoa(%d) = %q, strconv says %q", i, got, want), map[string]interface{}{"input": i})
		}
		ci++
	}
	for i := int64(-300); i <= 33000; i++ {
		cmpI(i, "enum")
	}
	for _, i := range boundaryInts {
		cmpI(i, "boundary")
	}
	for i := 0; i < nr; i++ {
		cmpI(genInt(rnd), "random")
	}
	r.Cases(ci, "itoa")
	r.Count("itoa_inputs", int64(ci))
	r.Require("streams_with_exhaustive_2way_split", 10)
	r.Require("streams_with_long_array", 3)
	r.Require("streams_with_many_null_arrays", 3)
	r.Require("streams_with_hundreds_of_messages", 3)
	r.Require("streams_with_long_lines", 3)
}

func trunc(b []byte) string {
	if len(b) > 200 {
		return fmt.Sprintf("%q...(%d bytes)", b[:200], len(b))
	}
	return fmt.Sprintf("%q", b)
}

func truncN(b []byte, n int) []byte {
	if len(b) > n {
		return b[:n]
	}
	return b
}

func truncInts(v []int) []int {
	if len(v) > 64 {
		return v[:64]
	}
	return v
}
