package main

import (
	"fmt"
	"math/rand"
	"net"
	"strconv"
	"sync/atomic"
	"time"

	"github.com/samaritan-proxy/samaritan/pb/common"
	"github.com/samaritan-proxy/samaritan/pb/config/protocol"
	predis "github.com/samaritan-proxy/samaritan/pb/config/protocol/redis"
	"github.com/samaritan-proxy/samaritan/pb/config/service"

	"verif/internal/ev"
	"verif/internal/fakecluster"
	"verif/internal/rclient"
	"verif/internal/sutc"
)

var svcSeq int64

func freePort() int {
	ln, err := net.Listen("tcp", "127.0.0.1:0")
	if err != nil {
		return 0
	}
	defer ln.Close()
	return ln.Addr().(*net.TCPAddr).Port
}

// RedisOpts configures a Redis service in the SUT.
type RedisOpts struct {
	ReadStrategy predis.ReadStrategy
	Compression  *predis.Compression
	ConnLimit    uint32
	ConnTimeout  time.Duration
}

func redisConfigJSON(port int, o RedisOpts) []byte {
	cfg := &service.Config{
		Listener: &service.Listener{Address: &common.Address{Ip: "127.0.0.1", Port: uint32(port)}, ConnectionLimit: o.ConnLimit},
		Protocol: protocol.Redis,
		ProtocolOptions: &service.Config_RedisOption{RedisOption: &protocol.RedisOption{
			ReadStrategy: o.ReadStrategy, Compression: o.Compression,
		}},
	}
	if o.ConnTimeout > 0 {
		cfg.ConnectTimeout = &o.ConnTimeout
	}
	b, err := cfg.MarshalJSON()
	if err != nil {
		panic(err)
	}
	return b
}

// RedisSvc is one Redis service running in a SUT, in front of a simulated cluster.
type RedisSvc struct {
	S    *sutc.SUT
	CL   *fakecluster.Cluster
	Name string
	Addr string
	Port int
	Opts RedisOpts
}

func hostsOf(addrs []string) []sutc.Host {
	hs := make([]sutc.Host, len(addrs))
	for i, a := range addrs {
		hs[i] = sutc.Host{Addr: a}
	}
	return hs
}

// startRedisSvc creates and starts a Redis processor whose seed hosts are the given addresses.
func startRedisSvc(s *sutc.SUT, cl *fakecluster.Cluster, seeds []string, o RedisOpts) (*RedisSvc, error) {
	name := fmt.Sprintf("r%d_%d", s.Pid(), atomic.AddInt64(&svcSeq, 1))
	port := freePort()
	if err := s.NewProc(name, redisConfigJSON(port, o), hostsOf(seeds)); err != nil {
		return nil, fmt.Errorf("proc_new: %v", err)
	}
	if err := s.StartProc(name); err != nil {
		return nil, fmt.Errorf("proc_start: %v", err)
	}
	svc := &RedisSvc{S: s, CL: cl, Name: name, Port: port, Addr: "127.0.0.1:" + strconv.Itoa(port), Opts: o}
	// wait for the listener
	deadline := time.Now().Add(10 * time.Second)
	for {
		c, err := net.DialTimeout("tcp", svc.Addr, time.Second)
		if err == nil {
			c.Close()
			break
		}
		if time.Now().After(deadline) {
			return nil, fmt.Errorf("listener of %s did not come up: %v", name, err)
		}
		time.Sleep(5 * time.Millisecond)
	}
	return svc, nil
}

// Stat reads one counter of the service ("gauge:" prefix handled by caller).
func (v *RedisSvc) Stat(suffix string) uint64 {
	m, err := v.S.Stats("service." + v.Name + ".")
	if err != nil {
		return 0
	}
	return m["service."+v.Name+"."+suffix]
}

// WaitRouting waits until at least n successful slot refreshes happened.
func (v *RedisSvc) WaitRouting(n uint64, timeout time.Duration) bool {
	deadline := time.Now().Add(timeout)
	for time.Now().Before(deadline) {
		if v.Stat("upstream.slots_refresh.success_total") >= n {
			return true
		}
		time.Sleep(5 * time.Millisecond)
	}
	return false
}

// Dial opens a client connection to the service.
func (v *RedisSvc) Dial() (*rclient.Conn, error) { return rclient.Dial(v.Addr) }

// randomLayout assigns slots to masters: contiguous ranges with random cuts, or scattered.
func randomLayout(rnd *rand.Rand, cl *fakecluster.Cluster) string {
	ms := cl.Masters()
	n := len(ms)
	switch rnd.Intn(3) {
	case 0:
		cl.AssignContiguous()
		return "contiguous"
	case 1:
		cuts := make([]int, n-1)
		for i := range cuts {
			cuts[i] = rnd.Intn(fakecluster.NumSlots)
		}
		perm := rnd.Perm(n)
		cl.AssignAll(func(s int) *fakecluster.Node {
			k := 0
			for _, c := range cuts {
				if s >= c {
					k++
				}
			}
			return ms[perm[k%n]]
		})
		return "random-cuts"
	default:
		block := 1 << uint(rnd.Intn(6))
		off := rnd.Intn(n)
		cl.AssignAll(func(s int) *fakecluster.Node { return ms[(s/block+off)%n] })
		return fmt.Sprintf("scattered-block%d", block)
	}
}

// startSUT starts a SUT host for a check, with fast slot-refresh timers.
func startSUT(r *ev.Run, race bool, freqMs, minRateMs int64) (*sutc.SUT, error) {
	s, err := sutc.Start(ev.Root+"/run/"+r.ID, race)
	if err != nil {
		return nil, err
	}
	if freqMs > 0 {
		if err := s.RedisTimers(freqMs, minRateMs); err != nil {
			s.Kill()
			return nil, err
		}
	}
	return s, nil
}
