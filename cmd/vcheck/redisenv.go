package main

import (
	"fmt"
	"math/rand"
	"net"
	"strconv"
	"sync/atomic"
	"syscall"
	"time"

	"github.com/samaritan-proxy/samaritan/pb/common"
	"github.com/samaritan-proxy/samaritan/pb/config/protocol"
	predis "github.com/samaritan-proxy/samaritan/pb/config/protocol/redis"
	"github.com/samaritan-proxy/samaritan/pb/config/service"

	"verif/internal/ev"
	"verif/internal/fakecluster"
	"verif/internal/rclient"
	"verif/internal/sutc"
)

var svcSeq int64

func freePort() int {
	ln, err := net.Listen("tcp", "127.0.0.1:0")
	if err != nil {
		return 0
	}
	defer ln.Close()
	return ln.Addr().(*net.TCPAddr).Port
}

// holdPort reserves a loopback port for a listener that will bind it with SO_REUSEPORT (as the proxy does): the
// returned socket is bound with SO_REUSEPORT but never listens, so other processes (bind :0 without SO_REUSEPORT) cannot be
// handed the port meanwhile, and no connection is ever queued on it. release() closes it once the proxy has bound.
func holdPort() (int, func()) {
	fd, err := syscall.Socket(syscall.AF_INET, syscall.SOCK_STREAM, 0)
	if err != nil {
		return freePort(), func() {}
	}
	const soReusePort = 15
	syscall.SetsockoptInt(fd, syscall.SOL_SOCKET, syscall.SO_REUSEADDR, 1)
	if err := syscall.SetsockoptInt(fd, syscall.SOL_SOCKET, soReusePort, 1); err != nil {
		syscall.Close(fd)
		return freePort(), func() {}
	}
	if err := syscall.Bind(fd, &syscall.SockaddrInet4{Addr: [4]byte{127, 0, 0, 1}}); err != nil {
		syscall.Close(fd)
		return freePort(), func() {}
	}
	sa, err := syscall.Getsockname(fd)
	if err != nil {
		syscall.Close(fd)
		return freePort(), func() {}
	}
	return sa.(*syscall.SockaddrInet4).Port, func() { syscall.Close(fd) }
}

// RedisOpts configures a Redis service in the SUT.
type RedisOpts struct {
	ReadStrategy predis.ReadStrategy
	Compression  *predis.Compression
	ConnLimit    uint32
	ConnTimeout  time.Duration
}

func redisConfigJSON(port int, o RedisOpts) []byte {
	cfg := &service.Config{
		Listener: &service.Listener{Address: &common.Address{Ip: "127.0.0.1", Port: uint32(port)}, ConnectionLimit: o.ConnLimit},
		Protocol: protocol.Redis,
		ProtocolOptions: &service.Config_RedisOption{RedisOption: &protocol.RedisOption{
			ReadStrategy: o.ReadStrategy, Compression: o.Compression,
		}},
	}
	if o.ConnTimeout > 0 {
		cfg.ConnectTimeout = &o.ConnTimeout
	}
	b, err := cfg.MarshalJSON()
	if err != nil {
		panic(err)
	}
	return b
}

// RedisSvc is one Redis service running in a SUT, in front of a simulated cluster.
type RedisSvc struct {
	S    *sutc.SUT
	CL   *fakecluster.Cluster
	Name string
	Addr string
	Port int
	Opts RedisOpts
}

func hostsOf(addrs []string) []sutc.Host {
	hs := make([]sutc.Host, len(addrs))
	for i, a := range addrs {
		hs[i] = sutc.Host{Addr: a}
	}
	return hs
}

// startRedisSvc creates and starts a Redis processor whose seed hosts are the given addresses.
func startRedisSvc(s *sutc.SUT, cl *fakecluster.Cluster, seeds []string, o RedisOpts) (*RedisSvc, error) {
	// The port is picked by binding :0 and closing it again; another process may grab it before the proxy binds it
	// (parallel runs). So the service counts as up only when the proxy itself reports a bound listener; otherwise retry.
	var lastErr error
	for attempt := 0; attempt < 5; attempt++ {
		name := fmt.Sprintf("r%d_%d", s.Pid(), atomic.AddInt64(&svcSeq, 1))
		port, release := holdPort()
		if err := s.NewProc(name, redisConfigJSON(port, o), hostsOf(seeds)); err != nil {
			return nil, fmt.Errorf("proc_new: %v", err)
		}
		if err := s.StartProc(name); err != nil {
			return nil, fmt.Errorf("proc_start: %v", err)
		}
		svc := &RedisSvc{S: s, CL: cl, Name: name, Port: port, Addr: "127.0.0.1:" + strconv.Itoa(port), Opts: o}
		ok := waitBound(s, name, svc.Addr, 3*time.Second)
		release()
		if ok {
			return svc, nil
		}
		lastErr = fmt.Errorf("listener of %s did not bind %s", name, svc.Addr)
		s.StopProc(name, 10*time.Second)
	}
	return nil, lastErr
}

// waitBound waits until the processor reports its listener bound to addr.
func waitBound(s *sutc.SUT, name, addr string, timeout time.Duration) bool {
	deadline := time.Now().Add(timeout)
	for time.Now().Before(deadline) {
		if a, err := s.ProcAddr(name); err == nil && a != "" {
			// the listener is published; a connect must succeed now
			if c, err := net.DialTimeout("tcp", addr, time.Second); err == nil {
				c.Close()
				return true
			}
		} else if err != nil {
			return false
		}
		time.Sleep(5 * time.Millisecond)
	}
	return false
}

// Stat reads one counter of the service ("gauge:" prefix handled by caller).
func (v *RedisSvc) Stat(suffix string) uint64 {
	m, err := v.S.Stats("service." + v.Name + ".")
	if err != nil {
		return 0
	}
	return m["service."+v.Name+"."+suffix]
}

// WaitRouting waits until at least n successful slot refreshes happened.
func (v *RedisSvc) WaitRouting(n uint64, timeout time.Duration) bool {
	deadline := time.Now().Add(timeout)
	for time.Now().Before(deadline) {
		if v.Stat("upstream.slots_refresh.success_total") >= n {
			return true
		}
		time.Sleep(5 * time.Millisecond)
	}
	return false
}

// Dial opens a client connection to the service.
func (v *RedisSvc) Dial() (*rclient.Conn, error) { return rclient.Dial(v.Addr) }

// randomLayout assigns slots to masters: contiguous ranges with random cuts, or scattered.
func randomLayout(rnd *rand.Rand, cl *fakecluster.Cluster) string {
	ms := cl.Masters()
	n := len(ms)
	switch rnd.Intn(3) {
	case 0:
		cl.AssignContiguous()
		return "contiguous"
	case 1:
		cuts := make([]int, n-1)
		for i := range cuts {
			cuts[i] = rnd.Intn(fakecluster.NumSlots)
		}
		perm := rnd.Perm(n)
		cl.AssignAll(func(s int) *fakecluster.Node {
			k := 0
			for _, c := range cuts {
				if s >= c {
					k++
				}
			}
			return ms[perm[k%n]]
		})
		return "random-cuts"
	default:
		block := 1 << uint(rnd.Intn(6))
		off := rnd.Intn(n)
		cl.AssignAll(func(s int) *fakecluster.Node { return ms[(s/block+off)%n] })
		return fmt.Sprintf("scattered-block%d", block)
	}
}

// startSUT starts a SUT host for a check, with fast slot-refresh timers.
func startSUT(r *ev.Run, race bool, freqMs, minRateMs int64) (*sutc.SUT, error) {
	s, err := sutc.Start(ev.RunDir(r.ID), race)
	if err != nil {
		return nil, err
	}
	if freqMs > 0 {
		if err := s.RedisTimers(freqMs, minRateMs); err != nil {
			s.Kill()
			return nil, err
		}
	}
	return s, nil
}
