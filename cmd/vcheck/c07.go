package main

import (
	"fmt"
	"math/rand"
	"strings"
	"sync"
	"sync/atomic"
	"time"
	"verif/internal/tcpsim"

	"verif/internal/ev"
	"verif/internal/fakecluster"
	"verif/internal/lclock"
	"verif/internal/rclient"
	"verif/internal/resp"
	"verif/internal/sutc"
)

func init() {
	register(&Check{ID: "C07", Level: "fault_enumeration", Drive: c07})
}

var c07Faults = []string{"rst", "fin", "restart", "down-at-start", "rst-twice", "restart-then-rst", "silent-then-close",
	"layout-move-slots", "layout-failover", "layout-drain-master", "layout-move-then-rst", "layout-id-moves-address", "rst-all-at-once"}

// keysFor returns n keys whose slot is owned by node (per the cluster's current view).
func keysFor(cl *fakecluster.Cluster, node *fakecluster.Node, n int, tag string) []string {
	var out []string
	cl.Lock()
	defer cl.Unlock()
	for i := 0; len(out) < n && i < 200000; i++ {
		k := fmt.Sprintf("%s.%d", tag, i)
		if cl.Nodes[0].OwnerLocked(fakecluster.Slot([]byte(k))) == node {
			out = append(out, k)
		}
	}
	return out
}

type c07Env struct {
	r    *ev.Run
	s    *sutc.SUT
	cl   *fakecluster.Cluster
	svc  *RedisSvc
	conn *rclient.Conn
	log  []string

	redirects    int64
	clusterNodes int64
	firstRedir   int64 // logical time of the first redirect after the last layout change
	lastFetch    int64 // logical time of the last CLUSTER NODES arrival
}

func (e *c07Env) note(f string, a ...interface{}) { e.log = append(e.log, fmt.Sprintf(f, a...)) }

// do issues one request on the client connection (re-dialing if the proxy closed it) and reports whether it succeeded.
func (e *c07Env) do(args ...string) (resp.Value, bool) {
	if e.conn == nil {
		c, err := e.svc.Dial()
		if err != nil {
			return resp.Value{}, false
		}
		e.conn = c
	}
	v, err := e.conn.DoS(10*time.Second, args...)
	if err != nil {
		e.conn.Close()
		e.conn = nil
		return resp.Value{}, false
	}
	return v, v.Kind != resp.Error
}

func c07(r *ev.Run) {
	r.Rule("fixed fault list {RST, FIN, restart on the same address, node down at proxy start, two faults in a row, silence then close, slots moved between masters, master replaced by its replica, master drained of all slots, layout change followed by a reset} x PRNG timing (requests before / during / after, which node); a history = warm-up, fault, requests while the fault lasts, heal, H=20 grace requests, then a verification stream in which every request must succeed; distinct = distinct (fault kind, node role, timing class) tuples")
	r.Assume("bounded-progress restatement: after the backend is reachable again, errors are tolerated for H=20 sequential requests and 200 ms; afterwards a failing request is re-tried up to 3 times 1 s apart before it counts (load tolerance); a connect that times out (SYN black hole) cannot be emulated on loopback and is not in the list")
	r.Assume("after a layout change is installed in every node's view, once the node log shows a CLUSTER NODES fetch issued after the change, requests sent afterwards must not be redirected; slot-refresh timers are shortened to 100 ms / 20 ms through the verif hook")
	s, err := startSUT(r, false, 100, 20)
	if err != nil {
		r.Internal("start sut: %v", err)
		return
	}
	defer func() { s.Close() }()
	rnd := rand.New(rand.NewSource(r.Seed + 7))
	reps := 3
	if r.Tier == "thorough" {
		reps = 25
	}
	for rep := 0; rep < reps; rep++ {
		for _, fault := range c07Faults {
			if sutDied(r, s, "between histories") {
				return
			}
			c07History(r, s, rnd, fault, rep)
		}
	}
	c07RefreshTriggers(r)
	c07ConcurrentReconnect(r)
	c07HealWhileDialing(r)
	c07LossWhileAskingWaitsForRoom(r)
	if c07HostVanished(r) {
		r.Require("host_vanished_healed", 1)
	}
	r.Require("loss_while_asking_waits_for_room_healed", 1)
	r.Require("histories_judged", int64(reps*len(c07Faults)*3/4))
	r.Require("new_connections_after_fault", int64(reps*3))
}

func c07History(r *ev.Run, s *sutc.SUT, rnd *rand.Rand, fault string, rep int) {
	nm := 2 + rnd.Intn(3)
	nrep := 1
	if fault == "rst-all-at-once" {
		nm, nrep = 24, 0
	}
	if fault == "layout-id-moves-address" {
		nm++ // one spare master without slots
		nrep = rep % 2
	}
	cl, err := fakecluster.New(nm, nrep)
	if err != nil {
		r.Internal("fakecluster: %v", err)
		return
	}
	defer cl.Close()
	var spare *fakecluster.Node
	if fault == "layout-id-moves-address" {
		ms := cl.Masters()
		spare = ms[len(ms)-1]
		live := ms[:len(ms)-1]
		cl.AssignAll(func(sl int) *fakecluster.Node { return live[sl*len(live)/fakecluster.NumSlots] })
	} else {
		cl.AssignContiguous()
	}
	cl.LogArgs = false
	e := &c07Env{r: r, s: s, cl: cl}
	var layoutChangedAt int64 = -1
	var mu sync.Mutex
	cl.OnEvent = func(evt *fakecluster.Event) {
		switch {
		case evt.Cmd == "cluster":
			atomic.AddInt64(&e.clusterNodes, 1)
			atomic.StoreInt64(&e.lastFetch, evt.Seq)
		case evt.Outcome == fakecluster.Moved || evt.Outcome == fakecluster.Ask:
			atomic.AddInt64(&e.redirects, 1)
			mu.Lock()
			if layoutChangedAt >= 0 && e.firstRedir == 0 {
				e.firstRedir = evt.Seq
			}
			mu.Unlock()
		}
	}
	masters := cl.Masters()
	if spare != nil {
		masters = masters[:len(masters)-1]
	}
	victim := masters[rnd.Intn(len(masters))]
	before := 3 + rnd.Intn(30)
	during := 1 + rnd.Intn(15)
	timing := fmt.Sprintf("b%d/d%d", before/12, during/6)

	if fault == "down-at-start" {
		victim.Stop(true)
	}
	svc, err := startRedisSvc(s, cl, cl.Addrs(), RedisOpts{ConnTimeout: 500 * time.Millisecond})
	if err != nil {
		r.Internal("%v", err)
		return
	}
	e.svc = svc
	defer func() {
		if e.conn != nil {
			e.conn.Close()
		}
		s.StopProc(svc.Name, 15*time.Second)
	}()
	if !svc.WaitRouting(1, 10*time.Second) {
		r.Inconclusive("routing-not-loaded")
		return
	}
	vkeys := keysFor(cl, victim, 40, fmt.Sprintf("v%d", rep))
	var okeys []string
	for _, m := range masters {
		if m != victim {
			okeys = append(okeys, keysFor(cl, m, 10, fmt.Sprintf("o%d.%d", rep, m.Idx))...)
		}
	}
	witness := func(extra map[string]interface{}) map[string]interface{} {
		w := map[string]interface{}{"fault": fault, "masters": nm, "victim_node": victim.Idx, "requests_before": before, "requests_during": during, "history": e.log, "sut_log_tail": s.LogTail(1500)}
		for k, v := range extra {
			w[k] = v
		}
		return w
	}
	stream := func(n int, phase string, mustSucceed bool) (fails int) {
		for i := 0; i < n; i++ {
			k := vkeys[rnd.Intn(len(vkeys))]
			if i%4 == 3 {
				k = okeys[rnd.Intn(len(okeys))]
			}
			var v resp.Value
			var ok bool
			if i%2 == 0 {
				v, ok = e.do("SET", k, fmt.Sprintf("%s.%d", phase, i))
			} else {
				v, ok = e.do("GET", k)
			}
			if !ok {
				fails++
				if mustSucceed {
					// load tolerance: the same request again, 1 s apart, up to 3 times
					healed := false
					for t := 0; t < 3 && !healed; t++ {
						time.Sleep(time.Second)
						_, healed = e.do("GET", k)
					}
					if !healed {
						e.note("%s: request %d on key %s failed and kept failing: %s", phase, i, k, v.String())
						return -1 - i
					}
					e.note("%s: request %d failed once, healed on retry", phase, i)
				}
			}
		}
		return fails
	}

	// phase 0: warm-up (also establishes the backend connections)
	if fault != "down-at-start" {
		if f := stream(before, "warm", false); f != 0 {
			r.Violation("C07:error-without-fault", "requests failed although no fault had been injected yet", witness(map[string]interface{}{"failures": f}))
			return
		}
	}
	acceptsBefore := atomic.LoadInt64(&victim.Accepts)
	layout := false
	e.note("warm-up done, victim accepted %d connections", acceptsBefore)

	// phase 1+2: the fault and the requests while it lasts
	switch fault {
	case "rst", "fin":
		victim.KillConns(fault == "rst")
		e.note("backend connection of node %d closed (%s)", victim.Idx, fault)
		stream(during, "during", false)
	case "rst-twice":
		victim.KillConns(true)
		stream(during, "during", false)
		victim.KillConns(true)
		e.note("backend connection reset twice")
		stream(during, "during2", false)
	case "silent-then-close":
		atomic.StoreInt32(&victim.Silent, 1)
		go func() {
			time.Sleep(time.Duration(20+rnd.Intn(100)) * time.Millisecond)
			victim.KillConns(false)
			atomic.StoreInt32(&victim.Silent, 0)
		}()
		stream(2, "during", false)
		e.note("node went silent, then closed its connections")
	case "restart", "restart-then-rst":
		victim.Stop(rnd.Intn(2) == 0)
		e.note("node %d stopped", victim.Idx)
		stream(during, "during", false)
		if err := victim.Restart(); err != nil {
			r.Inconclusive("cannot-rebind-node-address")
			return
		}
		e.note("node %d restarted on the same address", victim.Idx)
		if fault == "restart-then-rst" {
			stream(3, "between", false)
			victim.KillConns(true)
			e.note("connection reset again after the restart")
		}
	case "down-at-start":
		stream(during, "during", false)
		if err := victim.Restart(); err != nil {
			r.Inconclusive("cannot-rebind-node-address")
			return
		}
		e.note("node %d (down when the proxy started) is up now", victim.Idx)
	case "layout-move-slots", "layout-move-then-rst", "layout-drain-master":
		layout = true
		to := masters[(victim.Idx+1)%len(masters)]
		for to == victim {
			to = masters[rnd.Intn(len(masters))]
		}
		cl.Lock()
		moved := 0
		for sl := 0; sl < fakecluster.NumSlots; sl++ {
			if cl.Nodes[0].OwnerLocked(sl) == victim && (fault == "layout-drain-master" || sl%3 != 0) {
				// move the data with the slot, as a finished migration does
				cl.SetOwnerLocked(sl, to)
				moved++
			}
		}
		for _, k := range victim.DB().Keys() {
			if cl.Nodes[0].OwnerLocked(fakecluster.Slot([]byte(k))) == to {
				cl.MigrateKeyLocked(victim, to, k)
			}
		}
		mu.Lock()
		layoutChangedAt = lclock.Tick()
		e.firstRedir = 0
		mu.Unlock()
		cl.Unlock()
		e.note("%d slots of node %d now belong to node %d in every node's view", moved, victim.Idx, to.Idx)
		stream(during, "during", false)
		if fault == "layout-move-then-rst" {
			to.KillConns(true)
			e.note("connection to the new owner reset")
		}
	case "rst-all-at-once":
		// every backend connection is lost at the same moment, several times
		for round := 0; round < 6; round++ {
			var kw sync.WaitGroup
			for _, m := range masters {
				kw.Add(1)
				go func(m *fakecluster.Node) { defer kw.Done(); m.KillConns(true) }(m)
			}
			kw.Wait()
			time.Sleep(30 * time.Millisecond)
			for _, m := range masters {
				e.do("GET", keysFor(cl, m, 1, "all")[0]) // re-establish every connection
			}
		}
		e.note("all %d backend connections reset at once, 6 times", len(masters))
	case "layout-id-moves-address":
		// the node keeps its id (nodes.conf) but comes back on another address; the old address is taken over by a node
		// with another id and no slots, which redirects
		layout = true
		cl.Lock()
		victim.ID, spare.ID = spare.ID, victim.ID
		for sl := 0; sl < fakecluster.NumSlots; sl++ {
			if cl.Nodes[0].OwnerLocked(sl) == victim {
				cl.SetOwnerLocked(sl, spare)
			}
		}
		for _, k := range victim.DB().Keys() {
			cl.MigrateKeyLocked(victim, spare, k)
		}
		mu.Lock()
		layoutChangedAt = lclock.Tick()
		e.firstRedir = 0
		mu.Unlock()
		cl.Unlock()
		e.note("node id %s... now lives at %s (was %s); the old address answers MOVED", spare.ID[:8], spare.Addr, victim.Addr)
		stream(during, "during", false)
	case "layout-failover":
		layout = true
		rep := cl.Replicas(victim)[0]
		victim.Stop(true)
		stream(during/2+1, "during", false)
		cl.Lock()
		cl.PromoteLocked(rep)
		mu.Lock()
		layoutChangedAt = lclock.Tick()
		e.firstRedir = 0
		mu.Unlock()
		cl.Unlock()
		e.note("master %d killed, replica %d promoted in every view", victim.Idx, rep.Idx)
	}

	// phase 3: grace period
	stream(20, "grace", false)
	time.Sleep(200 * time.Millisecond)
	if layout {
		// wait (bounded) until a CLUSTER NODES fetch issued after the change is in the node log
		deadline := time.Now().Add(5 * time.Second)
		for atomic.LoadInt64(&e.lastFetch) < layoutChangedAt && time.Now().Before(deadline) {
			e.do("GET", vkeys[0])
			time.Sleep(20 * time.Millisecond)
		}
		if atomic.LoadInt64(&e.lastFetch) < layoutChangedAt {
			r.Violation("C07:no-refresh-after-layout-change:"+fault, "no CLUSTER NODES fetch was observed within 5 s after the layout changed and requests were redirected", witness(nil))
			return
		}
		time.Sleep(150 * time.Millisecond) // the reply of that fetch is applied
		stream(10, "grace2", false)
		time.Sleep(150 * time.Millisecond)
	}
	redirBefore := atomic.LoadInt64(&e.redirects)

	// phase 4: verification stream
	res := stream(30, "verify", true)
	if fault == "rst-all-at-once" && res >= 0 {
		for _, m := range masters {
			k := keysFor(cl, m, 1, "all")[0]
			ok := false
			for t := 0; t < 3 && !ok; t++ {
				if _, ok = e.do("SET", k, "v"); !ok {
					time.Sleep(time.Second)
				}
			}
			if !ok {
				e.note("node %d is reachable but requests for it keep failing", m.Idx)
				res = -1
				break
			}
		}
	}
	if sutDied(r, s, witness(nil)) {
		return
	}
	if res < 0 {
		r.Violation("C07:no-heal:"+fault, "after the backend was reachable again (and the grace period) a request kept failing", witness(nil))
		return
	}
	if layout {
		if rd := atomic.LoadInt64(&e.redirects) - redirBefore; rd > 0 {
			// one more chance: routing converges within a bounded number of refresh rounds
			time.Sleep(500 * time.Millisecond)
			redirBefore = atomic.LoadInt64(&e.redirects)
			stream(30, "verify2", true)
			if rd2 := atomic.LoadInt64(&e.redirects) - redirBefore; rd2 > 0 {
				r.Violation("C07:routing-not-converged:"+fault, fmt.Sprintf("%d requests were still redirected although CLUSTER NODES was fetched after the layout change (%d refreshes seen)", rd2, atomic.LoadInt64(&e.clusterNodes)), witness(nil))
				return
			}
		}
		r.Count("layout_changes_converged", 1)
	} else if fault != "silent-then-close" || true {
		if a := atomic.LoadInt64(&victim.Accepts); a > acceptsBefore {
			r.Count("new_connections_after_fault", 1)
		} else if fault != "down-at-start" {
			r.Violation("C07:no-new-connection:"+fault, "requests succeed but the node never saw a new connection after its connection was lost", witness(map[string]interface{}{"accepts_before": acceptsBefore, "accepts_after": a}))
			return
		}
	}
	role := "master"
	r.Case(fmt.Sprintf("%s/%s/%s", fault, role, timing))
	r.Count("histories_judged", 1)
	if rep == 0 && (fault == "restart" || fault == "layout-move-slots") {
		r.Sample(map[string]interface{}{"fault": fault, "masters": nm, "history": e.log})
	}
}

// c07RefreshTriggers: with the periodic refresh effectively off (60 s) the table converges only through refreshes triggered by
// redirections and host changes; a trigger must not be lost whenever it arrives (inside the rate-limit window of the previous
// refresh, or while a refresh is in flight), and open-slot markers in CLUSTER NODES must not invalidate the reply.
func c07RefreshTriggers(r *ev.Run) {
	const minRate = 300 * time.Millisecond
	s, err := startSUT(r, false, 60000, int64(minRate/time.Millisecond))
	if err != nil {
		r.Internal("start sut: %v", err)
		return
	}
	defer s.Close()
	reps := 2
	if r.Tier == "thorough" {
		reps = 12
	}
	rnd := rand.New(rand.NewSource(r.Seed + 707))
	for rep := 0; rep < reps; rep++ {
		for _, scen := range []string{"trigger-inside-rate-limit-window", "trigger-while-refresh-in-flight", "open-migration-markers-on-every-master"} {
			if sutDied(r, s, scen) {
				return
			}
			cl, err := fakecluster.New(3, 0)
			if err != nil {
				r.Internal("fakecluster: %v", err)
				return
			}
			cl.AssignContiguous()
			cl.LogArgs = false
			var lastFetch, redirects int64
			var slowCluster int32
			cl.OnEvent = func(e *fakecluster.Event) {
				if e.Cmd == "cluster" {
					atomic.StoreInt64(&lastFetch, e.Seq)
				}
				if e.Outcome == fakecluster.Moved || e.Outcome == fakecluster.Ask {
					atomic.AddInt64(&redirects, 1)
				}
			}
			for _, n := range cl.Nodes {
				n.Delay = func(args [][]byte) time.Duration {
					if atomic.LoadInt32(&slowCluster) == 1 && len(args) > 0 && strings.EqualFold(string(args[0]), "cluster") {
						// (only the seed node receives CLUSTER NODES in the in-flight scenario)
						return 250 * time.Millisecond
					}
					return 0
				}
			}
			ms := cl.Masters()
			perm := rnd.Perm(len(ms))
			src, dst, third := ms[perm[0]], ms[perm[1]], ms[perm[2]]
			setMarkers := func() {
				cl.Lock()
				for i, m := range ms {
					// every master is the source of one open migration and the target of another
					sl := -1
					for x := 0; x < fakecluster.NumSlots; x++ {
						if cl.Nodes[0].OwnerLocked(x) == m {
							sl = x
							break
						}
					}
					t := ms[(i+1)%len(ms)]
					m.SetMigratingLocked(sl, t)
					t.SetImportingLocked(sl, m)
				}
				cl.Unlock()
			}
			seeds := cl.Addrs()
			if scen == "trigger-while-refresh-in-flight" {
				seeds = []string{third.Addr} // every CLUSTER NODES request goes to this node, which is not on the redirected request's path
			}
			svc, err := startRedisSvc(s, cl, seeds, RedisOpts{ConnTimeout: 300 * time.Millisecond})
			if err != nil {
				cl.Close()
				r.Internal("%v", err)
				return
			}
			if !svc.WaitRouting(1, 10*time.Second) {
				cl.Close()
				r.Inconclusive("routing-not-loaded")
				continue
			}
			conn, err := svc.Dial()
			if err != nil {
				cl.Close()
				r.Internal("dial: %v", err)
				return
			}
			// keys of slots that will move (not the first slot of src: that one may carry an open-migration marker)
			var moving []string
			cl.Lock()
			first := -1
			for x := 0; x < fakecluster.NumSlots; x++ {
				if cl.Nodes[0].OwnerLocked(x) == src {
					first = x
					break
				}
			}
			cl.Unlock()
			for i := 0; len(moving) < 6 && i < 100000; i++ {
				k := fmt.Sprintf("rt%d.%d", rep, i)
				sl := fakecluster.Slot([]byte(k))
				cl.Lock()
				own := cl.Nodes[0].OwnerLocked(sl)
				cl.Unlock()
				if own == src && sl != first {
					moving = append(moving, k)
				}
			}
			move := func() int64 {
				cl.Lock()
				defer cl.Unlock()
				for _, k := range moving {
					cl.SetOwnerLocked(fakecluster.Slot([]byte(k)), dst)
				}
				for _, k := range src.DB().Keys() {
					if cl.Nodes[0].OwnerLocked(fakecluster.Slot([]byte(k))) == dst {
						cl.MigrateKeyLocked(src, dst, k)
					}
				}
				return lclock.Tick()
			}
			var history []string
			note := func(f string, a ...interface{}) { history = append(history, fmt.Sprintf(f, a...)) }
			var changedAt int64
			switch scen {
			case "trigger-inside-rate-limit-window":
				// the start-up refresh has just succeeded: its rate-limit window is open now
				changedAt = move()
				conn.DoS(5*time.Second, "SET", moving[0], "v") // redirected once: its trigger arrives inside the window
				note("layout changed and one request redirected within the %s window of the start-up refresh", minRate)
			case "trigger-while-refresh-in-flight":
				time.Sleep(minRate + 150*time.Millisecond)
				atomic.StoreInt32(&slowCluster, 1)
				s.HostOp("host_add", svc.Name, hostsOf(seeds)) // triggers a refresh whose CLUSTER NODES reply takes 250 ms
				time.Sleep(80 * time.Millisecond)
				changedAt = move() // the reply in flight still describes the old layout
				conn.DoS(5*time.Second, "SET", moving[0], "v")
				atomic.StoreInt32(&slowCluster, 0)
				note("a refresh was in flight (CLUSTER NODES delayed 250 ms) when the layout changed and one request was redirected")
			default:
				time.Sleep(minRate + 150*time.Millisecond)
				setMarkers()
				changedAt = move()
				conn.DoS(5*time.Second, "SET", moving[0], "v")
				note("every master has [slot->-id] and [slot-<-id] markers; layout changed and one request redirected")
			}
			// no further request: the first redirection alone must lead to a refresh round within a bounded time
			deadline := time.Now().Add(minRate + 250*time.Millisecond + 2500*time.Millisecond)
			for atomic.LoadInt64(&lastFetch) < changedAt && time.Now().Before(deadline) {
				time.Sleep(20 * time.Millisecond)
			}
			w := map[string]interface{}{"scenario": scen, "history": history, "rate_limit": minRate.String(), "periodic_refresh": "60s (off)"}
			if atomic.LoadInt64(&lastFetch) < changedAt {
				r.Violation("C07:refresh-trigger-lost:"+scen, "the first redirection after a layout change did not lead to a CLUSTER NODES fetch within the bound (rate limit + 2.75 s), although no periodic refresh would come for 60 s", w)
			} else {
				time.Sleep(200 * time.Millisecond) // the reply is applied
				before := atomic.LoadInt64(&redirects)
				okAll := true
				for _, k := range moving {
					if v, err := conn.DoS(5*time.Second, "SET", k, "v2"); err != nil || v.Kind == resp.Error {
						okAll = false
					}
				}
				if rd := atomic.LoadInt64(&redirects) - before; rd > 0 || !okAll {
					w["redirected_after_refresh"] = rd
					r.Violation("C07:routing-not-converged:"+scen, fmt.Sprintf("%d requests were still redirected after the refresh that followed the layout change", rd), w)
				} else {
					r.Count("refresh_trigger_scenarios_converged", 1)
				}
			}
			r.Case("refresh-trigger/" + scen)
			conn.Close()
			s.StopProc(svc.Name, 15*time.Second)
			cl.Close()
		}
	}
	r.Require("refresh_trigger_scenarios_converged", int64(reps*2))
}

// c07ConcurrentReconnect: the connection to a reachable backend is lost and several clients need that backend at the same moment,
// while the new connection is still being established (the dial is stretched to 150 ms by a pause point). Every one of them must be
// served over the new connection: the backend is reachable the whole time.
func c07ConcurrentReconnect(r *ev.Run) {
	s, err := startSUT(r, false, 60000, 20)
	if err != nil {
		r.Internal("start sut: %v", err)
		return
	}
	defer s.Close()
	cl, err := fakecluster.New(2, 0)
	if err != nil {
		r.Internal("fakecluster: %v", err)
		return
	}
	defer cl.Close()
	cl.AssignContiguous()
	cl.LogArgs = false
	svc, err := startRedisSvc(s, cl, cl.Addrs(), RedisOpts{ConnTimeout: time.Second})
	if err != nil || !svc.WaitRouting(1, 10*time.Second) {
		r.Internal("service did not start: %v", err)
		return
	}
	node := cl.Nodes[0]
	keys := keysFor(cl, node, 16, "cr")
	reps := 4
	if r.Tier == "thorough" {
		reps = 25
	}
	const hook = "redis.upstream.create_client.after_dial"
	for rep := 0; rep < reps; rep++ {
		nc := 4 + rep%5
		conns := make([]*rclient.Conn, 0, nc)
		for i := 0; i < nc; i++ {
			c, err := svc.Dial()
			if err != nil {
				r.Internal("dial: %v", err)
				return
			}
			defer c.Close()
			if _, err := c.DoS(5*time.Second, "SET", keys[i], "v"); err != nil {
				r.Internal("warm-up: %v", err)
				return
			}
			conns = append(conns, c)
		}
		s.HookArm(hook, sutc.HookAction{Mode: "sleep", SleepUs: 150000, Times: 1})
		node.KillConns(rep%2 == 0)
		time.Sleep(30 * time.Millisecond) // the proxy has noticed the loss
		type res struct {
			i   int
			v   resp.Value
			err error
		}
		out := make(chan res, nc)
		for i, c := range conns {
			go func(i int, c *rclient.Conn) {
				v, err := c.DoS(5*time.Second, "GET", keys[i])
				out <- res{i, v, err}
			}(i, c)
		}
		var failed []string
		for range conns {
			x := <-out
			if x.err != nil || x.v.Kind == resp.Error {
				failed = append(failed, fmt.Sprintf("client %d: %s %v", x.i, x.v.String(), x.err))
			}
		}
		s.HookRelease(hook)
		if len(failed) > 0 {
			r.Violation("C07:error-while-reachable:concurrent-requests-during-reconnect", fmt.Sprintf("%d of %d requests issued while the connection to a reachable backend was being re-established got an error", len(failed), nc),
				map[string]interface{}{"clients": nc, "failed": failed, "connection_lost_by": map[bool]string{true: "reset", false: "close"}[rep%2 == 0], "dial_stretched_to": "150 ms"})
		} else {
			r.Count("concurrent_reconnects_all_served", 1)
		}
		r.Case(fmt.Sprintf("concurrent-reconnect/n%d", nc))
	}
	r.Require("concurrent_reconnects_all_served", 2)
}

// c07HealWhileDialing: the connection to backend A is lost while the proxy is still busy connecting to another backend B (a
// connect that takes long, e.g. to a black-holed address - here stretched by a pause point). A is reachable the whole time, so
// requests for A must be served over a new connection without waiting for B's connect to end.
func c07HealWhileDialing(r *ev.Run) {
	s, err := startSUT(r, false, 60000, 20)
	if err != nil {
		r.Internal("start sut: %v", err)
		return
	}
	defer s.Close()
	cl, err := fakecluster.New(2, 0)
	if err != nil {
		r.Internal("fakecluster: %v", err)
		return
	}
	defer cl.Close()
	cl.AssignContiguous()
	cl.LogArgs = false
	svc, err := startRedisSvc(s, cl, cl.Addrs(), RedisOpts{ConnTimeout: 2 * time.Second})
	if err != nil || !svc.WaitRouting(1, 10*time.Second) {
		r.Internal("service did not start: %v", err)
		return
	}
	a, b := cl.Nodes[0], cl.Nodes[1]
	ka, kb := keysFor(cl, a, 4, "hd")[0], keysFor(cl, b, 4, "hd")[0]
	const hook = "redis.upstream.create_client.after_dial"
	reps := 3
	if r.Tier == "thorough" {
		reps = 15
	}
	for rep := 0; rep < reps; rep++ {
		ca, err1 := svc.Dial()
		cb, err2 := svc.Dial()
		if err1 != nil || err2 != nil {
			r.Internal("dial")
			return
		}
		ca.DoS(5*time.Second, "SET", ka, "v")
		cb.DoS(5*time.Second, "SET", kb, "v")
		// armed first: losing the connection also makes the proxy ask for the slots info, possibly from B - whoever connects to B
		// first (that refresh or the request below) is held
		s.HookArm(hook, sutc.HookAction{Mode: "park", Times: 1})
		b.KillConns(true) // the next request for B has to connect again
		time.Sleep(40 * time.Millisecond)
		bDone := make(chan error, 1)
		go func() { _, err := cb.DoS(10*time.Second, "GET", kb); bDone <- err }()
		if !s.WaitParked(hook, 1, 3*time.Second) {
			s.HookRelease(hook)
			r.Inconclusive("hook-not-reached:" + hook + ":heal-while-dialing")
			ca.Close()
			cb.Close()
			continue
		}
		a.KillConns(rep%2 == 0) // A's connection is lost while B's connect is still in progress
		time.Sleep(60 * time.Millisecond)
		var failed []string
		for i := 0; i < 5; i++ {
			v, err := ca.DoS(1500*time.Millisecond, "GET", ka)
			if err != nil || v.Kind == resp.Error {
				failed = append(failed, fmt.Sprintf("%s %v", v.String(), err))
				if err != nil {
					ca.Close()
					ca, _ = svc.Dial()
				}
			}
			time.Sleep(20 * time.Millisecond)
		}
		s.HookRelease(hook)
		<-bDone
		if len(failed) > 0 {
			r.Violation("C07:error-while-reachable:connect-to-another-backend-in-flight", fmt.Sprintf("%d of 5 requests for a reachable backend failed while the proxy was connecting to another backend", len(failed)),
				map[string]interface{}{"failed": failed, "other_backend_connect": "held after the dial by a pause point (a connect that takes as long as its timeout behaves the same)"})
		} else {
			r.Count("healed_while_connecting_elsewhere", 1)
		}
		r.Case("heal-while-dialing")
		ca.Close()
		cb.Close()
	}
	r.Require("healed_while_connecting_elsewhere", 2)
}

// c07LossWhileAskingWaitsForRoom: the connection to a backend is lost while that backend's writer holds an ASK-redirected request and
// waits for room to queue the ASKING that goes in front of it (the backend had 1024 requests outstanding and had stopped answering).
// Afterwards the backend answers again: the proxy must reconnect and serve its keys - a writer that never notices the loss keeps the
// dead connection's client registered for ever.
func c07LossWhileAskingWaitsForRoom(r *ev.Run) {
	s, err := startSUT(r, false, 600000, 20)
	if err != nil {
		r.Internal("start sut: %v", err)
		return
	}
	defer s.Close()
	reps := 2
	if r.Tier == "thorough" {
		reps = 10
	}
	for rep := 0; rep < reps; rep++ {
		cl, err := fakecluster.New(2, 0)
		if err != nil {
			r.Internal("fakecluster: %v", err)
			return
		}
		cl.AssignContiguous()
		cl.LogArgs = false
		a, b := cl.Nodes[0], cl.Nodes[1]
		var bGot int64
		cl.OnEvent = func(e *fakecluster.Event) {
			if e.Node == b.Idx {
				atomic.AddInt64(&bGot, 1)
			}
		}
		svc, err := startRedisSvc(s, cl, cl.Addrs(), RedisOpts{})
		if err != nil || !svc.WaitRouting(1, 10*time.Second) {
			cl.Close()
			r.Internal("service did not start: %v", err)
			return
		}
		func() {
			defer cl.Close()
			defer s.StopProc(svc.Name, 20*time.Second)
			akeys := keysFor(cl, a, 8, "askroom")
			bkeys := keysFor(cl, b, 1100, "fill")
			cl.Lock()
			for _, k := range akeys {
				sl := fakecluster.Slot([]byte(k))
				a.SetMigratingLocked(sl, b)
				b.SetImportingLocked(sl, a)
			}
			cl.Unlock()
			warm, err := svc.Dial()
			if err != nil {
				r.Internal("dial: %v", err)
				return
			}
			defer warm.Close()
			warm.DoS(3*time.Second, "GET", bkeys[0])
			// the backend stops answering; exactly as many requests as its client keeps "in flight" are written to it
			atomic.StoreInt32(&b.Silent, 1)
			base := atomic.LoadInt64(&bGot)
			filler, err := svc.Dial()
			if err != nil {
				r.Internal("dial: %v", err)
				return
			}
			defer filler.Close()
			// (one MGET: a session keeps at most 32 requests of its own in flight, but a multi-key request is split into one
			// backend request per key)
			filler.C.Write(resp.CmdS(append([]string{"MGET"}, bkeys[1:1025]...)...))
			for i := 0; i < 600 && atomic.LoadInt64(&bGot)-base < 1024; i++ {
				time.Sleep(5 * time.Millisecond)
			}
			if atomic.LoadInt64(&bGot)-base < 1024 {
				r.Inconclusive("asking-waits-for-room:backend-not-filled")
				return
			}
			// redirected requests: the writer takes the first, writes ASKING and waits for room
			asker, err := svc.Dial()
			if err != nil {
				r.Internal("dial: %v", err)
				return
			}
			defer asker.Close()
			for _, k := range akeys[:4] {
				asker.C.Write(resp.CmdS("SET", k, "v"))
			}
			time.Sleep(300 * time.Millisecond)
			// the connection is lost, then the backend is well again
			atomic.StoreInt32(&b.Silent, 0)
			b.KillConns(true)
			// everything that was outstanding is answered (with an error)
			unanswered := 0
			if _, err := filler.Read(5 * time.Second); err != nil {
				unanswered = 1
			}
			// and the backend's keys are served again
			verify, err := svc.Dial()
			if err != nil {
				r.Internal("dial: %v", err)
				return
			}
			defer verify.Close()
			failed := 0
			var lastErr string
			for i := 0; i < 30; i++ {
				ok := false
				for try := 0; try < 4 && !ok; try++ {
					v, err := verify.DoS(3*time.Second, "GET", bkeys[1+i])
					if err == nil && v.Kind != resp.Error {
						ok = true
					} else {
						if err != nil {
							lastErr = err.Error()
							verify.Close()
							verify, _ = svc.Dial()
						} else {
							lastErr = v.String()
						}
						time.Sleep(time.Second)
					}
				}
				if !ok {
					failed++
					if failed >= 3 {
						break
					}
				}
			}
			if sutDied(r, s, "loss while ASKING waits for room") {
				return
			}
			w := map[string]interface{}{"round": rep, "outstanding_requests_never_answered": unanswered, "verification_requests_failed": failed, "last_error": lastErr}
			if failed > 0 {
				r.Violation("C07:error-while-reachable:loss-while-asking-waits-for-room", "after the connection to a backend with 1024 outstanding requests was lost while its writer was waiting for room to queue an ASKING, the backend's keys are not served although it accepts connections and answers", w)
			} else if unanswered > 0 {
				r.Inconclusive("asking-waits-for-room:outstanding-not-answered")
			} else {
				r.Count("loss_while_asking_waits_for_room_healed", 1)
			}
			r.Case("loss-while-asking-waits-for-room")
		}()
	}
}

// c07HostVanished: the host of a master vanishes - connects to its address time out (a listening socket whose accept queue is full:
// the kernel drops the SYNs) - and its slots are taken over by another node. With the periodic refresh far away, the failed connects
// are the proxy's only hint: the new layout must be fetched and the slots served by their new owner.
// It returns false when connect timeouts cannot be emulated on this kernel (the accept queue could not be filled).
func c07HostVanished(r *ev.Run) bool {
	s, err := startSUT(r, false, 600000, 20)
	if err != nil {
		r.Internal("start sut: %v", err)
		return true
	}
	defer s.Close()
	reps := 2
	if r.Tier == "thorough" {
		reps = 8
	}
	for rep := 0; rep < reps; rep++ {
		bh, closeBH, ok := tcpsim.BlackHole()
		if !ok {
			closeBH()
			r.Inconclusive("host-vanished:cannot-emulate-connect-timeouts")
			return false
		}
		cl, err := fakecluster.New(2, 0)
		if err != nil {
			closeBH()
			r.Internal("fakecluster: %v", err)
			return true
		}
		cl.AssignContiguous()
		cl.LogArgs = false
		a, b := cl.Nodes[0], cl.Nodes[1]
		// until the "failover" every node reports that b's slots live on the vanished host
		var vanished int32 = 1
		var fetchesAfter int64
		for _, n := range cl.Nodes {
			n := n
			n.Handler = func(c *fakecluster.Conn, args [][]byte) (fakecluster.Reply, bool) {
				if len(args) >= 2 && strings.EqualFold(string(args[0]), "cluster") && strings.EqualFold(string(args[1]), "nodes") {
					if atomic.LoadInt32(&vanished) == 1 {
						body := strings.ReplaceAll(n.ClusterNodesLocked(), b.Addr, bh) // (handlers run with the cluster lock held)
						return fakecluster.Reply{Raw: resp.Encode(resp.BS(body))}, true
					}
					atomic.AddInt64(&fetchesAfter, 1)
				}
				return fakecluster.Reply{}, false
			}
		}
		svc, err := startRedisSvc(s, cl, []string{a.Addr}, RedisOpts{ConnTimeout: 300 * time.Millisecond})
		if err != nil || !svc.WaitRouting(1, 10*time.Second) {
			cl.Close()
			closeBH()
			r.Internal("service did not start: %v", err)
			return true
		}
		func() {
			defer closeBH()
			defer cl.Close()
			defer s.StopProc(svc.Name, 20*time.Second)
			bkeys := keysFor(cl, b, 60, "gone")
			conn, err := svc.Dial()
			if err != nil {
				r.Internal("dial: %v", err)
				return
			}
			defer func() { conn.Close() }()
			// the layout changes: b has the slots (it always had them in the simulator; now the nodes say so)
			atomic.StoreInt32(&vanished, 0)
			failedFirst := 0
			served := false
			var lastErr string
			for i := 0; i < 40 && !served; i++ {
				v, err := conn.DoS(5*time.Second, "SET", bkeys[i], "v")
				switch {
				case err != nil:
					lastErr = err.Error()
					conn.Close()
					conn, _ = svc.Dial()
					failedFirst++
				case v.Kind == resp.Error:
					lastErr = v.String()
					failedFirst++
				default:
					served = true
				}
			}
			if sutDied(r, s, "host vanished") {
				return
			}
			w := map[string]interface{}{"round": rep, "requests_failed_before_the_first_success": failedFirst, "last_error": lastErr, "cluster_nodes_fetches_after_the_change": atomic.LoadInt64(&fetchesAfter), "vanished_address": bh, "new_owner": b.Addr}
			if !served {
				r.Violation("C07:error-while-reachable:host-vanished", "connects to a master's address time out (host gone) and its slots were taken over by a reachable node: 40 requests later the proxy still has not fetched the new layout / still fails the slots' requests", w)
				return
			}
			if failedFirst == 0 {
				r.Inconclusive("host-vanished:route-never-pointed-at-the-vanished-host")
				return
			}
			r.Count("host_vanished_healed", 1)
			r.Count("host_vanished_requests_failed_before_healing", int64(failedFirst))
			r.Case("host-vanished")
		}()
	}
	return true
}
