package main

import (
	"encoding/binary"
	"fmt"
	"io"
	"math/rand"
	"net"
	"runtime"
	"sync"
	"sync/atomic"
	"time"

	"verif/internal/ev"
	"verif/internal/sutc"
	"verif/internal/tcpsim"
)

func init() {
	register(&Check{ID: "C05", Level: "exploration", Drive: c05})
}

// streamGen produces a deterministic byte stream from a seed (xorshift64*); the stream does not depend on how it is cut into fills.
type streamGen struct {
	s    uint64
	cur  uint64
	left int
}

func newStreamGen(seed uint64) *streamGen {
	return &streamGen{s: seed*2685821657736338717 + 1442695040888963407}
}

func (g *streamGen) fill(p []byte) {
	for i := range p {
		if g.left == 0 {
			g.s ^= g.s >> 12
			g.s ^= g.s << 25
			g.s ^= g.s >> 27
			g.cur = g.s * 2685821657736338717
			g.left = 8
		}
		p[i] = byte(g.cur)
		g.cur >>= 8
		g.left--
	}
}

type c05Spec struct {
	ID            uint64
	ClientLen     int
	BackendLen    int
	Order         string // client-first, backend-first, simultaneous, client-abort, backend-abort
	ClientChunk   string // 1, small, 64k, whole
	BackendChunk  string
	Pace          string // none, yield, gap
	SlowReader    string // none, client, backend
	SecondPace    string // "", client, backend: that sender trickles (150 ms between twentieths of its stream)
	PauseSide     string // "", client, backend: that sender stops for Pause once PauseAt bytes are out (0 = before its first byte)
	PauseAt       int
	Pause         time.Duration
	clientResult  chan c05SideResult
	backendResult chan c05SideResult
}

type c05SideResult struct {
	Received int
	Problem  string
	SawEOF   bool
}

// sendStream writes n bytes of the stream (seed) with the given chunking and pacing.
func sendStream(c net.Conn, seed uint64, n int, chunk, pace string, rnd *rand.Rand, abortAfter int) error {
	return sendStreamP(c, seed, n, chunk, pace, rnd, abortAfter, -1, 0)
}

func (sp *c05Spec) paceOf(side string) string {
	if sp.SecondPace == side {
		return "slow"
	}
	return sp.Pace
}

func (sp *c05Spec) pauseOf(side string) (int, time.Duration) {
	if sp.PauseSide == side {
		return sp.PauseAt, sp.Pause
	}
	return -1, 0
}

// sendStreamP is sendStream with one pause of the given length once pauseAt bytes have been written (pauseAt < 0: none).
func sendStreamP(c net.Conn, seed uint64, n int, chunk, pace string, rnd *rand.Rand, abortAfter int, pauseAt int, pause time.Duration) error {
	g := newStreamGen(seed)
	buf := make([]byte, 64*1024)
	sent := 0
	if pauseAt == 0 {
		time.Sleep(pause)
		pauseAt = -1
	}
	for sent < n {
		if pauseAt > 0 && sent >= pauseAt {
			time.Sleep(pause)
			pauseAt = -1
		}
		k := len(buf)
		switch chunk {
		case "1":
			k = 1
		case "small":
			k = 1 + rnd.Intn(300)
		case "whole":
			k = len(buf)
		case "16k-edge":
			k = 16384 - 1 + rnd.Intn(3)
		case "twentieth":
			k = n/20 + 1
		}
		if k > n-sent {
			k = n - sent
		}
		if pauseAt > sent && k > pauseAt-sent {
			k = pauseAt - sent
		}
		if chunk == "1" && sent > 4096 {
			k = min(n-sent, len(buf)) // the single-byte phase covers the first 4 KiB
		}
		g.fill(buf[:k])
		c.SetWriteDeadline(time.Now().Add(60 * time.Second))
		if _, err := c.Write(buf[:k]); err != nil {
			return err
		}
		sent += k
		if abortAfter > 0 && sent >= abortAfter {
			return nil
		}
		switch pace {
		case "slow":
			time.Sleep(150 * time.Millisecond)
		case "yield":
			runtime.Gosched()
		case "gap":
			if rnd.Intn(20) == 0 {
				time.Sleep(time.Millisecond)
			}
		}
	}
	return nil
}

// recvStream reads until EOF or error and compares incrementally with the expected stream.
func recvStream(c net.Conn, seed uint64, want int, slow bool) c05SideResult {
	g := newStreamGen(seed)
	buf := make([]byte, 32*1024)
	exp := make([]byte, 32*1024)
	res := c05SideResult{}
	for {
		c.SetReadDeadline(time.Now().Add(20 * time.Second))
		n, err := c.Read(buf)
		if n > 0 {
			if res.Received+n > want {
				res.Problem = fmt.Sprintf("received %d bytes, more than the %d the peer sent", res.Received+n, want)
				return res
			}
			g.fill(exp[:n])
			for i := 0; i < n; i++ {
				if buf[i] != exp[i] {
					res.Problem = fmt.Sprintf("stream differs from what the peer sent at offset %d (of %d)", res.Received+i, want)
					return res
				}
			}
			res.Received += n
			if slow {
				time.Sleep(300 * time.Microsecond)
			}
		}
		if err == io.EOF {
			res.SawEOF = true
			return res
		}
		if err != nil {
			if res.Problem == "" {
				res.Problem = "read error: " + err.Error()
			}
			return res
		}
	}
}

func halfClose(c net.Conn) {
	if tc, ok := c.(*net.TCPConn); ok {
		tc.CloseWrite()
	}
}

func c05(r *ev.Run) {
	r.Rule("connections through the real TCP proxy to a scripted backend: stream lengths {0, 1, 16383, 16384, 16385, 3x16384+7, hundreds of KiB, several MiB (up to 64 MiB in thorough)} in both directions, chunkings {1 byte, small PRNG, 16 KiB edges, 64 KiB}, pacing {none, yields, 1 ms gaps}, slow reader on either side (back-pressure), close orders {client half-closes first, backend first, simultaneous, abrupt close by either side mid-stream}, 1-128 concurrent connections; a phase where one sender pauses for 1 s (connect timeout 300 ms, idle timeout 30 s) before or in the middle of its stream; a phase with idle timeout 1 s where the side that sends second trickles for 3 s after the first has finished; each receiver recomputes the sender's PRNG stream; distinct = distinct (length classes, close order, chunking, slow side) tuples")
	r.Assume("the backend learns which connection it serves from an 8-byte id the client sends first (relayed like any other bytes)")
	for _, race := range []bool{false, true} {
		s, err := startSUT(r, race, 0, 0)
		if err != nil {
			r.Internal("start sut: %v", err)
			return
		}
		n := 700
		if r.Tier == "thorough" {
			n = 5000
		}
		if race {
			n /= 5
		}
		c05Run(r, s, r.Seed*7+int64(len(fmt.Sprint(race))), n, race, false)
		if !race {
			np := 24
			if r.Tier == "thorough" {
				np = 200
			}
			c05Run(r, s, r.Seed*11+5, np, race, true)
			c05Run(r, s, r.Seed*13+7, np/2, race, false, true)
		}
		if race {
			for _, rr := range raceReports(s, []string{"proc/tcp/proc.go"}) {
				r.Violation("C05:race:"+rr.Key, "data race in the TCP relay (pooled buffers)", map[string]interface{}{"report": rr.Text})
			}
		}
		sutDied(r, s, "end of C05 workload")
		s.Close()
	}
	r.Require("connections_judged", 200)
	r.Require("connections_with_a_pausing_peer", 20)
	r.Require("connections_with_a_trickling_second_direction", 8)
	r.Require("bytes_verified", 40<<20)
}

// paused = the "pausing peers" phase: connect timeout 300 ms, idle timeout 30 s, and one sender per connection stops for 1 s (longer
// than the connect timeout, far shorter than the idle timeout) before its first byte or in the middle of its stream.
func c05Run(r *ev.Run, s *sutc.SUT, seed int64, nconns int, race bool, paused bool, slowOpt ...bool) {
	slow := len(slowOpt) > 0 && slowOpt[0]
	rnd := rand.New(rand.NewSource(seed))
	var specs sync.Map
	backend, err := tcpsim.NewBackend(func(b *tcpsim.Backend, c net.Conn) {
		defer c.Close()
		var hdr [8]byte
		c.SetReadDeadline(time.Now().Add(30 * time.Second))
		if _, err := io.ReadFull(c, hdr[:]); err != nil {
			return // the proxy's listener probe or an aborted connection
		}
		v, ok := specs.Load(binary.BigEndian.Uint64(hdr[:]))
		if !ok {
			return
		}
		sp := v.(*c05Spec)
		brnd := rand.New(rand.NewSource(int64(sp.ID)))
		bpAt, bp := sp.pauseOf("backend")
		var res c05SideResult
		switch sp.Order {
		case "client-first":
			res = recvStream(c, sp.ID*2, sp.ClientLen, sp.SlowReader == "backend")
			if err := sendStreamP(c, sp.ID*2+1, sp.BackendLen, sp.BackendChunk, sp.paceOf("backend"), brnd, 0, bpAt, bp); err != nil && res.Problem == "" {
				res.Problem = "backend could not send after the client finished (opposite direction must keep flowing): " + err.Error()
			}
			halfClose(c)
		case "backend-first":
			if err := sendStreamP(c, sp.ID*2+1, sp.BackendLen, sp.BackendChunk, sp.paceOf("backend"), brnd, 0, bpAt, bp); err != nil {
				res.Problem = "backend send: " + err.Error()
			}
			halfClose(c)
			rr := recvStream(c, sp.ID*2, sp.ClientLen, sp.SlowReader == "backend")
			if res.Problem == "" {
				res = rr
			}
		case "simultaneous", "client-abort":
			done := make(chan error, 1)
			go func() {
				err := sendStreamP(c, sp.ID*2+1, sp.BackendLen, sp.BackendChunk, sp.paceOf("backend"), brnd, 0, bpAt, bp)
				halfClose(c)
				done <- err
			}()
			res = recvStream(c, sp.ID*2, sp.ClientLen, sp.SlowReader == "backend")
			if sp.Order == "client-abort" {
				c.Close() // the client is gone; unblock our sender
			}
			if err := <-done; err != nil && res.Problem == "" && sp.Order != "client-abort" {
				res.Problem = "backend send: " + err.Error()
			}
		case "backend-abort":
			go recvStream(c, sp.ID*2, sp.ClientLen, false)
			sendStream(c, sp.ID*2+1, sp.BackendLen, sp.BackendChunk, sp.Pace, brnd, sp.BackendLen/2+1)
			c.Close()
			res.SawEOF = true
		}
		sp.backendResult <- res
	})
	if err != nil {
		r.Internal("backend: %v", err)
		return
	}
	defer backend.Close()
	opts := TCPOpts{}
	if paused {
		opts = TCPOpts{ConnTimeout: 300 * time.Millisecond, IdleTimeout: 30 * time.Second}
	}
	if slow {
		// idle timeout 1 s; one direction finishes (or stays silent) while the other keeps trickling for 3 s, never pausing for more
		// than 150 ms: the idle timeout of the finished direction must not touch the one still flowing
		opts = TCPOpts{IdleTimeout: time.Second}
	}
	svc, err := startTCPSvc(s, []sutc.Host{{Addr: backend.Addr}}, opts)
	if err != nil {
		r.Internal("%v", err)
		return
	}
	defer s.StopProc(svc.Name, 20*time.Second)
	lens := []int{0, 1, 2, 16383, 16384, 16385, 3*16384 + 7, 100000, 300000}
	bigLens := []int{1 << 20, 3<<20 + 5, 8 << 20}
	if r.Tier == "thorough" {
		bigLens = append(bigLens, 32<<20, 64<<20)
	}
	var idSeq uint64 = uint64(seed) << 20
	var bytesVerified int64
	var wg sync.WaitGroup
	batch := 0
	for done := 0; done < nconns; {
		if r.Violations() >= 10 {
			break // enough witnesses; broken relays make every further connection wait for its deadlines
		}
		conc := 1 + rnd.Intn(16)
		if rnd.Intn(6) == 0 {
			conc = 64 + rnd.Intn(65)
		}
		if conc > nconns-done {
			conc = nconns - done
		}
		batch++
		for i := 0; i < conc; i++ {
			idSeq++
			pick := func() int {
				if rnd.Intn(12) == 0 && conc <= 16 {
					return bigLens[rnd.Intn(len(bigLens))]
				}
				return lens[rnd.Intn(len(lens))]
			}
			sp := &c05Spec{ID: idSeq, ClientLen: pick(), BackendLen: pick(),
				Order:       []string{"client-first", "backend-first", "simultaneous", "simultaneous", "client-abort", "backend-abort"}[rnd.Intn(6)],
				ClientChunk: []string{"1", "small", "64k", "16k-edge"}[rnd.Intn(4)], BackendChunk: []string{"1", "small", "64k", "16k-edge"}[rnd.Intn(4)],
				Pace: []string{"none", "none", "yield", "gap"}[rnd.Intn(4)], SlowReader: []string{"none", "none", "client", "backend"}[rnd.Intn(4)],
				clientResult: make(chan c05SideResult, 1), backendResult: make(chan c05SideResult, 1)}
			if paused {
				sp.Order = []string{"client-first", "backend-first", "simultaneous"}[rnd.Intn(3)]
				sp.PauseSide = []string{"client", "backend"}[rnd.Intn(2)]
				sp.Pause = time.Second
				if l := map[string]int{"client": sp.ClientLen, "backend": sp.BackendLen}[sp.PauseSide]; rnd.Intn(2) == 0 && l > 1 {
					sp.PauseAt = 1 + rnd.Intn(l-1)
				}
			}
			if slow {
				sp.Order = []string{"client-first", "backend-first"}[rnd.Intn(2)]
				sp.ClientLen, sp.BackendLen = 2000+rnd.Intn(60000), 2000+rnd.Intn(60000)
				sp.SlowReader, sp.Pace = "none", "none"
				// the side that sends second trickles
				if sp.Order == "client-first" {
					sp.BackendChunk, sp.SecondPace = "twentieth", "backend"
				} else {
					sp.ClientChunk, sp.SecondPace = "twentieth", "client"
				}
			}
			if sp.ClientLen+sp.BackendLen > 4<<20 {
				sp.ClientChunk, sp.BackendChunk, sp.Pace = "64k", "64k", "none"
			}
			if sp.SlowReader != "none" && sp.ClientLen+sp.BackendLen > 16<<20 {
				sp.SlowReader = "none"
			}
			specs.Store(sp.ID, sp)
			wg.Add(1)
			go func(sp *c05Spec) {
				defer wg.Done()
				defer specs.Delete(sp.ID)
				crnd := rand.New(rand.NewSource(int64(sp.ID) * 3))
				cpAt, cp := sp.pauseOf("client")
				w := func(side, problem string) map[string]interface{} {
					return map[string]interface{}{"spec": fmt.Sprintf("%+v", *sp), "side": side, "problem": problem, "concurrent_connections": conc}
				}
				c, err := net.DialTimeout("tcp", svc.Addr, 5*time.Second)
				if err != nil {
					r.Inconclusive("dial-failed")
					return
				}
				defer c.Close()
				var hdr [8]byte
				binary.BigEndian.PutUint64(hdr[:], sp.ID)
				c.Write(hdr[:])
				var cres c05SideResult
				switch sp.Order {
				case "client-first":
					if err := sendStreamP(c, sp.ID*2, sp.ClientLen, sp.ClientChunk, sp.paceOf("client"), crnd, 0, cpAt, cp); err != nil {
						cres.Problem = "client send: " + err.Error()
					}
					halfClose(c)
					rr := recvStream(c, sp.ID*2+1, sp.BackendLen, sp.SlowReader == "client")
					if cres.Problem == "" {
						cres = rr
					}
				case "backend-first":
					cres = recvStream(c, sp.ID*2+1, sp.BackendLen, sp.SlowReader == "client")
					if err := sendStreamP(c, sp.ID*2, sp.ClientLen, sp.ClientChunk, sp.paceOf("client"), crnd, 0, cpAt, cp); err != nil && cres.Problem == "" {
						cres.Problem = "client could not send after the backend finished (opposite direction must keep flowing): " + err.Error()
					}
					halfClose(c)
				case "simultaneous", "backend-abort":
					done := make(chan error, 1)
					go func() {
						err := sendStreamP(c, sp.ID*2, sp.ClientLen, sp.ClientChunk, sp.paceOf("client"), crnd, 0, cpAt, cp)
						halfClose(c)
						done <- err
					}()
					cres = recvStream(c, sp.ID*2+1, sp.BackendLen, sp.SlowReader == "client")
					if sp.Order == "backend-abort" {
						c.Close()
					}
					if err := <-done; err != nil && cres.Problem == "" && sp.Order != "backend-abort" {
						cres.Problem = "client send: " + err.Error()
					}
				case "client-abort":
					go recvStream(c, sp.ID*2+1, sp.BackendLen, false)
					sendStream(c, sp.ID*2, sp.ClientLen, sp.ClientChunk, sp.Pace, crnd, sp.ClientLen/2+1)
					c.Close()
					cres.SawEOF = true
				}
				var bres c05SideResult
				select {
				case bres = <-sp.backendResult:
				case <-time.After(25 * time.Second):
					bres.Problem = "backend side never finished"
				}
				class := fmt.Sprintf("%s/c%s/b%s/%s/slow-%s", sp.Order, lenClass(sp.ClientLen), lenClass(sp.BackendLen), sp.ClientChunk, sp.SlowReader)
				if sp.SecondPace != "" {
					class += "/trickling-" + sp.SecondPace
					r.Count("connections_with_a_trickling_second_direction", 1)
				}
				if sp.PauseSide != "" {
					class += fmt.Sprintf("/pause-%s-at-%s", sp.PauseSide, map[bool]string{true: "start", false: "middle"}[sp.PauseAt == 0])
					r.Count("connections_with_a_pausing_peer", 1)
				}
				switch sp.Order {
				case "client-first", "backend-first", "simultaneous":
					for _, x := range []struct {
						side string
						res  c05SideResult
						want int
					}{{"client", cres, sp.BackendLen}, {"backend", bres, sp.ClientLen}} {
						switch {
						case x.res.Problem != "":
							r.Violation("C05:"+sp.Order+":corrupt-or-broken", x.side+" side: "+x.res.Problem, w(x.side, x.res.Problem))
						case x.res.Received != x.want:
							r.Violation("C05:"+sp.Order+":bytes-lost", fmt.Sprintf("%s side saw end-of-stream after %d of %d bytes", x.side, x.res.Received, x.want), w(x.side, "short"))
						case !x.res.SawEOF:
							r.Violation("C05:"+sp.Order+":no-eof", x.side+" side never saw end-of-stream", w(x.side, "no eof"))
						default:
							atomic.AddInt64(&bytesVerified, int64(x.res.Received))
						}
					}
				case "client-abort":
					// the backend must see a prefix of the client's stream, then EOF or a reset; never other bytes
					if bres.Problem != "" && !isResetProblem(bres.Problem) {
						r.Violation("C05:client-abort:garbage", "backend side: "+bres.Problem, w("backend", bres.Problem))
					}
					atomic.AddInt64(&bytesVerified, int64(bres.Received))
				case "backend-abort":
					if cres.Problem != "" && !isResetProblem(cres.Problem) {
						r.Violation("C05:backend-abort:garbage", "client side: "+cres.Problem, w("client", cres.Problem))
					}
					atomic.AddInt64(&bytesVerified, int64(cres.Received))
				}
				r.Case(class)
				r.Count("connections_judged", 1)
				r.Count("order:"+sp.Order, 1)
			}(sp)
		}
		wg.Wait()
		done += conc
		if batch == 1 {
			r.Sample(map[string]interface{}{"concurrent_connections": conc, "example": "client-first: client sends its PRNG stream in chunks, half-closes; backend verifies to EOF, sends its own stream, half-closes; client verifies to EOF"})
		}
	}
	r.Count("bytes_verified", atomic.LoadInt64(&bytesVerified))
}

func isResetProblem(p string) bool {
	return len(p) >= 10 && p[:10] == "read error"
}
