package main

import (
	"fmt"
	"math/rand"
	"sync"
	"sync/atomic"
	"time"

	"github.com/anishathalye/porcupine"

	"verif/internal/ev"
	"verif/internal/fakecluster"
	"verif/internal/lclock"
	"verif/internal/refredis"
	"verif/internal/resp"
	"verif/internal/sutc"
)

// kvOp is one single-key operation of a concurrent history.
type kvOp struct {
	Key     string
	Args    [][]byte
	Unknown bool // the per-key output is not observable (child of a multi-key DEL); only the effect is modelled
}

// kvModel is the sequential model: refredis restricted to one key.
var kvModel = porcupine.Model{
	Partition: func(history []porcupine.Operation) [][]porcupine.Operation {
		m := map[string][]porcupine.Operation{}
		var order []string
		for _, op := range history {
			k := op.Input.(kvOp).Key
			if _, ok := m[k]; !ok {
				order = append(order, k)
			}
			m[k] = append(m[k], op)
		}
		out := make([][]porcupine.Operation, 0, len(order))
		for _, k := range order {
			out = append(out, m[k])
		}
		return out
	},
	Init: func() interface{} { return "" },
	Step: func(state, input, output interface{}) (bool, interface{}) {
		in := input.(kvOp)
		db := refredis.New()
		db.Restore(in.Key, state.(string))
		out := db.Exec(in.Args)
		ns := db.Snapshot(in.Key)
		if in.Unknown || output == nil {
			return true, ns
		}
		return out.Equal(output.(resp.Value)), ns
	},
	DescribeOperation: func(input, output interface{}) string {
		in := input.(kvOp)
		s := ""
		for _, a := range in.Args {
			s += abbrevArg(a) + " "
		}
		if output == nil {
			return s + "-> ?"
		}
		return s + "-> " + output.(resp.Value).String()
	},
}

const openReturn = int64(1) << 60

type histRecorder struct {
	mu  sync.Mutex
	ops []porcupine.Operation
}

func (h *histRecorder) add(op porcupine.Operation) {
	h.mu.Lock()
	h.ops = append(h.ops, op)
	h.mu.Unlock()
}

func describeHistory(ops []porcupine.Operation) []string {
	out := []string{}
	for _, op := range ops {
		out = append(out, fmt.Sprintf("client %d [%d,%d] %s", op.ClientId, op.Call, op.Return, kvModel.DescribeOperation(op.Input, op.Output)))
	}
	return out
}

// genHotOp draws an operation on the hot keys; multi-key operations return several per-key ops.
func genHotOp(rnd *rand.Rand, keys []string, client, n int) (args [][]byte) {
	bs := func(s string) []byte { return []byte(s) }
	uniq := bs(fmt.Sprintf("v%d.%d", client, n))
	k := keys[rnd.Intn(len(keys))]
	if rnd.Intn(6) == 0 {
		switch rnd.Intn(3) {
		case 0:
			args = [][]byte{bs("MGET")}
			for i := 1 + rnd.Intn(4); i > 0; i-- {
				args = append(args, bs(keys[rnd.Intn(len(keys))]))
			}
		case 1:
			args = [][]byte{bs("MSET")}
			seen := map[string]bool{}
			for i := 1 + rnd.Intn(3); i > 0; i-- {
				kk := keys[rnd.Intn(len(keys))]
				if seen[kk] {
					continue
				}
				seen[kk] = true
				args = append(args, bs(kk), bs(fmt.Sprintf("v%d.%d.%d", client, n, i)))
			}
		default:
			args = [][]byte{bs("DEL")}
			seen := map[string]bool{}
			for i := 1 + rnd.Intn(3); i > 0; i-- {
				kk := keys[rnd.Intn(len(keys))]
				if seen[kk] {
					continue
				}
				seen[kk] = true
				args = append(args, bs(kk))
			}
		}
		return args
	}
	switch k[0] {
	case 's':
		switch rnd.Intn(7) {
		case 0, 1:
			return [][]byte{bs("GET"), bs(k)}
		case 2:
			return [][]byte{bs("SET"), bs(k), uniq}
		case 3:
			return [][]byte{bs("GETSET"), bs(k), uniq}
		case 4:
			return [][]byte{bs("APPEND"), bs(k), uniq}
		case 5:
			return [][]byte{bs("SETNX"), bs(k), bs(fmt.Sprint(rnd.Intn(100)))}
		default:
			return [][]byte{bs("INCR"), bs(k)}
		}
	case 'l':
		switch rnd.Intn(5) {
		case 0:
			return [][]byte{bs("RPUSH"), bs(k), uniq}
		case 1:
			return [][]byte{bs("LPUSH"), bs(k), uniq}
		case 2:
			return [][]byte{bs("LPOP"), bs(k)}
		case 3:
			return [][]byte{bs("LLEN"), bs(k)}
		default:
			return [][]byte{bs("LRANGE"), bs(k), bs("0"), bs("-1")}
		}
	case 'h':
		f := bs(fmt.Sprintf("f%d", rnd.Intn(3)))
		switch rnd.Intn(4) {
		case 0:
			return [][]byte{bs("HSET"), bs(k), f, uniq}
		case 1:
			return [][]byte{bs("HGETALL"), bs(k)}
		case 2:
			return [][]byte{bs("HDEL"), bs(k), f}
		default:
			return [][]byte{bs("HGET"), bs(k), f}
		}
	default:
		switch rnd.Intn(3) {
		case 0:
			return [][]byte{bs("SADD"), bs(k), uniq}
		case 1:
			return [][]byte{bs("SMEMBERS"), bs(k)}
		default:
			return [][]byte{bs("SREM"), bs(k), bs(fmt.Sprintf("v%d.%d", rnd.Intn(4), rnd.Intn(6)))}
		}
	}
}

// splitOps turns a client command and its reply into per-key operations.
func splitOps(args [][]byte, reply *resp.Value) (ins []kvOp, outs []interface{}) {
	switch string(args[0]) {
	case "MGET":
		for i, k := range args[1:] {
			ins = append(ins, kvOp{Key: string(k), Args: [][]byte{[]byte("get"), k}})
			if reply != nil && reply.Kind == resp.Array && len(reply.Arr) == len(args)-1 {
				outs = append(outs, reply.Arr[i])
			} else if reply != nil {
				outs = append(outs, *reply) // malformed: will be judged illegal
			} else {
				outs = append(outs, nil)
			}
		}
	case "MSET":
		for i := 1; i+1 < len(args); i += 2 {
			ins = append(ins, kvOp{Key: string(args[i]), Args: [][]byte{[]byte("set"), args[i], args[i+1]}})
			if reply != nil {
				outs = append(outs, *reply)
			} else {
				outs = append(outs, nil)
			}
		}
	case "DEL":
		single := len(args) == 2
		for _, k := range args[1:] {
			ins = append(ins, kvOp{Key: string(k), Args: [][]byte{[]byte("del"), k}, Unknown: !single})
			if reply != nil && single {
				outs = append(outs, *reply)
			} else {
				outs = append(outs, nil)
			}
		}
	default:
		ins = append(ins, kvOp{Key: string(args[1]), Args: args})
		if reply != nil {
			outs = append(outs, *reply)
		} else {
			outs = append(outs, nil)
		}
	}
	return
}

// c03ModeB runs concurrent histories on hot keys and checks them for linearizability per key.
func c03ModeB(r *ev.Run, s *sutc.SUT, seed int64, nhist int, label string) {
	rnd := rand.New(rand.NewSource(seed))
	for hi := 0; hi < nhist; hi++ {
		if !s.Alive() {
			r.Violation("C03:sut-died", "the proxy died: "+s.CrashLine(), map[string]interface{}{"log_tail": s.LogTail(3000)})
			return
		}
		nm := 2 + rnd.Intn(4)
		cl, err := fakecluster.New(nm, 0)
		if err != nil {
			r.Internal("fakecluster: %v", err)
			return
		}
		layout := randomLayout(rnd, cl)
		cl.LogArgs = false
		var redirects int64
		svc, err := startRedisSvc(s, cl, cl.Addrs(), RedisOpts{})
		if err != nil {
			cl.Close()
			r.Internal("%v", err)
			return
		}
		if !svc.WaitRouting(1, 10*time.Second) {
			cl.Close()
			r.Internal("routing table never loaded")
			return
		}
		cl.OnEvent = func(e *fakecluster.Event) {
			if e.Outcome == fakecluster.Moved || e.Outcome == fakecluster.Ask {
				atomic.AddInt64(&redirects, 1)
			}
		}
		// small per-node delays so that operations really overlap
		for _, n := range cl.Nodes {
			dr := rand.New(rand.NewSource(seed + int64(hi*131+n.Idx)))
			var mu sync.Mutex
			n.Delay = func([][]byte) time.Duration {
				mu.Lock()
				defer mu.Unlock()
				if dr.Intn(4) == 0 {
					return time.Duration(dr.Intn(400)) * time.Microsecond
				}
				return 0
			}
		}
		nkeys := 3 + rnd.Intn(6)
		keys := make([]string, nkeys)
		for i := range keys {
			keys[i] = fmt.Sprintf("%c:hot%d{%d}", "slhS"[rnd.Intn(4)], i, rnd.Intn(1000))
		}
		nclients := 4 + rnd.Intn(13)
		h := &histRecorder{}
		var wg sync.WaitGroup
		var connErr atomic.Value
		for c := 0; c < nclients; c++ {
			wg.Add(1)
			go func(c int) {
				defer wg.Done()
				crnd := rand.New(rand.NewSource(seed*7 + int64(hi)*1009 + int64(c)))
				conn, err := svc.Dial()
				if err != nil {
					connErr.Store(err.Error())
					return
				}
				defer conn.Close()
				nops := 6 + crnd.Intn(8)
				for n := 0; n < nops; n++ {
					args := genHotOp(crnd, keys, c, n)
					if len(args) < 2 {
						continue
					}
					call := lclock.Tick()
					v, err := conn.Do(30*time.Second, args...)
					ret := lclock.Tick()
					var rp *resp.Value
					if err != nil {
						connErr.Store(fmt.Sprintf("%v on %s", err, abbrevArg(args[0])))
						ret = openReturn // stays open: may still take effect
					} else {
						rp = &v
					}
					ins, outs := splitOps(args, rp)
					for i := range ins {
						h.add(porcupine.Operation{ClientId: c, Input: ins[i], Call: call, Output: outs[i], Return: ret})
					}
					if err != nil {
						return
					}
				}
			}(c)
		}
		wg.Wait()
		if e := connErr.Load(); e != nil {
			r.Violation("C03:no-reply:modeB", "a client got no reply on a stable cluster: "+e.(string), map[string]interface{}{"workload": label, "seed": seed, "history": hi})
		}
		if rd := atomic.LoadInt64(&redirects); rd > 0 {
			r.Violation("C03:redirect-on-stable-cluster", fmt.Sprintf("%d redirects on a stable cluster (mode B)", rd), map[string]interface{}{"workload": label, "seed": seed, "history": hi, "layout": layout})
		}
		parts := kvModel.Partition(h.ops)
		single := porcupine.Model{Init: kvModel.Init, Step: kvModel.Step, DescribeOperation: kvModel.DescribeOperation}
		maxOverlap := 0
		for _, p := range parts {
			res := porcupine.CheckOperationsTimeout(single, p, 60*time.Second)
			switch res {
			case porcupine.Illegal:
				r.Violation("C03:not-linearizable", "concurrent history on one key is not linearizable against the single-server model",
					map[string]interface{}{"workload": label, "seed": seed, "history": hi, "layout": layout, "key": p[0].Input.(kvOp).Key, "operations": describeHistory(p)})
			case porcupine.Unknown:
				r.Inconclusive("porcupine-timeout")
				continue
			}
			r.Count("modeB_partitions_checked", 1)
			r.Count("modeB_operations", int64(len(p)))
			if o := overlap(p); o > maxOverlap {
				maxOverlap = o
			}
		}
		r.Count("modeB_histories", 1)
		r.Case(fmt.Sprintf("B/%dm/%s/cl%d/ov%d", nm, layout, nclients/4, min(maxOverlap, 4)))
		if hi == 0 {
			r.Sample(map[string]interface{}{"mode": "B", "masters": nm, "clients": nclients, "keys": keys, "operations": len(h.ops), "max_concurrent_ops_on_one_key": maxOverlap, "one_partition": describeHistory(parts[0])})
		}
		s.StopProc(svc.Name, 20*time.Second)
		cl.Close()
	}
}

// overlap returns the maximum number of operations of p in flight at the same logical instant.
func overlap(p []porcupine.Operation) int {
	best := 0
	for _, a := range p {
		n := 0
		for _, b := range p {
			if b.Call <= a.Call && a.Call < b.Return {
				n++
			}
		}
		if n > best {
			best = n
		}
	}
	return best
}
