package main

import (
	"errors"
	"fmt"
	"math/rand"
	"runtime"
	"sort"
	"strings"
	"sync"
	"sync/atomic"
	"time"

	"github.com/samaritan-proxy/samaritan/host"
	hcpb "github.com/samaritan-proxy/samaritan/pb/config/hc"
	"github.com/samaritan-proxy/samaritan/proc/verifx"

	"verif/internal/ev"
)

func init() {
	register(&Check{ID: "C15", Level: "exploration", Drive: c15})
	apiParts["C15/sequential"] = c15Sequential
	apiParts["C15/concurrent"] = c15Concurrent
	apiParts["C15/replace-same"] = c15ReplaceSame
	apiParts["C15/hysteresis"] = c15Hysteresis
	apiParts["C15/large-set"] = c15LargeSetPublication
}

func hostStr(h *host.Host) string {
	return fmt.Sprintf("%s(%s,%p,healthy=%v)", h.Addr, h.Type, h, h.IsHealthy())
}

func isClosed(ch <-chan struct{}) bool {
	select {
	case <-ch:
		return true
	default:
		return false
	}
}

// usableProblems compares the set's view with the statement, given the harness's record of every object it ever created.
func usableProblems(set *host.Set, everCreated []*host.Host) []string {
	var p []string
	all := set.All()
	member := map[*host.Host]bool{}
	addrSeen := map[string]bool{}
	for _, h := range all {
		member[h] = true
		if addrSeen[h.Addr] {
			p = append(p, "all-duplicate-address: "+h.Addr)
		}
		addrSeen[h.Addr] = true
		if !set.Exist(h.Addr) {
			p = append(p, "exist-disagrees: "+h.Addr)
		}
	}
	if set.Len() != len(all) {
		p = append(p, fmt.Sprintf("len-disagrees: Len()=%d All()=%d", set.Len(), len(all)))
	}
	tier := host.TypeBackup
	for _, h := range all {
		if h.IsHealthy() && h.Type == host.TypeMain {
			tier = host.TypeMain
		}
	}
	want := map[*host.Host]bool{}
	for _, h := range all {
		if h.IsHealthy() && h.Type == tier {
			want[h] = true
		}
	}
	got := set.Healthy()
	gotSet := map[*host.Host]bool{}
	for i, h := range got {
		if gotSet[h] {
			p = append(p, "usable-duplicate: "+hostStr(h))
		}
		gotSet[h] = true
		if i > 0 && got[i-1].Addr >= h.Addr {
			p = append(p, fmt.Sprintf("usable-not-sorted-or-duplicate-address: %s before %s", got[i-1].Addr, h.Addr))
		}
		if !member[h] {
			p = append(p, "usable-reports-removed-host: "+hostStr(h))
		} else if !want[h] {
			p = append(p, "usable-reports-host-outside-preferred-healthy-tier: "+hostStr(h))
		}
	}
	for h := range want {
		if !gotSet[h] {
			p = append(p, "usable-misses-healthy-member: "+hostStr(h))
		}
	}
	for i := 0; i < 20; i++ {
		h := set.Random()
		if h == nil {
			if len(want) != 0 {
				p = append(p, "random-nil-although-usable-hosts-exist")
			}
			break
		}
		if !member[h] {
			p = append(p, "random-selected-removed-host: "+hostStr(h))
			break
		}
		if !want[h] {
			p = append(p, "random-selected-host-outside-preferred-healthy-tier: "+hostStr(h))
			break
		}
	}
	for _, h := range everCreated {
		if isClosed(h.WaitRemoved()) && member[h] {
			p = append(p, "member-marked-removed: "+hostStr(h))
		}
	}
	return p
}

func c15Sequential(r *ev.Run) {
	rnd := rand.New(rand.NewSource(r.Seed))
	nseq := 6000
	if r.Tier == "thorough" {
		nseq = 100000
	}
	for si := 0; si < nseq; si++ {
		naddr := 1 + rnd.Intn(8)
		addrs := make([]string, naddr)
		for i := range addrs {
			addrs[i] = fmt.Sprintf("10.0.0.%d:80", i+1)
		}
		set := host.NewSet()
		var created []*host.Host
		everMember := map[*host.Host]bool{}
		mk := func() *host.Host {
			h := host.NewWithType(addrs[rnd.Intn(naddr)], host.Type(rnd.Intn(2)))
			created = append(created, h)
			return h
		}
		var trace []string
		n := 1 + rnd.Intn(60)
		// lists a reader still holds: Healthy() hands its slice out without a copy and callers (load balancer pick, redis
		// upstream) walk it without a lock, so a list that was handed out must never change afterwards
		type heldList struct {
			list []*host.Host
			was  []*host.Host
			at   int
		}
		var held []heldList
		for step := 0; step < n; step++ {
			switch x := rnd.Intn(100); {
			case x < 30:
				k := 1 + rnd.Intn(3)
				hs := make([]*host.Host, k)
				for i := range hs {
					hs[i] = mk()
					everMember[hs[i]] = true
				}
				set.Add(hs...)
				trace = append(trace, "Add("+hostsStr(hs)+")")
			case x < 35 && len(set.All()) > 0:
				// the same object again while it is a member (re-adding an object that was removed or that was
				// marked before it ever became a member is outside the property: no caller keeps such objects)
				all := set.All()
				h := all[rnd.Intn(len(all))]
				set.Add(h)
				trace = append(trace, "Add-same-member-object("+hostStr(h)+")")
			case x < 55:
				// production removes with freshly allocated objects of the same address
				k := 1 + rnd.Intn(2)
				hs := make([]*host.Host, k)
				for i := range hs {
					hs[i] = mk()
				}
				set.Remove(hs...)
				trace = append(trace, "Remove(fresh "+hostsStr(hs)+")")
			case x < 62 && len(created) > 0:
				h := created[rnd.Intn(len(created))]
				set.Remove(h)
				trace = append(trace, "Remove(known object "+hostStr(h)+")")
			case x < 70:
				k := rnd.Intn(4)
				hs := make([]*host.Host, k)
				for i := range hs {
					hs[i] = mk()
					everMember[hs[i]] = true
				}
				set.ReplaceAll(hs)
				trace = append(trace, "ReplaceAll("+hostsStr(hs)+")")
			case x < 85 && len(everMember) > 0:
				h := pickMember(rnd, everMember, created) // current, removed or stale object
				res := set.MarkHostUnhealthy(h)
				trace = append(trace, fmt.Sprintf("MarkUnhealthy(%s)=%v", hostStr(h), res))
			case len(everMember) > 0:
				h := pickMember(rnd, everMember, created)
				res := set.MarkHostHealthy(h)
				trace = append(trace, fmt.Sprintf("MarkHealthy(%s)=%v", hostStr(h), res))
			default:
				continue
			}
			probs := usableProblems(set, created)
			// removed objects that were once members must be marked removed
			members := map[*host.Host]bool{}
			for _, h := range set.All() {
				members[h] = true
			}
			for h := range everMember {
				if !members[h] && !isClosed(h.WaitRemoved()) {
					probs = append(probs, "removed-member-not-marked-removed: "+hostStr(h))
				}
			}
			for _, h := range held {
				same := len(h.list) == len(h.was)
				for i := 0; same && i < len(h.was); i++ {
					same = h.list[i] == h.was[i]
				}
				if !same {
					probs = append(probs, fmt.Sprintf("handed-out-list-changed: the usable hosts handed out after step %d were [%s] and now read [%s]", h.at, hostsStr(h.was), hostsStr(h.list)))
				}
				r.Count("held_lists_rechecked", 1)
			}
			if l := set.Healthy(); len(l) > 0 {
				held = append(held, heldList{l, append([]*host.Host(nil), l...), step})
				if len(held) > 3 {
					held = held[1:]
				}
			}
			if len(probs) > 0 {
				key := "C15:" + strings.SplitN(probs[0], ":", 2)[0]
				r.Violation(key, "after a step the host set's view is inconsistent: "+probs[0], map[string]interface{}{"trace": trace, "problems": probs})
				break
			}
			r.Count("sequential_steps", 1)
		}
		r.Case(fmt.Sprintf("seq/a%d/n%d", naddr, n/10))
		if si == 0 {
			r.Sample(map[string]interface{}{"sequential_trace": trace})
		}
	}
}

// pickMember picks (deterministically) an object that is or was a member.
func pickMember(rnd *rand.Rand, ever map[*host.Host]bool, created []*host.Host) *host.Host {
	for tries := 0; tries < 200; tries++ {
		h := created[rnd.Intn(len(created))]
		if ever[h] {
			return h
		}
	}
	for _, h := range created {
		if ever[h] {
			return h
		}
	}
	return created[0]
}

func hostsStr(hs []*host.Host) string {
	s := make([]string, len(hs))
	for i, h := range hs {
		s[i] = hostStr(h)
	}
	return strings.Join(s, " ")
}

// c15ReplaceSame: the endpoint set is replaced again and again by the same endpoints (what a discovery push without changes does),
// or by a set that keeps at least one healthy main host, while readers select. Every state between two operations has a healthy main
// host, so no selection may ever see an empty list or a backup host.
func c15ReplaceSame(r *ev.Run) {
	rounds := 150
	if r.Tier == "thorough" {
		rounds = 1500
	}
	rnd := rand.New(rand.NewSource(r.Seed + 33))
	for ri := 0; ri < rounds; ri++ {
		nmain, nbackup := 1+rnd.Intn(3), 1+rnd.Intn(2)
		mk := func(extraMain int) []*host.Host {
			var hs []*host.Host
			for i := 0; i < nmain+extraMain; i++ {
				hs = append(hs, host.NewWithType(fmt.Sprintf("10.0.2.%d:80", i+1), host.TypeMain))
			}
			for i := 0; i < nbackup; i++ {
				hs = append(hs, host.NewWithType(fmt.Sprintf("10.0.3.%d:80", i+1), host.TypeBackup))
			}
			rnd.Shuffle(len(hs), func(a, b int) { hs[a], hs[b] = hs[b], hs[a] })
			return hs
		}
		set := host.NewSet(mk(0)...)
		var stop int32
		var problem atomic.Value
		var samples int64
		var rwg sync.WaitGroup
		for g := 0; g < 3; g++ {
			rwg.Add(1)
			go func() {
				defer rwg.Done()
				for atomic.LoadInt32(&stop) == 0 {
					hs := set.Healthy()
					switch {
					case len(hs) == 0:
						problem.Store("no usable host")
					case hs[0].Type != host.TypeMain || hs[len(hs)-1].Type != host.TypeMain:
						problem.Store("a backup host is offered: [" + hostsStr(hs) + "]")
					case len(hs) < nmain:
						problem.Store(fmt.Sprintf("only %d of the %d main hosts that are members before and after every operation: [%s]", len(hs), nmain, hostsStr(hs)))
					}
					atomic.AddInt64(&samples, 1)
				}
			}()
		}
		nrep := 20 + rnd.Intn(60)
		for i := 0; i < nrep; i++ {
			set.ReplaceAll(mk(rnd.Intn(2)))
		}
		atomic.StoreInt32(&stop, 1)
		rwg.Wait()
		r.Count("replace_same_reader_samples", atomic.LoadInt64(&samples))
		if p := problem.Load(); p != nil {
			r.Violation("C15:selection-during-replace-all", "while the endpoint set was replaced by a set with the same healthy main hosts, a concurrent selection saw "+p.(string),
				map[string]interface{}{"main_hosts": nmain, "backup_hosts": nbackup, "replacements": nrep})
			break
		}
		r.Case(fmt.Sprintf("replace-same/m%d/b%d", nmain, nbackup))
	}
	r.Require("replace_same_reader_samples", 10000)
}

// c15Concurrent: writers / markers / readers on one set; readers assert always-true facts, the join the full equation.
func c15Concurrent(r *ev.Run) {
	rounds := 2000
	if r.Tier == "thorough" {
		rounds = 30000
	}
	rnd := rand.New(rand.NewSource(r.Seed + 3))
	for ri := 0; ri < rounds; ri++ {
		naddr := 1 + rnd.Intn(6)
		set := host.NewSet()
		var cmu sync.Mutex
		var created []*host.Host
		mkRaw := func(wr *rand.Rand) *host.Host {
			return host.NewWithType(fmt.Sprintf("10.0.1.%d:80", 1+wr.Intn(naddr)), host.Type(wr.Intn(2)))
		}
		register := func(h *host.Host) {
			cmu.Lock()
			created = append(created, h)
			cmu.Unlock()
		}
		pick := func(wr *rand.Rand) *host.Host {
			cmu.Lock()
			defer cmu.Unlock()
			if len(created) == 0 {
				return nil
			}
			return created[wr.Intn(len(created))]
		}
		var wg sync.WaitGroup
		var stop int32
		var readerProblem atomic.Value
		nw := 2 + rnd.Intn(3)
		for w := 0; w < nw; w++ {
			wg.Add(1)
			go func(w int) {
				defer wg.Done()
				wr := rand.New(rand.NewSource(r.Seed*131 + int64(ri*7+w)))
				for i := 0; i < 10; i++ {
					switch wr.Intn(6) {
					case 0, 1:
						h := mkRaw(wr)
						set.Add(h)
						register(h) // markers only ever see objects that have been members
					case 2:
						set.Remove(mkRaw(wr))
					case 3:
						a, b := mkRaw(wr), mkRaw(wr)
						set.ReplaceAll([]*host.Host{a, b})
						register(a)
						register(b)
					case 4:
						if h := pick(wr); h != nil {
							set.MarkHostUnhealthy(h)
						}
					default:
						if h := pick(wr); h != nil {
							set.MarkHostHealthy(h)
						}
					}
				}
			}(w)
		}
		var rwg sync.WaitGroup
		for g := 0; g < 2; g++ {
			rwg.Add(1)
			go func() {
				defer rwg.Done()
				for atomic.LoadInt32(&stop) == 0 {
					hs := set.Healthy()
					for i := range hs {
						if i > 0 && hs[i-1].Addr >= hs[i].Addr {
							readerProblem.Store(fmt.Sprintf("usable list not sorted / duplicate address: %s then %s", hs[i-1].Addr, hs[i].Addr))
						}
					}
					set.Random()
					set.Len()
					r.Count("concurrent_reader_samples", 1)
				}
			}()
		}
		wg.Wait()
		atomic.StoreInt32(&stop, 1)
		rwg.Wait()
		if p := readerProblem.Load(); p != nil {
			r.Violation("C15:concurrent-reader", "a reader running concurrently with set operations saw: "+p.(string), nil)
		}
		if probs := usableProblems(set, created); len(probs) > 0 {
			r.Violation("C15:concurrent-join:"+strings.SplitN(probs[0], ":", 2)[0], "after concurrent operations joined, the host set's view is inconsistent: "+probs[0], map[string]interface{}{"problems": probs, "writers": nw})
		}
		r.Case(fmt.Sprintf("conc/a%d/w%d", naddr, nw))
	}
}

// c15Hysteresis: a monitor with a scripted checker, one CheckOnce per logical round.
func c15Hysteresis(r *ev.Run) {
	rnd := rand.New(rand.NewSource(r.Seed + 4))
	runs := 1000
	if r.Tier == "thorough" {
		runs = 20000
	}
	for ri := 0; ri < runs; ri++ {
		fall := uint32([]int{1, 1, 2, 3, 7}[rnd.Intn(5)])
		rise := uint32([]int{1, 2, 3, 3, 7}[rnd.Intn(5)])
		nh := 1 + rnd.Intn(5)
		set := host.NewSet()
		hosts := make([]*host.Host, nh)
		for i := range hosts {
			hosts[i] = host.NewWithType(fmt.Sprintf("10.0.2.%d:80", i+1), host.Type(rnd.Intn(2)))
		}
		set.Add(hosts...)
		var omu sync.Mutex
		outcome := map[string]bool{}
		mon, err := verifx.NewMonitor(&hcpb.HealthCheck{Interval: time.Hour, Timeout: time.Second, FallThreshold: fall, RiseThreshold: rise,
			Checker: &hcpb.HealthCheck_TcpChecker{TcpChecker: &hcpb.TCPChecker{}}}, set, func(addr string, timeout time.Duration) error {
			omu.Lock()
			defer omu.Unlock()
			if outcome[addr] {
				return nil
			}
			return errors.New("scripted failure")
		})
		if err != nil || mon == nil {
			r.Internal("cannot build monitor: %v", err)
			return
		}
		rounds := 10 + rnd.Intn(60)
		pattern := []string{"random", "edge-threshold-minus-1", "alternate", "long-runs"}[rnd.Intn(4)]
		// per-host history of results and health
		contrary := make([]int, nh) // current run of consecutive results contrary to the health before the run
		healthy := make([]bool, nh)
		for i := range healthy {
			healthy[i] = true
		}
		var trace []string
		// in half of the runs the thresholds are changed once by a configuration update (same interval, same checker)
		resetAt := -1
		if rnd.Intn(2) == 0 {
			resetAt = 2 + rnd.Intn(rounds-2)
		}
		for rd := 0; rd < rounds; rd++ {
			if rd == resetAt {
				fall = uint32([]int{1, 2, 3, 5, 7}[rnd.Intn(5)])
				rise = uint32([]int{1, 2, 4, 3, 7}[rnd.Intn(5)])
				if err := mon.ResetHealthCheck(&hcpb.HealthCheck{Interval: time.Hour, Timeout: time.Second, FallThreshold: fall, RiseThreshold: rise,
					Checker: &hcpb.HealthCheck_TcpChecker{TcpChecker: &hcpb.TCPChecker{}}}); err != nil {
					r.Internal("ResetHealthCheck: %v", err)
					return
				}
				trace = append(trace, fmt.Sprintf("thresholds updated: fall=%d rise=%d", fall, rise))
				r.Count("threshold_updates", 1)
			}
			row := make([]bool, nh)
			omu.Lock()
			for i, h := range hosts {
				var ok bool
				switch pattern {
				case "random":
					ok = rnd.Intn(2) == 0
				case "alternate":
					ok = rd%2 == 0
				case "edge-threshold-minus-1":
					th := int(fall)
					if !healthy[i] {
						th = int(rise)
					}
					// threshold-1 contrary results, then one agreeing result
					ok = healthy[i]
					if rd%(th+1) < th-1+rnd.Intn(3) {
						ok = !healthy[i]
					}
				default:
					ok = (rd/(4+int(fall)+int(rise)))%2 == 0
				}
				row[i] = ok
				outcome[h.Addr] = ok
			}
			omu.Unlock()
			mon.VerifCheckOnce()
			for i, h := range hosts {
				th := int(fall)
				if !healthy[i] {
					th = int(rise)
				}
				if row[i] != healthy[i] {
					contrary[i]++
				} else {
					contrary[i] = 0
				}
				now := h.IsHealthy()
				w := map[string]interface{}{"host": h.Addr, "fall": fall, "rise": rise, "pattern": pattern, "round": rd, "consecutive_contrary_results": contrary[i], "trace": trace}
				if now != healthy[i] {
					if contrary[i] < th {
						r.Violation("C15:health-flipped-too-early", fmt.Sprintf("health flipped after %d consecutive contrary results, configured threshold %d", contrary[i], th), w)
					}
					r.Count("health_flips_observed", 1)
					healthy[i] = now
					contrary[i] = 0
				} else if contrary[i] >= th+1 {
					r.Violation("C15:health-never-flipped", fmt.Sprintf("health did not flip after %d consecutive contrary results, configured threshold %d", contrary[i], th), w)
					contrary[i] = 0
				}
			}
			trace = append(trace, fmt.Sprint(row))
			if len(trace) > 30 {
				trace = trace[1:]
			}
			// the set's view must follow the flags
			if rd%5 == 4 {
				if probs := usableProblems(set, hosts); len(probs) > 0 {
					r.Violation("C15:hysteresis-view:"+strings.SplitN(probs[0], ":", 2)[0], "during health checking the set's view is inconsistent: "+probs[0], map[string]interface{}{"problems": probs})
				}
			}
			// membership changes in the middle
			if rnd.Intn(25) == 0 {
				i := rnd.Intn(nh)
				set.Remove(host.New(hosts[i].Addr))
				nhst := host.NewWithType(hosts[i].Addr, host.Type(rnd.Intn(2)))
				set.Add(nhst)
				hosts[i] = nhst
				healthy[i] = true
				contrary[i] = 0
			}
		}
		r.Case(fmt.Sprintf("hyst/f%d/r%d/%s", fall, rise, pattern))
		if ri == 0 {
			r.Sample(map[string]interface{}{"fall": fall, "rise": rise, "pattern": pattern, "rounds": rounds, "last_rows": trace})
		}
	}
	r.Require("health_flips_observed", 100)
	_ = sort.Strings
}

func c15(r *ev.Run) {
	r.Rule("sequential: PRNG operation sequences (length 1-60) over 1-8 addresses x {main, backup}: Add (fresh object, same address other type, same object again), Remove (fresh object as production does, known object), ReplaceAll, MarkHostHealthy/Unhealthy on current, removed and stale objects, with the full view equation after every step and the last three handed-out usable lists re-read after every step (a handed-out list must not change); concurrent: writers / markers / readers on one set, equation at the join; hysteresis: scripted check outcomes (random / threshold-1 edges / alternation / long runs) x thresholds {1,2,3,7} through the real monitor one round at a time; distinct = distinct (address count, length class) / (writers) / (fall, rise, pattern) tuples")
	r.Assume("re-adding an object that was removed, or marking an object before it ever became a member, is outside the property (no caller keeps such objects; endpointsToHosts always allocates)")
	r.Assume("objects are compared by identity: a removed object must never be reported even if another object with the same address is a member")
	r.Assume("health flips on the (threshold+1)-th consecutive contrary result in the code; the oracle accepts a flip at >= threshold and demands one by threshold+1 ('at least the configured number')")
	scope := []string{"host/host.go"}
	runAPIPart(r, "sequential", false, nil, 10*time.Minute)
	runAPIPart(r, "concurrent", true, scope, 10*time.Minute)
	runAPIPart(r, "replace-same", false, nil, 10*time.Minute)
	runAPIPart(r, "large-set", false, nil, 10*time.Minute)
	runAPIPart(r, "hysteresis", false, nil, 10*time.Minute)
	r.Require("sequential_steps", 1000)
	r.Require("large_set_joins", 30)
}

// c15LargeSetPublication: what Healthy() reports after concurrent operations joined is the state after the LAST of them - with sets
// of thousands of hosts (collecting and sorting the view takes milliseconds) an operation that prepares its view early and publishes
// it late would overwrite the view of an operation that ran in between. One goroutine adds / removes / replaces members of a large
// backup tier, another marks the only main host healthy (or a member unhealthy) a PRNG fraction of a millisecond later; at the join the
// view equation must hold.
func c15LargeSetPublication(r *ev.Run) {
	rounds := 40
	if r.Tier == "thorough" {
		rounds = 400
	}
	rnd := rand.New(rand.NewSource(r.Seed + 1515))
	for ri := 0; ri < rounds; ri++ {
		n := []int{3000, 12000, 30000}[ri%3]
		set := host.NewSet()
		created := make([]*host.Host, 0, n+4)
		backups := make([]*host.Host, 0, n)
		for i := 0; i < n; i++ {
			backups = append(backups, host.NewWithType(fmt.Sprintf("10.%d.%d.%d:80", 1+i/65536, (i/256)%256, i%256), host.TypeBackup))
		}
		mainHost := host.NewWithType("10.0.0.1:81", host.TypeMain)
		set.Add(backups...)
		set.Add(mainHost)
		created = append(created, backups...)
		created = append(created, mainHost)
		set.MarkHostUnhealthy(mainHost) // the backup tier is in use
		op := ri % 4
		extra := host.NewWithType("10.250.0.1:80", host.TypeBackup)
		var repl []*host.Host
		if op == 2 {
			for i := 0; i < n; i++ {
				repl = append(repl, host.NewWithType(backups[i].Addr, host.TypeBackup))
			}
			repl = append(repl, host.NewWithType(mainHost.Addr, host.TypeMain))
		}
		delay := time.Duration(rnd.Intn(1500)) * time.Microsecond
		start := make(chan struct{})
		var wg sync.WaitGroup
		wg.Add(2)
		go func() {
			defer wg.Done()
			<-start
			switch op {
			case 0, 3:
				set.Add(extra)
			case 1:
				set.Remove(host.NewWithType(backups[n/2].Addr, host.TypeBackup))
			default:
				set.ReplaceAll(repl)
			}
		}()
		go func() {
			defer wg.Done()
			<-start
			t0 := time.Now()
			for time.Since(t0) < delay {
				runtime.Gosched()
			}
			if op == 3 {
				set.MarkHostUnhealthy(backups[7])
			} else if op == 2 {
				set.MarkHostUnhealthy(repl[3]) // (a member only if the replacement already ran; otherwise a no-op on a non-member)
			} else {
				set.MarkHostHealthy(mainHost)
			}
		}()
		close(start)
		wg.Wait()
		if op == 0 || op == 3 {
			created = append(created, extra)
		}
		if op == 2 {
			created = append(created, repl...)
		}
		if probs := usableProblems(set, created); len(probs) > 0 {
			msg := probs[0]
			if len(msg) > 300 {
				msg = msg[:300] + "..."
			}
			r.Violation("C15:large-set-join:"+strings.SplitN(probs[0], ":", 2)[0], "after two concurrent operations on a large host set joined, the set's view is not the state after the last of them: "+msg,
				map[string]interface{}{"hosts": n, "operation": []string{"Add one backup host", "Remove one backup host", "ReplaceAll with fresh objects", "Add one backup host"}[op], "concurrent_mark": []string{"MarkHostHealthy(main)", "MarkHostHealthy(main)", "MarkHostUnhealthy(new member)", "MarkHostUnhealthy(a backup)"}[op], "mark_started_after": delay.String(), "usable_reported": len(set.Healthy())})
		}
		r.Count("large_set_joins", 1)
		r.Case(fmt.Sprintf("large/%d/op%d", n, op))
	}
}
