package main

import (
	"bytes"
	"fmt"
	"io"
	"math/rand"
	"strings"
	"sync"
	"time"

	"github.com/golang/snappy"
	"github.com/samaritan-proxy/samaritan/pb/config/protocol"
	predis "github.com/samaritan-proxy/samaritan/pb/config/protocol/redis"
	"github.com/samaritan-proxy/samaritan/pb/config/service"
	sredis "github.com/samaritan-proxy/samaritan/proc/redis"

	"verif/internal/ev"
	"verif/internal/fakecluster"
	"verif/internal/resp"
)

func init() {
	register(&Check{ID: "C13", Level: "exploration", Drive: c13})
	apiParts["C13/whitebox"] = c13WhiteBox
}

var cpsHeader = []byte("(P$\x00\r\n") // documented header: magic "(P$", algorithm byte (snappy = 0), CR LF

// independentDecode decodes the snappy stream after the header with the upstream library, called directly.
func independentDecode(stored []byte) ([]byte, error) {
	if !bytes.HasPrefix(stored, cpsHeader) {
		return nil, fmt.Errorf("no header")
	}
	return io.ReadAll(snappy.NewReader(bytes.NewReader(stored[len(cpsHeader):])))
}

// storedFormOK checks the documented stored-form rule.
func storedFormOK(orig, stored []byte) (bool, string) {
	if bytes.Equal(orig, stored) {
		return true, "original"
	}
	dec, err := independentDecode(stored)
	if err != nil {
		return false, "neither the original bytes nor header + a decodable stream: " + err.Error()
	}
	if !bytes.Equal(dec, orig) {
		return false, "header + stream that decompresses to something else"
	}
	if len(stored) >= len(orig) {
		return false, "compressed form is not shorter than the original"
	}
	return true, "compressed"
}

func genCpsValue(rnd *rand.Rand, n int) ([]byte, string) {
	b := make([]byte, n)
	kind := []string{"constant", "periodic", "text", "random", "magic-inside", "digits", "near-header"}[rnd.Intn(7)]
	switch kind {
	case "near-header":
		// starts with the magic and a valid algorithm byte, but NOT with the documented header (no CR LF after it), followed by
		// a valid stream: it is an ordinary value and has to come back as written
		var bb bytes.Buffer
		bb.WriteString("(P$\x00")
		bb.WriteByte("zX\x00\r\n "[rnd.Intn(6)])
		bb.WriteByte("zX\x00\r "[rnd.Intn(5)]) // never LF: the pair is never CR LF
		sw := snappy.NewBufferedWriter(&bb)
		sw.Write(bytes.Repeat([]byte("near-header payload "), 1+n/20))
		sw.Close()
		out := bb.Bytes()
		if n >= 8 && len(out) > n {
			out = out[:n] // (a truncated stream does not decode: also an ordinary value)
		}
		return out, kind
	case "constant":
		c := byte('0' + rnd.Intn(10))
		for i := range b {
			b[i] = c
		}
	case "periodic":
		p := 1 + rnd.Intn(17)
		for i := range b {
			b[i] = byte('a' + i%p)
		}
	case "text":
		words := []string{"lorem ", "ipsum ", "dolor ", "sit ", "amet ", "\r\n", "consectetur "}
		var bb bytes.Buffer
		for bb.Len() < n {
			bb.WriteString(words[rnd.Intn(len(words))])
		}
		copy(b, bb.Bytes())
	case "random":
		rnd.Read(b)
	case "magic-inside":
		for i := range b {
			b[i] = 'x'
		}
		if n > len(cpsHeader)+2 {
			copy(b[1+rnd.Intn(n-len(cpsHeader)-1):], cpsHeader)
		}
	default:
		for i := range b {
			b[i] = byte('0' + rnd.Intn(10))
		}
	}
	if bytes.HasPrefix(b, cpsHeader) {
		b[0] = 'x' // values that start with the documented header are outside the property
	}
	return b, kind
}

func cpsConfig(enable bool, threshold uint32) *service.Config {
	return &service.Config{Protocol: protocol.Redis, ProtocolOptions: &service.Config_RedisOption{RedisOption: &protocol.RedisOption{
		Compression: &predis.Compression{Enable: enable, Algorithm: predis.Compression_SNAPPY, Threshold: threshold}}}}
}

type cpsWrite struct {
	args     [][]byte
	valueIdx []int
}

// genCpsWrite builds one supported write command carrying the given values.
func genCpsWrite(rnd *rand.Rand, key []byte, vals [][]byte) cpsWrite {
	bs := func(s string) []byte { return []byte(s) }
	v := vals[0]
	switch rnd.Intn(9) {
	case 0:
		return cpsWrite{[][]byte{bs("SET"), key, v}, []int{2}}
	case 1:
		opts := [][]byte{bs("EX"), bs("100")}
		if rnd.Intn(2) == 0 {
			opts = [][]byte{bs("PX"), bs("100000"), bs("NX")}
		}
		return cpsWrite{append([][]byte{bs("set"), key, v}, opts...), []int{2}}
	case 2:
		return cpsWrite{[][]byte{bs("SETNX"), key, v}, []int{2}}
	case 3:
		return cpsWrite{[][]byte{bs("GetSet"), key, v}, []int{2}}
	case 4:
		return cpsWrite{[][]byte{bs("SETEX"), key, bs("1000"), v}, []int{3}}
	case 5:
		return cpsWrite{[][]byte{bs("PSETEX"), key, bs("100000"), v}, []int{3}}
	case 6:
		return cpsWrite{[][]byte{bs("HSETNX"), key, bs("field"), v}, []int{3}}
	default:
		name := "HSET"
		if rnd.Intn(2) == 0 {
			name = "hmset"
		}
		w := cpsWrite{args: [][]byte{bs(name), key}}
		longNames := rnd.Intn(2) == 0 // field names that are themselves long and compressible: they are not values
		for i, val := range vals {
			fld := fmt.Sprintf("fld%d", i)
			if longNames {
				fld = fmt.Sprintf("fld%d:%s", i, strings.Repeat("name", 1+len(val)/3+rnd.Intn(300)))
			}
			w.args = append(w.args, bs(fld), val)
			w.valueIdx = append(w.valueIdx, 3+2*i)
		}
		return w
	}
}

func copyArgs(a [][]byte) [][]byte {
	out := make([][]byte, len(a))
	for i := range a {
		out[i] = append([]byte{}, a[i]...)
	}
	return out
}

// c13WhiteBox drives the compression filter exactly as a backend client's writer does.
func c13WhiteBox(r *ev.Run) {
	rnd := rand.New(rand.NewSource(r.Seed))
	thresholds := []uint32{1, 2, 8, 64, 512, 1024, 65536}
	n := 2500
	if r.Tier == "thorough" {
		n = 40000
	}
	readBack := func(cfg *service.Config, stored []byte, shape int) []byte {
		// what a later read through the proxy returns for these stored bytes
		switch shape {
		case 0:
			q := sredis.VerifNewFilterReq(cfg, [][]byte{[]byte("get"), []byte("k")})
			q.Do()
			return q.Complete(&sredis.RespValue{Type: sredis.BulkString, Text: append([]byte{}, stored...)}).Text
		case 1:
			q := sredis.VerifNewFilterReq(cfg, [][]byte{[]byte("hgetall"), []byte("k")})
			q.Do()
			v := q.Complete(&sredis.RespValue{Type: sredis.Array, Array: []sredis.RespValue{
				{Type: sredis.BulkString, Text: []byte("fld0")}, {Type: sredis.BulkString, Text: append([]byte{}, stored...)}}})
			return v.Array[1].Text
		default:
			q := sredis.VerifNewFilterReq(cfg, [][]byte{[]byte("hmget"), []byte("k"), []byte("a"), []byte("b")})
			q.Do()
			v := q.Complete(&sredis.RespValue{Type: sredis.Array, Array: []sredis.RespValue{
				{Type: sredis.BulkString}, {Type: sredis.BulkString, Text: append([]byte{}, stored...)}}})
			return v.Array[1].Text
		}
	}
	for i := 0; i < n; i++ {
		t := thresholds[rnd.Intn(len(thresholds))]
		cfg := cpsConfig(true, t)
		nv := 1 + rnd.Intn(4)
		vals := make([][]byte, nv)
		kinds := ""
		for j := range vals {
			l := int(t) - 1 + rnd.Intn(3)
			switch rnd.Intn(5) {
			case 0:
				l = rnd.Intn(2 * int(t+8))
			case 1:
				l = int(t) * (2 + rnd.Intn(40))
				if l > 300000 {
					l = 70000 + rnd.Intn(200000)
				}
			}
			if l < 0 {
				l = 0
			}
			var k string
			vals[j], k = genCpsValue(rnd, l)
			kinds += k[:1]
		}
		key := []byte(fmt.Sprintf("key{%d}\r\n", i))
		w := genCpsWrite(rnd, key, vals)
		orig := copyArgs(w.args)
		if i%50 == 0 {
			r.Checkpoint(map[string]interface{}{"phase": "whitebox", "threshold": t, "command": argStrings(orig)})
		}
		q := sredis.VerifNewFilterReq(cfg, w.args)
		if q.Do() {
			r.Violation("C13:supported-write-stopped", "a supported write command was stopped by the compression filter", map[string]interface{}{"command": argStrings(orig)})
			continue
		}
		after := copyArgs(q.Args())
		cmd := strings.ToLower(string(orig[0]))
		isVal := map[int]bool{}
		for _, vi := range w.valueIdx {
			isVal[vi] = true
		}
		class := fmt.Sprintf("%s/t%d", cmd, t)
		for ai := range orig {
			if !isVal[ai] {
				if !bytes.Equal(orig[ai], after[ai]) {
					r.Violation("C13:non-value-argument-changed:"+cmd, fmt.Sprintf("argument %d (not a value) was modified by the compression filter", ai),
						map[string]interface{}{"command": argStrings(orig), "after": argStrings(after), "threshold": t})
				}
				continue
			}
			ok, form := storedFormOK(orig[ai], after[ai])
			if !ok {
				r.Violation("C13:stored-form:"+cmd, "what would reach the backend is "+form, map[string]interface{}{"command": argStrings(orig), "arg": ai, "stored": abbrevArg(after[ai]), "threshold": t})
				continue
			}
			if form == "compressed" && uint32(len(orig[ai])) < t {
				r.Violation("C13:compressed-below-threshold:"+cmd, "a value shorter than the threshold was compressed", map[string]interface{}{"len": len(orig[ai]), "threshold": t})
			}
			r.Count("stored_"+form, 1)
			for shape := 0; shape < 3; shape++ {
				for _, en := range []bool{true, false} {
					if got := readBack(cpsConfig(en, t), after[ai], shape); !bytes.Equal(got, orig[ai]) {
						r.Violation(fmt.Sprintf("C13:read-back:%s:enable=%v", cmd, en), "a value written through the filter does not read back byte-identical",
							map[string]interface{}{"command": argStrings(orig), "arg": ai, "read_back": abbrevArg(got), "threshold": t, "reply_shape": shape})
					}
				}
			}
		}
		// a resend (MOVED / ASK) passes the same request through the filter chain of another client once more
		q.Do()
		again := copyArgs(q.Args())
		for _, vi := range w.valueIdx {
			got := readBack(cfg, again[vi], 0)
			if !bytes.Equal(got, orig[vi]) {
				r.Violation("C13:double-compression-on-resend", "after the request passed the filter chain a second time (what a redirected write does), the stored value no longer reads back to what was written",
					map[string]interface{}{"command": argStrings(orig), "arg": vi, "len_original": len(orig[vi]), "len_first_pass": len(after[vi]), "len_second_pass": len(again[vi]), "read_back": abbrevArg(got), "threshold": t})
				break
			}
			if !bytes.Equal(again[vi], after[vi]) {
				r.Count("second_pass_changed_bytes", 1)
			}
		}
		r.Case("wb/" + class + "/" + kinds)
		if i == 3 {
			r.Sample(map[string]interface{}{"whitebox_command": argStrings(orig), "threshold": t, "after_filter": argStrings(after)})
		}
	}
	// banned commands are stopped with an error
	for _, c := range []string{"append", "APPEND", "eval", "SetBit", "getbit", "setrange", "GETRANGE"} {
		q := sredis.VerifNewFilterReq(cpsConfig(true, 8), [][]byte{[]byte(c), []byte("k"), []byte("1"), []byte("k")})
		stopped := q.Do()
		resp := q.Response()
		if !stopped || resp == nil || resp.Type != sredis.Error {
			r.Violation("C13:banned-not-rejected:"+strings.ToLower(c), "a command documented as disabled under compression was not rejected by the filter", map[string]interface{}{"command": c})
		}
		r.Case("wb/banned/" + strings.ToLower(c))
	}
	// concurrent use of the pooled writers / readers / buffers: each goroutine must get its own bytes back
	var wg sync.WaitGroup
	for g := 0; g < 16; g++ {
		wg.Add(1)
		go func(g int) {
			defer wg.Done()
			grnd := rand.New(rand.NewSource(r.Seed*100 + int64(g)))
			for i := 0; i < n/8; i++ {
				v, _ := genCpsValue(grnd, 64+grnd.Intn(3000))
				copy(v, fmt.Sprintf("g%d.%d|", g, i))
				orig := append([]byte{}, v...)
				q := sredis.VerifNewFilterReq(cpsConfig(true, 64), [][]byte{[]byte("set"), []byte("k"), v})
				q.Do()
				stored := append([]byte{}, q.Args()[2]...)
				if ok, form := storedFormOK(orig, stored); !ok {
					r.Violation("C13:stored-form:concurrent", "under concurrent compression the stored form is "+form, map[string]interface{}{"goroutine": g, "i": i})
					return
				}
				if got := readBack(cpsConfig(true, 64), stored, i%3); !bytes.Equal(got, orig) {
					r.Violation("C13:read-back:concurrent", "under concurrent compression a value did not read back as written (pooled buffer shared?)", map[string]interface{}{"goroutine": g, "i": i, "read_back": abbrevArg(got)})
					return
				}
				r.Count("concurrent_roundtrips", 1)
			}
		}(g)
	}
	wg.Wait()
	r.Cases(int(r.Counter("concurrent_roundtrips")), "wb/concurrent-pools")
}

func c13(r *ev.Run) {
	r.Rule("white box: PRNG values (lengths t-1,t,t+1 and multiples around each threshold t in {1,2,8,64,512,1024,65536}; constant/periodic/text/random/digits/magic-inside) through every supported write command and argument position, filter passed once and twice (resend); end to end: unique large values written by concurrent connections through the real proxy in front of value-mode nodes, node stores inspected, writes redirected once by MOVED and by ASK, compression switched off and on by config update, banned commands; distinct = distinct (command, threshold, entropy kinds) and (scenario, command) tuples")
	r.Assume("independent decoder: github.com/golang/snappy called directly by the harness on the bytes after the documented 6-byte header")
	r.Assume("values starting with the compression magic are generated only with the magic moved inside (the statement excludes values that start with the header)")
	runAPIPart(r, "whitebox", true, []string{"proc/redis/filter_compress.go", "proc/redis/compressor/", "proc/redis/util.go"}, 10*time.Minute)
	c13EndToEnd(r)
	r.Require("stored_compressed", 200)
	r.Require("stored_original", 200)
	r.Require("e2e_roundtrips", 200)
	r.Require("e2e_stored_compressed", 50)
	r.Require("e2e_redirected_writes", 4)
	r.Require("e2e_redirected_reads", 4)
}

// c13EndToEnd: real proxy, compression on, value-mode nodes.
func c13EndToEnd(r *ev.Run) {
	s, err := startSUT(r, false, 60000, 20)
	if err != nil {
		r.Internal("start sut: %v", err)
		return
	}
	defer s.Close()
	rnd := rand.New(rand.NewSource(r.Seed + 5))
	thresholds := []uint32{8, 64, 1024}
	if r.Tier == "thorough" {
		thresholds = []uint32{1, 8, 64, 512, 1024, 65536}
	}
	for _, t := range thresholds {
		cl, err := fakecluster.New(3, 0)
		if err != nil {
			r.Internal("fakecluster: %v", err)
			return
		}
		cl.AssignContiguous()
		cl.LogArgs = false
		var amu sync.Mutex
		bannedArrivals := 0
		redirected := 0
		cl.OnEvent = func(e *fakecluster.Event) {
			amu.Lock()
			switch e.Cmd {
			case "append", "eval", "setbit", "getbit", "setrange", "getrange":
				bannedArrivals++
			}
			if e.Outcome == fakecluster.Moved || e.Outcome == fakecluster.Ask {
				redirected++
			}
			amu.Unlock()
		}
		opts := RedisOpts{Compression: &predis.Compression{Enable: true, Algorithm: predis.Compression_SNAPPY, Threshold: t}}
		svc, err := startRedisSvc(s, cl, cl.Addrs(), opts)
		if err != nil {
			cl.Close()
			r.Internal("%v", err)
			return
		}
		if !svc.WaitRouting(1, 10*time.Second) {
			cl.Close()
			r.Internal("routing table never loaded")
			return
		}
		// stored inspects the node stores for the stored-form rule.
		stored := func(key string, field string) ([]byte, bool) {
			cl.Lock()
			defer cl.Unlock()
			for _, m := range cl.Masters() {
				if field == "" {
					if b, ok := m.DB().RawString(key); ok {
						return append([]byte{}, b...), true
					}
				} else if h, ok := m.DB().RawHash(key); ok {
					b, ok2 := h[field]
					return append([]byte{}, b...), ok2
				}
			}
			return nil, false
		}
		nconn := 1 + rnd.Intn(32)
		per := 12
		if r.Tier == "thorough" {
			per = 60
		}
		var wg sync.WaitGroup
		for c := 0; c < nconn; c++ {
			wg.Add(1)
			go func(c int) {
				defer wg.Done()
				crnd := rand.New(rand.NewSource(r.Seed*977 + int64(t)*131 + int64(c)))
				conn, err := svc.Dial()
				if err != nil {
					r.Internal("dial: %v", err)
					return
				}
				defer conn.Close()
				for i := 0; i < per; i++ {
					l := int(t) - 1 + crnd.Intn(3)
					if crnd.Intn(2) == 0 {
						l = int(t) + crnd.Intn(6000)
					}
					if l < 0 {
						l = 0
					}
					v, kind := genCpsValue(crnd, l)
					if len(v) > 12 {
						copy(v, fmt.Sprintf("c%d.%d.%d|", c, i, t)) // unique: each read must return its own write
					}
					key := fmt.Sprintf("cps.%d.%d.%d", t, c, i)
					w := genCpsWrite(crnd, []byte(key), [][]byte{v, append([]byte("second-"), v...)})
					orig := copyArgs(w.args)
					cmd := strings.ToLower(string(orig[0]))
					if _, err := conn.Do(30*time.Second, w.args...); err != nil {
						r.Violation("C13:no-reply", "no reply to a write under compression", map[string]interface{}{"command": argStrings(orig), "error": err.Error()})
						return
					}
					for vi, ai := range w.valueIdx {
						want := orig[ai]
						field := ""
						var got resp.Value
						var err error
						if cmd[0] == 'h' {
							field = string(orig[ai-1])
							switch crnd.Intn(5) {
							case 4:
								// a reply that nests arrays: [cursor, [field, value, ...]]
								var a resp.Value
								a, err = conn.DoS(30*time.Second, "HSCAN", key, "0")
								if err == nil && a.Kind == resp.Array && len(a.Arr) == 2 && a.Arr[1].Kind == resp.Array {
									for x := 0; x+1 < len(a.Arr[1].Arr); x += 2 {
										if string(a.Arr[1].Arr[x].Str) == field {
											got = a.Arr[1].Arr[x+1]
										}
									}
								}
							case 0:
								got, err = conn.DoS(30*time.Second, "HGET", key, field)
							case 1:
								var a resp.Value
								a, err = conn.DoS(30*time.Second, "HMGET", key, "nosuch", field)
								if err == nil && a.Kind == resp.Array && len(a.Arr) == 2 {
									got = a.Arr[1]
								}
							case 2:
								var a resp.Value
								a, err = conn.DoS(30*time.Second, "HGETALL", key)
								if err == nil && a.Kind == resp.Array {
									for x := 0; x+1 < len(a.Arr); x += 2 {
										if string(a.Arr[x].Str) == field {
											got = a.Arr[x+1]
										}
									}
								}
							default:
								var a resp.Value
								a, err = conn.DoS(30*time.Second, "HVALS", key)
								if err == nil && a.Kind == resp.Array && vi < len(a.Arr) {
									got = a.Arr[vi]
								}
							}
						} else {
							switch crnd.Intn(3) {
							case 0:
								got, err = conn.DoS(30*time.Second, "GET", key)
							case 1:
								var a resp.Value
								a, err = conn.DoS(30*time.Second, "MGET", "nosuchkey", key)
								if err == nil && a.Kind == resp.Array && len(a.Arr) == 2 {
									got = a.Arr[1]
								}
							default:
								got, err = conn.Do(30*time.Second, []byte("GETSET"), []byte(key), want)
							}
						}
						if err != nil || got.Kind != resp.Bulk || !bytes.Equal(got.Str, want) {
							r.Violation("C13:e2e-read-back:"+cmd, "a value written through the proxy does not read back byte-identical",
								map[string]interface{}{"command": argStrings(orig), "arg": ai, "read_back": got.String(), "threshold": t, "error": fmt.Sprint(err)})
							continue
						}
						if st, ok := stored(key, field); ok {
							okf, form := storedFormOK(want, st)
							if !okf {
								r.Violation("C13:e2e-stored-form:"+cmd, "what reached the backend is "+form, map[string]interface{}{"command": argStrings(orig), "stored": abbrevArg(st), "threshold": t})
							}
							r.Count("e2e_stored_"+form, 1)
						}
						r.Count("e2e_roundtrips", 1)
						r.Distinct(fmt.Sprintf("e2e/%s/t%d/%s", cmd, t, kind))
					}
				}
			}(c)
		}
		wg.Wait()
		r.Cases(nconn*per, fmt.Sprintf("e2e/concurrent/t%d", t))

		conn, err := svc.Dial()
		if err != nil {
			r.Internal("dial: %v", err)
			return
		}
		// banned commands: error and no arrival
		for _, c := range [][]string{{"APPEND", "k", "v"}, {"eval", "return 1", "1", "k"}, {"SETBIT", "k", "1", "1"}, {"getbit", "k", "1"}, {"SetRange", "k", "1", "v"}, {"GETRANGE", "k", "0", "1"}} {
			v, err := conn.DoS(30*time.Second, c...)
			if err != nil || v.Kind != resp.Error {
				r.Violation("C13:e2e-banned-not-rejected:"+strings.ToLower(c[0]), "a command documented as disabled under compression was not answered with an error", map[string]interface{}{"command": c, "reply": v.String()})
			}
			r.Case("e2e/banned/" + strings.ToLower(c[0]))
		}
		amu.Lock()
		if bannedArrivals > 0 {
			r.Violation("C13:e2e-banned-reached-backend", "a command disabled under compression reached a backend", map[string]interface{}{"arrivals": bannedArrivals})
		}
		amu.Unlock()

		// writes redirected once by MOVED and once by ASK
		for _, mode := range []string{"MOVED", "ASK"} {
			for rep := 0; rep < 6; rep++ {
				key := fmt.Sprintf("redir.%s.%d.%d", mode, t, rep)
				slot := fakecluster.Slot([]byte(key))
				cl.Lock()
				owner := cl.Nodes[0].OwnerLocked(slot)
				var other *fakecluster.Node
				for _, m := range cl.Masters() {
					if m != owner {
						other = m
					}
				}
				if mode == "MOVED" {
					cl.SetOwnerLocked(slot, other) // consistent instantaneous re-shard: the proxy's table is stale
				} else {
					owner.SetMigratingLocked(slot, other)
					other.SetImportingLocked(slot, owner)
				}
				cl.Unlock()
				amu.Lock()
				before := redirected
				amu.Unlock()
				l := int(t) + 200 + rnd.Intn(3000)
				if rep >= 3 {
					l = 70000 + rnd.Intn(60000)
				}
				v, kind := genCpsValue(rnd, l)
				if rep%2 == 0 { // highly repetitive values shrink again on a second pass
					for i := range v {
						v[i] = '0'
					}
					kind = "zeros"
				}
				want := append([]byte{}, v...)
				if _, err := conn.Do(30*time.Second, []byte("SET"), []byte(key), v); err != nil {
					r.Violation("C13:no-reply", "no reply to a redirected write", map[string]interface{}{"key": key})
					break
				}
				got, err := conn.DoS(30*time.Second, "GET", key)
				amu.Lock()
				wasRedirected := redirected > before
				amu.Unlock()
				if wasRedirected {
					r.Count("e2e_redirected_writes", 1)
				}
				if err != nil || got.Kind != resp.Bulk || !bytes.Equal(got.Str, want) {
					k := "C13:e2e-read-back-after-redirect:" + mode
					if wasRedirected {
						k = "C13:double-compression-on-resend"
					}
					r.Violation(k, "a value whose write was redirected by "+mode+" does not read back byte-identical",
						map[string]interface{}{"mode": mode, "len_written": len(want), "value_kind": kind, "read_back": got.String(), "threshold": t})
				} else if st, ok := stored(key, ""); ok {
					if okf, form := storedFormOK(want, st); !okf {
						r.Violation("C13:e2e-stored-form:redirected", "after a redirected write the backend holds "+form, map[string]interface{}{"mode": mode, "stored": abbrevArg(st)})
					}
				}
				r.Case(fmt.Sprintf("e2e/redirect/%s/t%d/%s", mode, t, kind))
				cl.Lock()
				owner.SetMigratingLocked(slot, nil)
				other.SetImportingLocked(slot, nil)
				cl.Unlock()
			}
		}

		// reads redirected once by MOVED and by ASK: the value was stored compressed by an ordinary write, then the slot moves
		for _, mode := range []string{"MOVED", "ASK"} {
			for rep := 0; rep < 4; rep++ {
				key := fmt.Sprintf("rread.%s.%d.%d", mode, t, rep)
				l := int(t) + 300 + rnd.Intn(2000)
				v, kind := genCpsValue(rnd, l)
				for i := range v {
					v[i] = byte('a' + i%5) // compressible: stored with the header
				}
				want := append([]byte{}, v...)
				if _, err := conn.Do(30*time.Second, []byte("SET"), []byte(key), v); err != nil {
					break
				}
				conn.Do(30*time.Second, []byte("HSET"), []byte("{"+key+"}.h"), []byte("f"), append([]byte{}, want...))
				slot := fakecluster.Slot([]byte(key))
				cl.Lock()
				owner := cl.Nodes[0].OwnerLocked(slot)
				var other *fakecluster.Node
				for _, m := range cl.Masters() {
					if m != owner {
						other = m
					}
				}
				if mode == "MOVED" {
					for _, k := range []string{key, "{" + key + "}.h"} {
						cl.MigrateKeyLocked(owner, other, k)
					}
					cl.SetOwnerLocked(slot, other)
				} else {
					owner.SetMigratingLocked(slot, other)
					other.SetImportingLocked(slot, owner)
					for _, k := range []string{key, "{" + key + "}.h"} {
						cl.MigrateKeyLocked(owner, other, k) // absent on the source now: ASK
					}
				}
				cl.Unlock()
				amu.Lock()
				before := redirected
				amu.Unlock()
				for _, rd := range [][]string{{"GET", key}, {"HGET", "{" + key + "}.h", "f"}, {"MGET", key}} {
					got, err := conn.DoS(30*time.Second, rd...)
					if rd[0] == "MGET" && err == nil && got.Kind == resp.Array && len(got.Arr) == 1 {
						got = got.Arr[0]
					}
					if err != nil || got.Kind != resp.Bulk || !bytes.Equal(got.Str, want) {
						r.Violation("C13:e2e-redirected-read:"+mode+":"+strings.ToLower(rd[0]), "a compressed value read through a "+mode+"-redirected "+rd[0]+" is not byte-identical to what was written",
							map[string]interface{}{"mode": mode, "read": rd[0], "len_written": len(want), "read_back": got.String(), "threshold": t, "value_kind": kind})
					}
				}
				amu.Lock()
				if redirected > before {
					r.Count("e2e_redirected_reads", 1)
				}
				amu.Unlock()
				r.Case(fmt.Sprintf("e2e/redirected-read/%s/t%d", mode, t))
				cl.Lock()
				owner.SetMigratingLocked(slot, nil)
				other.SetImportingLocked(slot, nil)
				if mode == "ASK" {
					cl.SetOwnerLocked(slot, other) // finish the migration
				}
				cl.Unlock()
			}
		}

		// large values: there is no size at which a compressed value stops reading back whole
		if t == thresholds[0] {
			sizes := []int{1<<20 + 7, 4<<20 - 1, 4 << 20, 4<<20 + 1, 6<<20 + 3}
			if r.Tier == "thorough" {
				sizes = append(sizes, 16<<20+5, 40<<20+1)
			}
			for si, l := range sizes {
				v := make([]byte, l)
				kind := "zeros"
				if si%2 == 1 {
					kind = "periodic"
					for i := range v {
						v[i] = byte('a' + i%7)
					}
				} else {
					for i := range v {
						v[i] = '0'
					}
				}
				copy(v, fmt.Sprintf("large.%d|", l))
				key := fmt.Sprintf("large.%d.%d", t, l)
				for _, wr := range []string{"SET", "HSET"} {
					var werr error
					var rd []string
					if wr == "SET" {
						_, werr = conn.Do(60*time.Second, []byte("SET"), []byte(key), append([]byte{}, v...))
						rd = []string{"GET", key}
					} else {
						_, werr = conn.Do(60*time.Second, []byte("HSET"), []byte(key+".h"), []byte("f"), append([]byte{}, v...))
						rd = []string{"HGET", key + ".h", "f"}
					}
					if werr != nil {
						r.Violation("C13:no-reply", "no reply to a write of a large value under compression", map[string]interface{}{"command": wr, "len": l, "error": werr.Error()})
						break
					}
					got, err := conn.DoS(60*time.Second, rd...)
					if err != nil || got.Kind != resp.Bulk || !bytes.Equal(got.Str, v) {
						gl := -1
						if got.Kind == resp.Bulk {
							gl = len(got.Str)
						}
						r.Violation("C13:e2e-read-back-large:"+strings.ToLower(rd[0]), "a large compressible value written through the proxy does not read back byte-identical",
							map[string]interface{}{"write": wr, "len_written": l, "len_read_back": gl, "read_back_starts": abbrevArg(got.Str), "value_kind": kind, "threshold": t, "error": fmt.Sprint(err)})
					}
					r.Count("e2e_large_roundtrips", 1)
					r.Case(fmt.Sprintf("e2e/large/%s/%d/%s", wr, l, kind))
				}
			}
		}

		// compression switched off, then on again: earlier values still read back
		key := fmt.Sprintf("toggle.%d", t)
		v, _ := genCpsValue(rnd, int(t)+500)
		for i := range v {
			v[i] = byte('a' + i%3)
		}
		conn.Do(30*time.Second, []byte("SET"), []byte(key), v)
		conn.Do(30*time.Second, []byte("HSET"), []byte(key+".h"), []byte("f"), v)
		for step, en := range []bool{false, true, false, true, false} {
			o := opts
			o.Compression = &predis.Compression{Enable: en, Algorithm: predis.Compression_SNAPPY, Threshold: t}
			if step == 4 {
				o.Compression = nil // the other way of switching it off: the section is removed from the configuration
			}
			if err := s.ConfigUpdate(svc.Name, redisConfigJSON(svc.Port, o)); err != nil {
				r.Internal("config update: %v", err)
				break
			}
			for _, rd := range [][]string{{"GET", key}, {"HGET", key + ".h", "f"}, {"GETSET", key, string(v)}} {
				got, err := conn.DoS(30*time.Second, rd...)
				if err != nil || got.Kind != resp.Bulk || !bytes.Equal(got.Str, v) {
					r.Violation(fmt.Sprintf("C13:e2e-read-back-after-toggle:%s:enable=%v", strings.ToLower(rd[0]), en), "after compression was switched, an earlier value no longer reads back byte-identical",
						map[string]interface{}{"enable_now": en, "compression_section_removed": step == 4, "read": rd[:2], "read_back": got.String(), "threshold": t})
				}
				r.Case(fmt.Sprintf("e2e/toggle/%v/%s", en, rd[0]))
			}
		}
		conn.Close()
		s.StopProc(svc.Name, 20*time.Second)
		cl.Close()
		if t == thresholds[0] {
			r.Sample(map[string]interface{}{"e2e_threshold": t, "connections": nconn, "writes_per_connection": per})
		}
	}
}
