#!/usr/bin/env python3
"""Regenerates the defects table of DESIGN.md section 9.4 (between the two marker comments) from known_findings.txt."""
import re
rows=[]
for l in open('/verif/known_findings.txt'):
    m=re.match(r'fixed: property=(C\d+) ([0-9a-f]{7}) key=(\S+(?: \S+)*?) ([a-zA-Z(].*)$', l.rstrip('\n'))
    if not m:
        if l.startswith('fixed:'): raise SystemExit('cannot parse: '+l[:120])
        continue
    prop,h,keys,txt=m.groups()
    ks=keys.split(',')
    key=ks[0]+(' (+%d)'%(len(ks)-1) if len(ks)>1 else '')
    txt=txt.replace('|','\\|')
    if len(txt)>330: txt=txt[:327]+'...'
    rows.append((prop,h,key.replace('|','\\|'),txt))
rows.sort()
out=['| prop | commit | witness key | what failed |','|------|--------|-------------|-------------|']
out+=['| %s | `%s` | `%s` | %s |'%r for r in rows]
p='/verif/DESIGN.md'
s=open(p).read()
b,e='<!-- defects-table-begin -->','<!-- defects-table-end -->'
i,j=s.index(b)+len(b),s.index(e)
open(p,'w').write(s[:i]+'\n'+'\n'.join(out)+'\n'+s[j:])
print(len(rows),'rows')
