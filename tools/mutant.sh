#!/bin/bash
# tools/mutant.sh <seeded/ID-x> <check id> [tier]  : apply a seeded change to /repo, run the check, undo.
d="$(cd "$1" && pwd)"; id="$2"; tier="${3:-quick}"
cd "$(dirname "$0")/.." || exit 3
if [ -n "$(git -C /repo status --porcelain --untracked-files=no)" ]; then echo "/repo not clean"; exit 3; fi
[ -f "evidence/$id.json" ] && cp "evidence/$id.json" "run/evidence-$id.keep"
trap 'git -C /repo checkout -- . ; git -C /repo clean -fdq -- . >/dev/null 2>&1; [ -f "run/evidence-$id.keep" ] && mv "run/evidence-$id.keep" "evidence/$id.json"; find replays -maxdepth 1 -name "$id-*" -type f -delete 2>/dev/null' EXIT
git -C /repo apply "$d/patch.diff" || exit 3
./check "$id" "$tier"; rc=$?
echo "mutant $(basename $d) check $id rc=$rc"
exit $rc
