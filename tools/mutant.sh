#!/bin/bash
# tools/mutant.sh <seeded/ID-x> <check id> [tier]  : apply a seeded change to /repo, run the check, undo.
d="$(cd "$1" && pwd)"; id="$2"; tier="${3:-quick}"
REPO="${VERIF_REPO:-/repo}"   # tools/snap_matrix.sh points this at a scratch worktree
cd "$(dirname "$0")/.." || exit 3
if [ -n "$(git -C "$REPO" status --porcelain --untracked-files=no)" ]; then echo "$REPO not clean"; exit 3; fi
[ -f "evidence/$id.json" ] && cp "evidence/$id.json" "run/evidence-$id.keep"
trap 'git -C "$REPO" checkout -- . ; git -C "$REPO" clean -fdq -- . >/dev/null 2>&1; [ -f "run/evidence-$id.keep" ] && mv "run/evidence-$id.keep" "evidence/$id.json"; find replays -maxdepth 1 -name "$id-*" -type f -delete 2>/dev/null' EXIT
git -C "$REPO" apply "$d/patch.diff" || exit 3
./check "$id" "$tier"; rc=$?
echo "mutant $(basename $d) check $id rc=$rc"
exit $rc
