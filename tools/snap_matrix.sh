#!/bin/bash
# tools/snap_matrix.sh <logfile> [seed dirs...] : runs tools/mutants_matrix.sh on a snapshot of /verif linked against a scratch
# worktree of /repo (HEAD), so that /repo and /verif stay usable meanwhile. Snapshot and worktree are removed at the end.
log="$1"; shift
snap=/var/tmp/verif-snap-$$; rsnap=/var/tmp/repo-snap-$$
git -C /repo worktree add -q --detach "$rsnap" HEAD || exit 3
mkdir -p "$snap" && rsync -a --exclude bin --exclude run --exclude .git --exclude replays /verif/ "$snap/"
sed -i "s|=> /repo\$|=> $rsnap|" "$snap/go.mod"
grep -q "$rsnap" "$snap/go.mod" || { echo "go.mod not rewritten"; exit 3; }
(cd "$snap" && VERIF_REPO="$rsnap" tools/mutants_matrix.sh "$@") > "$log" 2>&1
git -C /repo worktree remove --force "$rsnap"; rm -rf "$snap"
