#!/bin/bash
# tools/runall.sh [tier] [seed]: run every registered check on the current tree, one line per check.
cd "$(dirname "$0")/.." || exit 3
tier="${1:-quick}"; seed="${2:-1}"
for id in $(python3 -c "import json;print(' '.join(c['property_id'] for c in json.load(open('MANIFEST.json'))['checks']))"); do
  start=$(date +%s)
  out=$(VERIF_SEED=$seed ./check $id $tier 2>&1); rc=$?
  echo "$id rc=$rc $(( $(date +%s) - start ))s $(echo "$out" | grep -E '^SUMMARY' | sed 's/SUMMARY property=[^ ]* //')"
  echo "$out" | grep -E "^(VIOLATION|INTERNAL-ERROR|KNOWN-FINDING)" | cut -c1-220
done
