#!/usr/bin/env python3
"""Runs tools/verify_seed.sh for every seeded change against the current /repo HEAD and writes meta.json files."""
import os, re, subprocess, json, sys
PKG = {"C01":"proc/redis","C02":"proc/redis","C03":"proc/redis","C04":"proc/redis","C05":"proc/tcp","C06-a":"proc/internal/lb","C06-c":"proc/tcp","C06-d":"proc/tcp",
 "C07":"proc/redis","C08-a":"controller","C08-b":"config","C08-c":"config","C08-d":"config","C09-a":"proc","C09-b":"proc/redis","C09-c":"proc","C09-d":"proc/redis","C10":"proc/redis","C11":"proc/redis","C12":"proc/redis","C13":"proc/redis",
 "C14":"proc/redis","C15-a":"host","C15-b":"proc/internal/hc","C16":"config","C17":"cmd/samaritan/hotrestart","C18":"proc/redis","C19":"proc/redis/hotkey","C20-a":"proc","C20-b":"proc/redis","C20-c":"proc/redis","C20-d":"proc/tcp",
 "C15-c":"host","C15-d":"proc/internal/hc","C17-d":"proc","C19-d":"proc/redis",
 # third wave
 "C05-e":"proc/tcp","C05-f":"proc/tcp","C06-e":"proc/tcp","C06-f":"proc/tcp","C08-e":"controller","C08-f":"controller","C09-e":"proc/redis","C09-f":"proc",
 "C15-e":"host","C15-f":"host","C19-e":"proc/redis/hotkey","C19-f":"proc/redis/hotkey","C20-e":"proc/tcp","C20-f":"proc/redis",
 # fourth and fifth wave
 "C05-g":"proc/tcp","C05-h":"proc/tcp","C06-g":"proc/tcp","C06-h":"proc/internal/lb","C08-g":"controller","C08-h":"controller","C09-h":"proc/tcp",
 "C15-g":"host","C15-h":"proc/internal/hc","C19-g":"proc/redis/hotkey","C19-h":"proc/redis/hotkey","C19-i":"proc/redis/hotkey","C20-g":"proc/redis","C20-h":"proc/redis"}
root="/verif/seeded"
only=sys.argv[1:]
for d in sorted(os.listdir(root)):
    if d.startswith("_") or not os.path.isdir(os.path.join(root,d)): continue
    if only and d not in only: continue
    prop=d.split("-")[0]
    pkg=PKG.get(d) or PKG.get(prop)
    readme=open(os.path.join(root,d,"README.md"),errors="replace").read()
    m=re.search(r"(?im)^[#\-\* ]*(?:\*\*)?(?:what (?:is needed|triggers it|it needs)|trigger|needs)[^\n:]*:?\**\s*(.+(?:\n(?!\s*$|#).+){0,4})", readme)
    needs=" ".join(m.group(1).split())[:600] if m else "see README.md"
    r=subprocess.run(["/verif/tools/verify_seed.sh",os.path.join(root,d),prop,pkg,needs],capture_output=True,text=True)
    print(d, (r.stdout.strip().splitlines() or ["?"])[0][:200], flush=True)
