#!/bin/bash
# tools/verify_seed.sh <seeded/ID-x> <property> <package dir of the demo test> "<what it needs to manifest>"
# Confirms in a scratch worktree: suite passes with the change, demo fails with it, demo passes without it; writes meta.json.
d="$(cd "$1" && pwd)"; prop="$2"; pkg="$3"; needs="$4"
export GOFLAGS=-mod=mod GOPROXY=off GOSUMDB=off GOTOOLCHAIN=local
wt=/var/tmp/seedwt-$$
git -C /repo worktree add -q --detach "$wt" HEAD || exit 3
trap 'git -C /repo worktree remove --force "$wt"' EXIT
cd "$wt" || exit 3
demo=$(ls "$d"/zz_demo_*_test.go 2>/dev/null | head -1)
git apply "$d/patch.diff" || { echo "patch does not apply"; exit 3; }
go build ./... || { echo "does not build"; exit 3; }
suite=$(go test -vet=off -count=1 -timeout 25m ./... 2>&1 | grep -E "^(FAIL|---|panic)" | grep -v "test/integration/proc/redis" | grep -v "^FAIL$")
suite_ok=true; [ -n "$suite" ] && suite_ok=false
cp "$demo" "$pkg/"
go test -vet=off -count=1 -timeout 180s -run 'Demo|demo|ZZ|Zz' "./$pkg/" > /var/tmp/seed-with-$$.log 2>&1; with_rc=$?
rm -f "$pkg/$(basename $demo)"; git checkout -q -- . 
cp "$demo" "$pkg/"
go test -vet=off -count=1 -timeout 180s -run 'Demo|demo|ZZ|Zz' "./$pkg/" > /var/tmp/seed-without-$$.log 2>&1; without_rc=$?
ran_any=$(grep -c "^ok" /var/tmp/seed-without-$$.log)
rm -f "$pkg/$(basename $demo)"
python3 - "$d" "$prop" "$pkg" "$needs" "$suite_ok" "$with_rc" "$without_rc" "$suite" <<'PY'
import json,sys,os
d,prop,pkg,needs,suite_ok,with_rc,without_rc,suite=sys.argv[1:9]
meta={"breaks_property":prop,"needs_to_manifest":needs,"demo":[f for f in os.listdir(d) if f.startswith("zz_demo")],"demo_package_dir":pkg,
 "confirmed":{"suite_passes_with_change":suite_ok=="true","suite_failures":suite,"demo_fails_with_change":with_rc!="0","demo_passes_without_change":without_rc=="0",
  "commands":["git apply patch.diff; go test -vet=off -count=1 ./...","go test -run Demo ./%s/ (with change)"%pkg,"go test -run Demo ./%s/ (without change)"%pkg]}}
json.dump(meta,open(os.path.join(d,"meta.json"),"w"),indent=1)
print(os.path.basename(d),"suite_ok",suite_ok,"with_rc",with_rc,"without_rc",without_rc)
PY
tail -3 /var/tmp/seed-without-$$.log | head -2
rm -f /var/tmp/seed-with-$$.log /var/tmp/seed-without-$$.log
