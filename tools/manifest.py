#!/usr/bin/env python3
"""Generates MANIFEST.json from the table below (kept in one place so it stays valid)."""
import json, subprocess, sys

HOOK_COMMITS = subprocess.run(["git","-C","/repo","log","--format=%H %s"],capture_output=True,text=True).stdout.splitlines()
hook_commits = [l.split()[0] for l in HOOK_COMMITS if " verif hooks " in " "+l.split(" ",1)[1]+" " or l.split(" ",1)[1].startswith("verif hooks")]

CHECKS = {
 "C12": dict(level="exploration", technique="reference-model oracle (bitwise CRC16/XMODEM + spec tag rule) over exhaustively enumerated and PRNG keys, in a monitored child process",
   text="Every (CRC register state, next byte) transition of the proxy's table-driven CRC and every key of length <=3, every placement of braces over a 4-letter alphabet up to length 9, and PRNG binary keys are compared with an independent bitwise reference; exhaustive for the enumerated sub-spaces, sampling beyond them.",
   note="Trusted: the 12-line bitwise CRC and tag rule in cmd/vcheck/c12.go, anchored by published vectors; keys longer than 3 bytes are covered by the byte-wise fold argument plus random sampling only.",
   ref="DESIGN.md section 4 C12"),
 "C10": dict(level="exploration", technique="reference-model oracle (independent RESP codec + strconv) over PRNG and boundary values, streams under scripted chunkings x buffer sizes, late re-comparison for aliasing; -race/checkptr child",
   text="Round trip, canonical re-encode, chunk-independence over {whole,1-byte,every 2-way split,PRNG,CR|LF} x reader buffers {32..8192}, inline==array, btoi64/itoa vs strconv (exhaustive on small alphabets and [-300,33000]); values re-compared after the whole stream is decoded.",
   note="Trusted: internal/resp (harness codec) and strconv. Says nothing about values/chunkings not generated; evidence lists classes covered.",
   ref="DESIGN.md section 4 C10"),
 "C01": dict(level="exploration", technique="per-connection order/exactly-once oracle over echo-mode backend histories (unique request ids, sentinel per pipeline), plain and -race SUT child",
   text="Concurrent connections send fragmented pipelines (depth 1-300) of every request class to the real proxy in front of 3-6 simulated nodes that echo what they received, with PRNG reply delays and consistent re-shards; the k-th parsed reply must be the pure-function expected reply of the k-th request, sentinel proves no extra/missing reply. Evidence counts backend-completion inversions and redirects actually observed.",
   note="Trusted: simulated echo nodes, harness RESP codec. Race reports are deciding only inside proc/redis/request.go.",
   ref="DESIGN.md section 4 C01"),
 "C03": dict(level="exploration", technique="reference-model oracle (single-server refredis) over sequential PRNG programs; porcupine linearizability per key over concurrent histories; zero-redirect node-log monitor; -race child with scoped reports",
   text="Mode A: every reply of PRNG programs over the documented command table (1-16 connections, 1-8 masters, degenerate hash tags, binary keys/values, buffer-threshold lengths) equals the single-server reference byte for byte and the union of node stores equals the reference's final state; Mode B: concurrent hot-key histories are linearizable per key (porcupine, refredis as step function); node log must show zero MOVED/ASK once routing is loaded.",
   note="Trusted: internal/refredis (same engine as node store, so semantics cancel), internal/fakecluster slot rule (bitwise CRC16), porcupine. Unmodelled commands are echo on both sides (routing/relay only).",
   ref="DESIGN.md section 4 C03"),
 "C14": dict(level="exploration", technique="no-arrival / role-of-receiver monitors over simulated node logs joined by unique ids, against an independent Redis 5.0 command table; routing rule also judged during a continuous slot-refresh storm",
   text="Gate: every Redis 5.0 command name, the documented unsupported list, systematic near-misses of every supported name (suffix/prefix/truncation/Unicode-fold) and PRNG names in three letter cases x 0-5 args must be rejected without any backend arrival (or answered locally); routing: every forwarded command that can modify data must arrive at the master owning the reference slot under MASTER/REPLICA/BOTH, reads only at that master or its replicas as the strategy permits, also while the table is refreshed every 2 ms.",
   note="Trusted: cmd/vcheck/spec.go (Redis 5.0 flags, documented unsupported list). Commands that are valid keyed Redis commands but undocumented either way are judged by the routing rule only.",
   ref="DESIGN.md section 4 C14"),
 "C13": dict(level="exploration", technique="stored-form monitor with an independent snappy decoder + read-back equality, white box (filter chain passed once and twice, -race child) and end to end (node stores inspected, MOVED/ASK-redirected writes, enable/disable toggling, banned commands no-arrival)",
   text="For PRNG values around every threshold and every supported write command/argument position: what reaches the backend is the original or header+stream decoding (by golang/snappy called directly) to the original and shorter; keys/fields untouched; read-back through GET/MGET/GETSET/HGET/HMGET/HGETALL/HVALS is byte-identical, also after a second filter pass (resend), after real MOVED and ASK redirections, from 1-32 concurrent connections (pooled buffers) and after compression is switched off/on; banned commands are rejected with no backend arrival.",
   note="Trusted: github.com/golang/snappy decoder, documented 6-byte header, simulated nodes' stores. Values starting with the header are excluded as the statement says.",
   ref="DESIGN.md section 4 C13"),
 "C18": dict(level="exploration", technique="cursor codec round-trip oracle + iteration monitor over simulated nodes with scripted cursor sequences (termination bound, key coverage, per-node visit log, argument pass-through), child-death detection",
   text="parse(gen(i,c))==(i,c) and monotonicity for boundary and PRNG pairs (c < 2^48 incl. >= 2^47); full iterations from cursor 0 over 1-12 nodes with arbitrary scripted node cursors must terminate within sum(script lengths)+2 calls, return exactly the stored keys, visit each node's script once in address order with MATCH/COUNT/TYPE bytes unchanged; cursors past the last node give [0,[]], malformed cursors one error, proxy stays alive; a sixth of the iterations run on a race-instrumented proxy (reports scoped to request.go / codec.go / session.go / handler.go / resp.go).",
   note="Trusted: scripted SCAN handlers of the simulated nodes. Node indices >= 32768 are outside the workload (need 32768 seed hosts).",
   ref="DESIGN.md section 4 C18"),
 "C20": dict(level="exploration", technique="conservation equations over the public stats store at detected quiescence (nodes idle + two identical dumps), gauge range sampled during runs; fixed fault scenario list x PRNG parameters",
   text="After each scenario (normal/multi-key, invalid, MOVED/ASK redirected, backend reset, backend silent then closed, connection limit, client disconnect with requests in flight, stop with open idle connections, stop under pipelined partly redirected traffic; TCP: traffic, dial failures, host removal, limit, stop) the equations cx_active==0, cx_total==cx_destroy_total, rq_total==success+failure, per-command total==success+error hold for downstream and upstream, and no gauge wraps below zero at any sample.",
   note="Trusted: quiescence detector (simulated nodes report received==answered; two identical stat dumps >= 50 ms apart); a dump that never stabilises is inconclusive, not a violation.",
   ref="DESIGN.md section 4 C20"),
 "C19": dict(level="exploration", technique="step-relation oracle over prefix-replayed counter snapshots; per-key conservation under concurrent writers/latchers; four report assertions on the collector driven with a virtual clock (also ticking inside one collect) with concurrent readers; HOTKEY reply parsed end to end; -race children with scoped reports",
   text="Counter: for PRNG access/latch/free sequences on capacities {0,1,2,3,8,50,255} every consecutive pair of tracked-state snapshots obeys the LFU step relation (exact +1, admission, eviction of a lowest-count key, size bound); the same relation on EVERY access sequence up to renaming of keys over <= capacity+1/+2 keys up to length 10-12 (12-14 thorough) for capacities 1-5; concurrently each access lands in exactly one latch window. Collector and real HOTKEY reply: never more keys than capacity, no duplicate, non-increasing heat, only accessed keys - after every step and in every concurrent reader sample; reports handed out earlier read the same after every later step; the end-to-end traffic mixes GET with EVAL / SCAN in every letter case.",
   note="Trusted: prefix replay on a fresh counter observes the tracked state (Latch is destructive); the virtual minute clock hook. Race reports deciding only in proc/redis/hotkey/{counter,collector}.go.",
   ref="DESIGN.md section 4 C19"),
 "C15": dict(level="exploration", technique="step-wise model equation over the public host.Set API (object identity), join-point equation after concurrent histories (-race child, scope host/host.go), hysteresis automaton over a scripted checker driven round by round through the real monitor",
   text="After every step of PRNG sequences of Add/Remove(fresh and known objects)/ReplaceAll/Mark* on current, removed and stale objects: Healthy() is exactly the healthy members of the preferred tier, address-sorted, duplicate-free; Random() is in it; Exist/Len agree; removed members are marked removed and never reported; the last three lists handed out by Healthy() read the same after every later step. The same equation at the join of concurrent writers/markers/readers. Health flips only after >= threshold consecutive contrary results and by threshold+1, any opposite result restarting the count.",
   note="Assumes objects re-added after removal / marked before ever being members are outside the property. Trusted: the 60-line view oracle in cmd/vcheck/c15.go.",
   ref="DESIGN.md section 4 C15"),
 "C07": dict(level="fault_enumeration", technique="fault-script enumeration (connection loss kinds, restarts, down-at-start, layout changes) x PRNG timing against the real proxy and simulated nodes; legal-error-window oracle, accept-log and redirect-log monitors with a progress-relative deadline",
   text="For each fault kind a history warm-up -> fault -> requests during -> heal -> 20 grace requests is followed by a verification stream in which every request must succeed (re-tried 3x1 s before it counts), the node's accept log must show a new connection, and after a layout change no request sent after an observed CLUSTER NODES fetch may be redirected. Refresh-trigger scenarios (first redirection inside the rate-limit window, while a slow CLUSTER NODES reply is in flight, with open migration markers on every master): a fetch newer than the change must follow the first redirection without further traffic, then moved keys are no longer redirected.",
   note="Bounded-progress restatement of 'as soon as reachable' (H=20 requests + 200 ms, retries 3 x 1 s). SYN black-hole connect timeouts cannot be emulated on loopback and are not covered.",
   ref="DESIGN.md section 4 C07"),
 "C11": dict(level="exploration", technique="hostile-input campaign against a monitored proxy child: exit status, canary liveness on another connection, peak-RSS bound per case; backend-side hostile replies per request class from simulated nodes; recover() around the exported parser wrapper in a child",
   text="~770 (quick) downstream and backend-side hostile inputs by class (length fields, every known command with 0-7 arguments, type bytes, truncation at every offset, PRNG mutations, nesting bombs to 6e6 levels, nested maximum-length arrays, malformed MOVED/ASK/CLUSTERDOWN, CLUSTER NODES bodies, SCAN replies, for each of READONLY / CLUSTER NODES / ASKING / SCAN / plain): the proxy must stay alive, keep answering a canary through a healthy node, and stay within a peak-RSS bound derived from input size and declared limits; complete invalid requests must get an error or a close.",
   note="Trusted: input grammar/class list in cmd/vcheck/c11.go; RSS bound formula (64 MiB + 64 x input + declared bulk + 64 B x declared array length). Each input is written to run/C11/case-current.bin before it is sent; reach counters require every request class to have been served hostile bytes.",
   ref="DESIGN.md section 4 C11"),
 "C02": dict(level="fault_enumeration", technique="forced-ordering fault scripts through verif pause points (hook rendezvous: hold the request, inject the fault, release) x fault kind x request class; full-queue script; PRNG fault stress with probabilistic delays; progress-relative deadline + stuck detector (two goroutine dumps) + child exit status",
   text="{5 pause points} x {backend reset, close, host removed, hosts replaced, client closes} x {simple, MGET child, ASK-redirected}: the held request must still be answered after release (lost = unanswered after 3 s while fresh canaries through the same backends succeed and two goroutine dumps show a session writer in rawRequest.Wait); > 1024 outstanding requests against a node that stopped reading and then dies are all answered; a forwarded request followed by one the compression filter answers is flushed, also when the backend resets with the filtered request in the writer's hand; random fault stress on plain and -race builds must leave no connection with an unanswered request and must not kill the process (double completion = close of closed channel).",
   note="Trusted: pause-point placement (between critical sections only), the canary/stuck-detector verdict. Orderings not in the script list are only sampled by the stress engine.",
   ref="DESIGN.md section 4 C02"),
 "C17": dict(level="exploration", technique="frame oracle over a unix stream pair (round trip; declared-vs-actual length table; panic capture) and request/acknowledgement/call-log sequence oracle against the real restarter with a recording Instance, dropped-child recovery, hostile-then-valid frames; monitored child",
   text="Every type x payload length round-trips exactly; truncated frames are rejected, frames with trailing bytes are never read as another message, nothing panics; for all request sequences up to length 3 (4 thorough) over known and unknown types the reply type matches, every step (taking 2 ms) is in the performed-steps log when its acknowledgement arrives, and the Instance call log equals the requested steps once and in order (terminate: reply, then SIGTERM); a child dropped at 7 points never prevents a later full hand-over; malformed frames never trigger a step nor alter later valid frames; two real processes built from cmd/samaritan hand over the admin and service listeners (checked from /proc socket ownership) while an established connection keeps working, and the old process exits 0.",
   note="Trusted: lock-step driver (the protocol is a synchronous RPC on a stream socket); SIGTERM replaced by a recorded call in the in-process part; the smoke test uses the real binary and real signals.",
   ref="DESIGN.md section 4 C17"),
 "C16": dict(level="exploration", technique="server-side set fold vs dependency fold at quiescence over the real subscription client with a scripted stream factory (failures, slow sends); progress-relative deadline + stack-dump stuck detector for calls; retry observation; plain and -race children (scope config/discovery.go)",
   text="PRNG Subscribe/Unsubscribe histories (more changes than the queue holds while no stream can be established, Sub/Unsub/Sub bursts, slow server batching, scripted factory/send/recv failures): every call returns (else two stack dumps decide deadlock), a stream is re-created after every failure (also one that happens while the client is idle: a new stream must be requested within 6 retry intervals), and once the last call returned the set subscribed on the live stream (subscribe lists minus unsubscribe lists of that stream) equals the dependency set within the deadline.",
   note="Assumes the server applies a message's subscribe list before its unsubscribe list. The real-gRPC path (config.New with a dynamic source) is not built; the client under test is the real svcDiscoveryClient through the verif constructor.",
   ref="DESIGN.md section 4 C16"),
 "C08": dict(level="exploration", technique="final-state comparison of running (recording) processors against the configuration store's own view at sentinel-marked quiescence, over PRNG update histories through the real store and controller; plain and -race children (scope config/config.go, controller/controller.go)",
   text="After PRNG histories of dependency / config / endpoint updates (address in both lists, removal-only updates, duplicates, invalid configs later corrected, unknown and removed services, static services) and once a trailing sentinel service runs: exactly one started-and-not-stopped processor per service with a valid config and an endpoint list in the store, none otherwise, its config Equal to the store's and its host set (address, type) equal to the store's endpoints.",
   note="The store's MarshalJSON view is taken as the configured state; services whose latest config is invalid are judged only on not disturbing others. Recording processors are registered under protocol.MySQL through the public registry.",
   ref="DESIGN.md section 4 C08"),
 "C05": dict(level="exploration", technique="byte-stream equality + EOF-ordering oracle at both ends of real relayed connections (each receiver recomputes the sender's PRNG stream incrementally), over lengths around the 16 KiB pool buffer, chunkings, pacing, back-pressure and close orders; plain and -race SUT (scope proc/tcp/proc.go)",
   text="For hundreds (thousands in thorough) of connections, 1-128 at a time, each direction's receiver must get exactly the sender's stream (first differing offset reported), see end-of-stream only after the last byte, and the opposite direction must keep flowing after a half-close; on an abrupt close by one side the other must see a prefix then EOF/reset, never foreign bytes (cross-talk through pooled buffers shows as a mismatch). A separate phase uses connect_timeout 300 ms / idle_timeout 30 s and lets one sender pause for 1 s before or in the middle of its stream.",
   note="Trusted: the streaming PRNG generator (cut-independent), the 8-byte connection id relayed first. Idle timeouts are left at their default (10 min) except in the pausing-peers phase.",
   ref="DESIGN.md section 4 C05"),
 "C06": dict(level="exploration", technique="exact-count oracle for concurrent round-robin selections and recorded-sample oracle for random / least-connection through the verif re-exports (plain and -race children); end-to-end membership / usable-set oracle in settled windows with backend-scripted health probes, removal-closes-connections monitor",
   text="Round robin: n*k selections per goroutine from 1/4/32 goroutines over 1-17 unchanged hosts give every host exactly its share from any start index; random/least-connection always pick a candidate, least-connection never the strictly busier of its two recorded samples, empty list gives nil. End to end under all three policies: in windows where every member backend has served >= 5 probes since the last scripted change, every connection lands on a healthy member of the preferred tier (backups only when no main is healthy), is closed when no host is usable, round robin is exact over the usable hosts, and connections held to a host are closed within 4 s of its removal.",
   note="Settled-window semantics only; bursts racing a change are not judged. Trusted: backends identify themselves and serve the atcp probes themselves.",
   ref="DESIGN.md section 4 C06"),
 "C09": dict(level="fault_enumeration", technique="lifecycle placement enumeration (hook rendezvous at bind / publish / accept, occupied port, connections and requests in flight) x backend behaviour x protocol x action; progress-relative deadline + two-dump stuck detector on Stop / StopListen; post-stop release monitors (port, downstream and upstream connections, goroutine profile); connection-limit monitor",
   text="Stop and Drain are called immediately after Start, during bind retries, between bind and socket publication, before the accept loop, with a backend dial in flight, with the backend writer holding a written request whose reply arrives, with one multi-key request overflowing a backend client's queues, and while serving 0/1/50 connections with requests in flight, against responsive / silent / not-reading / closed backends (and a silent slot refresh) for redis and tcp: the call must return within 6 s (a hang needs two identical goroutine dumps), then nobody serves the port, every downstream and upstream connection is closed within 3 s and no goroutine with a frame in samaritan/proc or samaritan/host remains; after Drain established connections (also one accepted but not yet registered when Drain ran) still work; with limit L in {1,3,16} at most L connections are ever served at once - for sequential arrivals and for 40 (400) bursts of 24-63 connections held before registration and released at the same instant (vhook spin) - and a freed slot is reusable.",
   note="Trusted: pause-point placement; the goroutine-profile filter (tcp-shaker singleton excluded); 'served' is observed at the backend's accept/close log.",
   ref="DESIGN.md section 4 C09"),
 "C04": dict(level="exploration", technique="reference-model equality (sequential) and porcupine linearizability per key (concurrent) with excusal windows, no-leak monitor on every reply, executed-once count of unique write ids in the simulated node log, final key-placement check; scripted step-by-step slot migrations and failovers; plain and -race SUT",
   text="While slots are walked through IMPORTING / MIGRATING / per-key MIGRATE / SETSLOT on target, source, everyone with client commands between every step, and while masters are killed and replicas promoted: no reply contains a MOVED/ASK error, every non-excused reply equals the single-server reference (Mode A) or the concurrent history is linearizable per key (Mode B, incl. yields injected between ASKING and the redirected command), every unique write is executed at most once on the nodes, and at the end every key lives exactly once, on the owner of its slot, with the reference's value.",
   note="Trusted: the simulator's redirect rules (cluster specification) and migration order; excusal windows (dead master, or the slot's earlier owner in the same program, until a CLUSTER NODES fetch after the promotion + 30 commands).",
   ref="DESIGN.md section 4 C04"),
}
NOT_BUILT = "check not built yet in this session (design in DESIGN.md section 4)"

props=[json.loads(l)["id"] for l in open("/verif/properties.jsonl")]
m = {
 "version": 1,
 "setup_cmd": "./check --build",
 "hooks": {
   "guard": "verif",
   "enable": "go build -tags verif (the harness module /verif/go.mod replaces github.com/samaritan-proxy/samaritan with /repo)",
   "baseline_off_cmd": "cd /repo && GOFLAGS=-mod=mod GOPROXY=off GOSUMDB=off go test -vet=off -count=1 -timeout 25m ./...",
   "source_commits": list(reversed(hook_commits)),
   "add_only": True,
 },
 "engines": [
   {"name":"vcheck","path":"cmd/vcheck","serves_properties":sorted(CHECKS),"kind_free_text":"Go driver: workloads, simulated backends, monitors/oracles, evidence writer; re-executes itself as a monitored child hosting the code under test"},
 ],
 "checks": [],
 "notes": "All checks are runtime monitors over executions of the real code (build tag verif). Exit 3 + INTERNAL-ERROR line = the check itself could not reach a verdict (never a VIOLATION).",
 "not_applicable": [],
}
for pid in props:
    if pid in CHECKS:
        c=CHECKS[pid]
        m["checks"].append({
          "property_id": pid,
          "quick_cmd": "./check %s quick"%pid,
          "thorough_cmd": "./check %s thorough"%pid,
          "evidence_file": "evidence/%s.json"%pid,
          "replay_cmd_template": "cat {path}",
          "engine": "vcheck",
          "level_claimed": {"category": c["level"], "text": c["text"], "design_ref": c["ref"]},
          "level_note": c["note"],
          "technique": c["technique"],
        })
    else:
        m["not_applicable"].append({"property_id": pid, "reason": NOT_BUILT})
json.dump(m, open("/verif/MANIFEST.json","w"), indent=1)
print("checks:", len(m["checks"]), "not_applicable:", len(m["not_applicable"]), "hook commits:", len(hook_commits))
