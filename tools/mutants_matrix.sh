#!/bin/bash
# tools/mutants_matrix.sh [seed dirs...] : runs every seeded change against the check of its property (quick tier) and
# prints one line per change: rc and the distinct witness keys. Serial: each run patches /repo and restores it.
cd "$(dirname "$0")/.." || exit 3
list=("$@"); [ ${#list[@]} -eq 0 ] && list=($(ls seeded | grep -v '^_'))
for m in "${list[@]}"; do
  id=${m%%-*}
  out=$(timeout 1500 tools/mutant.sh seeded/$m ${CHECK:-$id} quick 2>&1)
  rc=$(echo "$out" | grep -o "rc=[0-9]*" | tail -1)
  keys=$(echo "$out" | grep "^VIOLATION" | grep -o "key=[^ ]*" | sort | uniq -c | sort -rn | head -4 | awk '{printf "%s(x%s) ", $2, $1}')
  echo "$m check=${CHECK:-$id} $rc $keys"
done
