// Package rclient is a raw RESP client used by the drivers: fragmented writes,
// pipelining, deadlines. It records nothing itself; checks stamp their own events.
package rclient

import (
	"errors"
	"net"
	"runtime"
	"time"

	"verif/internal/resp"
)

// Conn is a client connection to the proxy.
type Conn struct {
	C  net.Conn
	Rd *resp.Reader
}

// Dial connects to addr.
func Dial(addr string) (*Conn, error) {
	c, err := net.DialTimeout("tcp", addr, 5*time.Second)
	if err != nil {
		return nil, err
	}
	return &Conn{C: c, Rd: resp.NewReader(c)}, nil
}

// WriteFrags writes b in the given fragment sizes (the rest in one piece), yielding between fragments.
func (c *Conn) WriteFrags(b []byte, frags []int, yields int) error {
	if c == nil {
		return errNoConn
	}
	for _, n := range frags {
		if len(b) == 0 {
			break
		}
		if n <= 0 {
			n = 1
		}
		if n > len(b) {
			n = len(b)
		}
		if _, err := c.C.Write(b[:n]); err != nil {
			return err
		}
		b = b[n:]
		for i := 0; i < yields; i++ {
			runtime.Gosched()
		}
	}
	if len(b) > 0 {
		_, err := c.C.Write(b)
		return err
	}
	return nil
}

// Read reads one reply with a deadline.
func (c *Conn) Read(timeout time.Duration) (resp.Value, error) {
	if c == nil {
		return resp.Value{}, errNoConn
	}
	c.C.SetReadDeadline(time.Now().Add(timeout))
	return c.Rd.Read()
}

// Do sends one command and reads its reply.
func (c *Conn) Do(timeout time.Duration, args ...[]byte) (resp.Value, error) {
	if c == nil {
		return resp.Value{}, errNoConn
	}
	if _, err := c.C.Write(resp.Cmd(args...)); err != nil {
		return resp.Value{}, err
	}
	return c.Read(timeout)
}

// DoS is Do with string arguments.
func (c *Conn) DoS(timeout time.Duration, args ...string) (resp.Value, error) {
	bs := make([][]byte, len(args))
	for i, a := range args {
		bs[i] = []byte(a)
	}
	return c.Do(timeout, bs...)
}

// Close closes the connection.
func (c *Conn) Close() {
	if c != nil {
		c.C.Close()
	}
}

var errNoConn = errors.New("no connection (dial failed)")

// IsTimeout reports whether err is a deadline error.
func IsTimeout(err error) bool {
	ne, ok := err.(net.Error)
	return ok && ne.Timeout()
}
