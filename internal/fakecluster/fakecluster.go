// Package fakecluster simulates Redis Cluster nodes: slot ownership views,
// MOVED / ASK / ASKING, migration, failover, replicas, CLUSTER NODES, faults
// and an event log. Commands execute atomically under one cluster-wide mutex,
// so the simulator is linearizable by construction.
package fakecluster

import (
	"bufio"
	"bytes"
	"fmt"
	"net"
	"sort"
	"strconv"
	"strings"
	"sync"
	"sync/atomic"
	"time"

	"verif/internal/lclock"
	"verif/internal/refredis"
	"verif/internal/resp"
)

const NumSlots = 16384

// CRC16 is CRC16/XMODEM, bitwise (independent of the proxy's table).
func CRC16(b []byte) uint16 {
	var crc uint16
	for _, c := range b {
		crc ^= uint16(c) << 8
		for i := 0; i < 8; i++ {
			if crc&0x8000 != 0 {
				crc = crc<<1 ^ 0x1021
			} else {
				crc <<= 1
			}
		}
	}
	return crc
}

// HashTag applies the specification's hash tag rule.
func HashTag(key []byte) []byte {
	s := bytes.IndexByte(key, '{')
	if s < 0 {
		return key
	}
	e := bytes.IndexByte(key[s+1:], '}')
	if e <= 0 {
		return key
	}
	return key[s+1 : s+1+e]
}

// Slot returns the slot of key per the specification.
func Slot(key []byte) int { return int(CRC16(HashTag(key)) % NumSlots) }

// Outcome of an arrival.
const (
	Executed = "executed"
	Moved    = "MOVED"
	Ask      = "ASK"
	ErrReply = "error"
	Local    = "local" // ASKING, READONLY, CLUSTER, PING ...
	Dropped  = "dropped"
	Scripted = "scripted"
)

// Event is one arrival of a command at a node.
type Event struct {
	Seq      int64
	Node     int
	Replica  bool
	Conn     int64
	Asking   bool
	ReadOnly bool
	Cmd      string
	Args     [][]byte
	Outcome  string
}

// Reply tells the connection loop what to do with a request.
type Reply struct {
	Raw     []byte // bytes to write (may be empty)
	NoReply bool   // never answer this request (stay silent)
	Close   bool   // close the connection after writing Raw
	Reset   bool   // abort the connection (RST) after writing Raw
}

// Conn is one accepted connection of a node.
type Conn struct {
	ID       int64
	Node     *Node
	c        net.Conn
	asking   bool
	readonly bool
	closed   int32
	mute     bool // only touched by the connection's own goroutine
}

// Node is one simulated Redis instance.
type Node struct {
	Idx    int
	ID     string
	Addr   string
	cl     *Cluster
	master *Node // nil for a master
	db     *refredis.DB
	view   []*Node // this node's view of slot owners
	migr   map[int]*Node
	imp    map[int]*Node
	failed bool // shown with the fail flag in CLUSTER NODES of others

	lnMu  sync.Mutex
	ln    net.Listener
	conns map[*Conn]struct{}
	down  bool

	Accepts int64 // number of accepted connections (atomic)

	// Knobs (set by the driver under Cluster.Lock or before traffic).
	// Handler, when set, is consulted first; return handled=false to fall through to the default semantics.
	Handler func(c *Conn, args [][]byte) (Reply, bool)
	// Before, when set, runs after a request has been read and before it is dispatched, with no lock held; it may block.
	Before func(args [][]byte)
	// Delay returns the delay applied before the reply of a request is written.
	Delay func(args [][]byte) time.Duration
	// Silent makes the node read requests but never answer.
	Silent int32
	// StopReading makes connection loops stop reading (atomic flag).
	StopReading int32
}

// Cluster is a set of nodes.
type Cluster struct {
	mu    sync.Mutex
	Nodes []*Node

	logMu   sync.Mutex
	log     []Event
	LogArgs bool // keep full argument vectors in the log (default true)
	// OnEvent is called (under the cluster mutex) for every arrival.
	OnEvent func(ev *Event)
	connSeq int64

	received, answered int64 // requests read / replies handed to the connection writer
}

// Received returns the number of requests read by all nodes.
func (cl *Cluster) Received() int64 { return atomic.LoadInt64(&cl.received) }

// Answered returns the number of replies written by all nodes.
func (cl *Cluster) Answered() int64 { return atomic.LoadInt64(&cl.answered) }

// New creates a cluster with nMasters masters and replicasPer replicas each; slots unassigned.
func New(nMasters, replicasPer int) (*Cluster, error) {
	cl := &Cluster{LogArgs: true}
	mk := func(master *Node) (*Node, error) {
		n := &Node{Idx: len(cl.Nodes), cl: cl, master: master, migr: map[int]*Node{}, imp: map[int]*Node{}, conns: map[*Conn]struct{}{}}
		n.ID = fmt.Sprintf("%040x", 0xabc000+n.Idx)
		n.view = make([]*Node, NumSlots)
		if master == nil {
			n.db = refredis.New()
		}
		ln, err := net.Listen("tcp", "127.0.0.1:0")
		if err != nil {
			return nil, err
		}
		n.Addr = ln.Addr().String()
		n.ln = ln
		cl.Nodes = append(cl.Nodes, n)
		go n.acceptLoop(ln)
		return n, nil
	}
	var masters []*Node
	for i := 0; i < nMasters; i++ {
		m, err := mk(nil)
		if err != nil {
			cl.Close()
			return nil, err
		}
		masters = append(masters, m)
	}
	for _, m := range masters {
		for j := 0; j < replicasPer; j++ {
			if _, err := mk(m); err != nil {
				cl.Close()
				return nil, err
			}
		}
	}
	return cl, nil
}

// Lock / Unlock give the driver atomic access to the cluster state.
func (cl *Cluster) Lock()   { cl.mu.Lock() }
func (cl *Cluster) Unlock() { cl.mu.Unlock() }

// Masters returns the current masters.
func (cl *Cluster) Masters() []*Node {
	var out []*Node
	for _, n := range cl.Nodes {
		if n.master == nil {
			out = append(out, n)
		}
	}
	return out
}

// Replicas returns the replicas of m.
func (cl *Cluster) Replicas(m *Node) []*Node {
	var out []*Node
	for _, n := range cl.Nodes {
		if n.master == m {
			out = append(out, n)
		}
	}
	return out
}

// IsMaster reports the node's current role.
func (n *Node) IsMaster() bool { return n.master == nil }

// Master returns the node's master (nil for a master).
func (n *Node) Master() *Node { return n.master }

// DB returns the data of the shard the node belongs to.
func (n *Node) DB() *refredis.DB {
	if n.master != nil {
		return n.master.db
	}
	return n.db
}

// AssignAll sets the owner of every slot, in every node's view (caller need not hold the lock).
func (cl *Cluster) AssignAll(owner func(slot int) *Node) {
	cl.mu.Lock()
	defer cl.mu.Unlock()
	for s := 0; s < NumSlots; s++ {
		o := owner(s)
		for _, n := range cl.Nodes {
			n.view[s] = o
		}
	}
}

// AssignContiguous splits the slot space evenly over the masters.
func (cl *Cluster) AssignContiguous() {
	ms := cl.Masters()
	cl.AssignAll(func(s int) *Node { return ms[s*len(ms)/NumSlots] })
}

// SetOwner changes the owner of slot in the views of the given nodes (all nodes if views is nil). Lock must be held.
func (cl *Cluster) SetOwnerLocked(slot int, owner *Node, views ...*Node) {
	if len(views) == 0 {
		views = cl.Nodes
	}
	for _, n := range views {
		n.view[slot] = owner
	}
}

// Owner returns the owner of slot in node n's view. Lock must be held.
func (n *Node) OwnerLocked(slot int) *Node { return n.view[slot] }

// SetMigratingLocked marks slot as migrating from n to target (nil clears).
func (n *Node) SetMigratingLocked(slot int, target *Node) {
	if target == nil {
		delete(n.migr, slot)
	} else {
		n.migr[slot] = target
	}
}

// SetImportingLocked marks slot as importing into n from source (nil clears).
func (n *Node) SetImportingLocked(slot int, source *Node) {
	if source == nil {
		delete(n.imp, slot)
	} else {
		n.imp[slot] = source
	}
}

// MigrateKeyLocked moves one key from src's shard to dst's shard atomically.
func (cl *Cluster) MigrateKeyLocked(src, dst *Node, key string) bool {
	e := src.DB().Take(key)
	if e == nil {
		return false
	}
	dst.DB().Put(key, e)
	return true
}

// PromoteLocked turns replica r into the master of its shard: it takes the data and the old master's slots in every view.
func (cl *Cluster) PromoteLocked(r *Node) {
	old := r.master
	if old == nil {
		return
	}
	r.db = old.db
	r.master = nil
	old.failed = true
	for _, n := range cl.Nodes {
		if n.master == old {
			n.master = r
		}
		for s := 0; s < NumSlots; s++ {
			if n.view[s] == old {
				n.view[s] = r
			}
		}
	}
	old.master = r // the old master, if it comes back, is a replica of r
	old.db = nil
}

// ReattachLocked makes replica r a replica of master m (replica migration). Its data is the new master's from now on.
func (cl *Cluster) ReattachLocked(r, m *Node) {
	if r.master == nil || m.master != nil {
		return
	}
	r.master = m
}

// Events returns a copy of the event log.
func (cl *Cluster) Events() []Event {
	cl.logMu.Lock()
	defer cl.logMu.Unlock()
	return append([]Event{}, cl.log...)
}

// EventsSince returns the events with index >= from and the new length.
func (cl *Cluster) EventsSince(from int) ([]Event, int) {
	cl.logMu.Lock()
	defer cl.logMu.Unlock()
	if from > len(cl.log) {
		from = len(cl.log)
	}
	return append([]Event{}, cl.log[from:]...), len(cl.log)
}

// ResetLog drops the event log.
func (cl *Cluster) ResetLog() {
	cl.logMu.Lock()
	cl.log = nil
	cl.logMu.Unlock()
}

func (cl *Cluster) record(ev Event) {
	if !cl.LogArgs {
		ev.Args = nil
	}
	cl.logMu.Lock()
	cl.log = append(cl.log, ev)
	cl.logMu.Unlock()
}

// Close stops all nodes.
func (cl *Cluster) Close() {
	for _, n := range cl.Nodes {
		n.Stop(true)
	}
}

// Addrs returns the addresses of all nodes.
func (cl *Cluster) Addrs() []string {
	out := make([]string, len(cl.Nodes))
	for i, n := range cl.Nodes {
		out[i] = n.Addr
	}
	return out
}

// NodeByAddr finds a node by address.
func (cl *Cluster) NodeByAddr(addr string) *Node {
	for _, n := range cl.Nodes {
		if n.Addr == addr {
			return n
		}
	}
	return nil
}

// ---- listener / connections

func (n *Node) acceptLoop(ln net.Listener) {
	for {
		c, err := ln.Accept()
		if err != nil {
			return
		}
		atomic.AddInt64(&n.Accepts, 1)
		conn := &Conn{ID: atomic.AddInt64(&n.cl.connSeq, 1), Node: n, c: c}
		n.lnMu.Lock()
		if n.down {
			n.lnMu.Unlock()
			c.Close()
			continue
		}
		n.conns[conn] = struct{}{}
		n.lnMu.Unlock()
		go n.serve(conn)
	}
}

// Stop closes the listener and all connections (reset=true aborts them with RST).
func (n *Node) Stop(reset bool) {
	n.lnMu.Lock()
	n.down = true
	if n.ln != nil {
		n.ln.Close()
		n.ln = nil
	}
	conns := make([]*Conn, 0, len(n.conns))
	for c := range n.conns {
		conns = append(conns, c)
	}
	n.lnMu.Unlock()
	for _, c := range conns {
		c.Kill(reset)
	}
}

// Restart re-opens the listener on the same address.
func (n *Node) Restart() error {
	n.lnMu.Lock()
	defer n.lnMu.Unlock()
	if n.ln != nil {
		return nil
	}
	var ln net.Listener
	var err error
	for i := 0; i < 50; i++ {
		ln, err = net.Listen("tcp", n.Addr)
		if err == nil {
			break
		}
		time.Sleep(20 * time.Millisecond)
	}
	if err != nil {
		return err
	}
	n.ln = ln
	n.down = false
	go n.acceptLoop(ln)
	return nil
}

// KillConns closes all current connections of the node but keeps listening.
func (n *Node) KillConns(reset bool) int {
	n.lnMu.Lock()
	conns := make([]*Conn, 0, len(n.conns))
	for c := range n.conns {
		conns = append(conns, c)
	}
	n.lnMu.Unlock()
	for _, c := range conns {
		c.Kill(reset)
	}
	return len(conns)
}

// NumConns returns the number of open connections.
func (n *Node) NumConns() int {
	n.lnMu.Lock()
	defer n.lnMu.Unlock()
	return len(n.conns)
}

// Kill closes the connection (reset=true: SO_LINGER 0, the peer sees RST).
func (c *Conn) Kill(reset bool) {
	if !atomic.CompareAndSwapInt32(&c.closed, 0, 1) {
		return
	}
	if reset {
		if tc, ok := c.c.(*net.TCPConn); ok {
			tc.SetLinger(0)
		}
	}
	c.c.Close()
}

// Asking reports the one-shot ASKING flag (valid inside Handler).
func (c *Conn) Asking() bool { return c.asking }

// ReadOnly reports whether READONLY was issued on the connection.
func (c *Conn) ReadOnly() bool { return c.readonly }

func (n *Node) serve(c *Conn) {
	defer func() {
		c.Kill(false)
		n.lnMu.Lock()
		delete(n.conns, c)
		n.lnMu.Unlock()
	}()
	rd := resp.NewReader(c.c)
	bw := bufio.NewWriterSize(c.c, 32*1024)
	for {
		for atomic.LoadInt32(&n.StopReading) != 0 {
			if atomic.LoadInt32(&c.closed) != 0 {
				return
			}
			time.Sleep(time.Millisecond)
		}
		v, err := rd.Read()
		if err != nil {
			return
		}
		atomic.AddInt64(&n.cl.received, 1)
		args, okArgs := resp.Args(v)
		var rep Reply
		if !okArgs {
			// like Redis: a request that is not an array of (non-null) bulk strings is a protocol error, answered and followed
			// by the close of the connection
			rep = Reply{Raw: resp.Encode(resp.E("ERR Protocol error: invalid bulk length")), Close: true}
		} else {
			if n.Before != nil {
				n.Before(args) // may block (no lock is held): the request is taken but not yet looked at
			}
			rep = n.dispatch(c, args)
		}
		slept := false
		if n.Delay != nil {
			if d := n.Delay(args); d > 0 {
				bw.Flush() // earlier replies are on the wire before this one is delayed
				time.Sleep(d)
				slept = true
			}
		}
		if rep.NoReply || atomic.LoadInt32(&n.Silent) != 0 || c.mute {
			// a connection that swallowed one request never answers a later one either (replies would be paired with
			// the wrong requests): it behaves like a hung server until somebody closes it
			c.mute = true
			continue
		}
		if len(rep.Raw) > 0 {
			if _, err := bw.Write(rep.Raw); err != nil {
				return
			}
		}
		if rep.Close || rep.Reset {
			bw.Flush()
			c.Kill(rep.Reset)
			return
		}
		atomic.AddInt64(&n.cl.answered, 1)
		// replies are flushed unless a complete further request is already buffered (flushing only when the input buffer is empty
		// would hold replies back while waiting for the rest of a partial request - and the proxy may be waiting for exactly
		// those replies before it can send the rest)
		if slept || !rd.CompleteBuffered() {
			if err := bw.Flush(); err != nil {
				return
			}
		}
	}
}

// keyless commands answered by the node itself.
var localCmds = map[string]bool{"asking": true, "readonly": true, "readwrite": true, "cluster": true, "ping": true, "scan": true, "info": true, "time": true, "select": true, "auth": true, "quit": true}

// ReadOnlyCmds are commands a replica may serve after READONLY.
var ReadOnlyCmds = map[string]bool{}

func init() {
	for _, c := range strings.Fields(`get strlen exists type ttl pttl dump getrange getbit bitcount bitpos
		hget hmget hgetall hexists hlen hkeys hvals hstrlen hscan lrange llen lindex
		smembers scard sismember srandmember sscan sdiff sinter sunion
		zrange zscore zcard zrank zrevrank zcount zlexcount zrangebyscore zrangebylex zrevrange zrevrangebyscore zrevrangebylex zscan
		pfcount geodist geohash geopos georadius_ro georadiusbymember_ro`) {
		ReadOnlyCmds[c] = true
	}
}

// KeyOf returns the key argument of a forwarded command.
func KeyOf(cmd string, args [][]byte) ([]byte, bool) { return keyOf(cmd, args) }

// IsLocal reports whether the node answers the command itself (no key).
func IsLocal(cmd string) bool { return localCmds[cmd] }

func keyOf(cmd string, args [][]byte) ([]byte, bool) {
	if cmd == "eval" || cmd == "evalsha" {
		if len(args) > 3 {
			return args[3], true
		}
		return nil, false
	}
	if len(args) > 1 {
		return args[1], true
	}
	return nil, false
}

func (n *Node) dispatch(c *Conn, args [][]byte) Reply {
	cl := n.cl
	cl.mu.Lock()
	defer cl.mu.Unlock()
	cmd := strings.ToLower(string(args[0]))
	ev := Event{Seq: lclock.Tick(), Node: n.Idx, Replica: n.master != nil, Conn: c.ID, Asking: c.asking, ReadOnly: c.readonly, Cmd: cmd, Args: args}
	finish := func(outcome string, v resp.Value) Reply {
		ev.Outcome = outcome
		if cl.OnEvent != nil {
			cl.OnEvent(&ev)
		}
		cl.record(ev)
		return Reply{Raw: resp.Encode(v)}
	}
	if n.Handler != nil {
		if rep, handled := n.Handler(c, args); handled {
			ev.Outcome = Scripted
			if rep.NoReply {
				ev.Outcome = Dropped
			}
			if cl.OnEvent != nil {
				cl.OnEvent(&ev)
			}
			cl.record(ev)
			if cmd != "asking" {
				c.asking = false
			} else {
				c.asking = true // a scripted reply to ASKING still arms the flag (the node did see ASKING)
			}
			return rep
		}
	}
	switch cmd {
	case "asking":
		c.asking = true
		return finish(Local, resp.S("OK"))
	case "readonly":
		c.asking = false
		c.readonly = true
		return finish(Local, resp.S("OK"))
	case "readwrite":
		c.asking = false
		c.readonly = false
		return finish(Local, resp.S("OK"))
	case "ping":
		c.asking = false
		return finish(Local, resp.S("PONG"))
	case "cluster":
		c.asking = false
		if len(args) >= 2 && strings.EqualFold(string(args[1]), "nodes") {
			return finish(Local, resp.BS(n.clusterNodesLocked()))
		}
		return finish(ErrReply, resp.E("ERR unsupported CLUSTER subcommand in simulator"))
	case "scan":
		c.asking = false
		keys := n.DB().Keys()
		out := make([]resp.Value, len(keys))
		for i, k := range keys {
			out[i] = resp.BS(k)
		}
		return finish(Local, resp.A(resp.BS("0"), resp.A(out...)))
	}
	asking := c.asking
	c.asking = false
	key, hasKey := keyOf(cmd, args)
	if !hasKey {
		return finish(ErrReply, resp.E("ERR wrong number of arguments for '"+cmd+"' command"))
	}
	slot := Slot(key)
	shard := n
	if n.master != nil {
		shard = n.master
	}
	owner := n.view[slot]
	if n.master != nil {
		// replica: serves reads of its master's slots after READONLY, redirects everything else.
		if c.readonly && ReadOnlyCmds[cmd] && owner == shard {
			return finish(Executed, shard.db.Exec(args))
		}
		if owner == nil {
			return finish(ErrReply, resp.E("CLUSTERDOWN Hash slot not served"))
		}
		return finish(Moved, resp.E(fmt.Sprintf("MOVED %d %s", slot, owner.Addr)))
	}
	if owner == n {
		if target, ok := n.migr[slot]; ok && !n.db.Has(string(key)) {
			return finish(Ask, resp.E(fmt.Sprintf("ASK %d %s", slot, target.Addr)))
		}
		return finish(Executed, n.db.Exec(args))
	}
	if _, ok := n.imp[slot]; ok && asking {
		return finish(Executed, n.db.Exec(args))
	}
	if owner == nil {
		return finish(ErrReply, resp.E("CLUSTERDOWN Hash slot not served"))
	}
	return finish(Moved, resp.E(fmt.Sprintf("MOVED %d %s", slot, owner.Addr)))
}

// ClusterNodes renders CLUSTER NODES from n's view.
func (n *Node) ClusterNodes() string {
	n.cl.mu.Lock()
	defer n.cl.mu.Unlock()
	return n.clusterNodesLocked()
}

// ClusterNodesLocked renders CLUSTER NODES as this node would answer it now.
func (n *Node) ClusterNodesLocked() string { return n.clusterNodesLocked() }

func (n *Node) clusterNodesLocked() string {
	var b strings.Builder
	for _, o := range n.cl.Nodes {
		flags := []string{}
		if o == n {
			flags = append(flags, "myself")
		}
		masterID := "-"
		if o.master == nil {
			flags = append(flags, "master")
		} else {
			flags = append(flags, "slave")
			masterID = o.master.ID
		}
		if o.failed {
			flags = append(flags, "fail")
		}
		host, port, _ := net.SplitHostPort(o.Addr)
		p, _ := strconv.Atoi(port)
		fmt.Fprintf(&b, "%s %s:%d@%d %s %s 0 1 %d connected", o.ID, host, p, p+10000, strings.Join(flags, ","), masterID, o.Idx+1)
		if o.master == nil {
			// slot ranges owned by o in n's view
			start := -1
			for s := 0; s <= NumSlots; s++ {
				if s < NumSlots && n.view[s] == o {
					if start < 0 {
						start = s
					}
					continue
				}
				if start >= 0 {
					if start == s-1 {
						fmt.Fprintf(&b, " %d", start)
					} else {
						fmt.Fprintf(&b, " %d-%d", start, s-1)
					}
					start = -1
				}
			}
			if o == n {
				slots := []int{}
				for s := range n.migr {
					slots = append(slots, s)
				}
				sort.Ints(slots)
				for _, s := range slots {
					fmt.Fprintf(&b, " [%d->-%s]", s, n.migr[s].ID)
				}
				slots = slots[:0]
				for s := range n.imp {
					slots = append(slots, s)
				}
				sort.Ints(slots)
				for _, s := range slots {
					fmt.Fprintf(&b, " [%d-<-%s]", s, n.imp[s].ID)
				}
			}
		}
		b.WriteString("\n")
	}
	return b.String()
}
