// Package lclock is the single monotonic logical clock stamping all events of
// driver and simulator (they live in one process).
package lclock

import "sync/atomic"

var c int64

// Tick advances the clock and returns the new value.
func Tick() int64 { return atomic.AddInt64(&c, 1) }

// Now returns the current value.
func Now() int64 { return atomic.LoadInt64(&c) }
