// Package sutc starts and controls the SUT host child process.
package sutc

import (
	"bufio"
	"encoding/json"
	"errors"
	"fmt"
	"net"
	"os"
	"os/exec"
	"path/filepath"
	"sync"
	"sync/atomic"
	"syscall"
	"time"

	"verif/internal/child"
)

// Host is one address of a service.
type Host struct {
	Addr   string `json:"addr"`
	Backup bool   `json:"backup,omitempty"`
}

// HookAction mirrors vhook.Action.
type HookAction struct {
	Mode    string
	Skip    int
	Times   int
	Prob    float64
	SleepUs int
	Yields  int
	Seed    int64
}

// SUT is a running SUT host.
type SUT struct {
	cmd     *exec.Cmd
	LogPath string
	conn    net.Conn
	ln      net.Listener
	sock    string

	wmu     sync.Mutex
	nextID  int64
	pmu     sync.Mutex
	pending map[int64]chan resp
	exited  chan struct{}
	waitErr error
	dead    int32
}

type resp struct {
	ID   int64           `json:"id"`
	Err  string          `json:"err"`
	Data json.RawMessage `json:"data"`
}

// ErrTimeout is returned when a control call does not return in time (the SUT may be wedged).
var ErrTimeout = errors.New("sut: control call timed out")

// ErrDead is returned when the SUT process has exited.
var ErrDead = errors.New("sut: process exited")

var seq int64

// Start launches a SUT host. race selects the -race build. dir is the run directory.
func Start(dir string, race bool, env ...string) (*SUT, error) {
	os.MkdirAll(dir, 0o755)
	n := atomic.AddInt64(&seq, 1)
	sock := filepath.Join(os.TempDir(), fmt.Sprintf("vsut-%d-%d.sock", os.Getpid(), n))
	os.Remove(sock)
	ln, err := net.Listen("unix", sock)
	if err != nil {
		return nil, err
	}
	bin := child.Self()
	if race {
		bin = child.RaceBin()
	}
	logPath := filepath.Join(dir, fmt.Sprintf("sut.%d.log", n))
	f, err := os.Create(logPath)
	if err != nil {
		ln.Close()
		return nil, err
	}
	cmd := exec.Command(bin, "sut", sock)
	cmd.Stdout = f
	cmd.Stderr = f
	cmd.Env = append(os.Environ(), "GOTRACEBACK=all")
	cmd.Env = append(cmd.Env, env...)
	if err := cmd.Start(); err != nil {
		f.Close()
		ln.Close()
		return nil, err
	}
	f.Close()
	s := &SUT{cmd: cmd, LogPath: logPath, ln: ln, sock: sock, pending: map[int64]chan resp{}, exited: make(chan struct{})}
	go func() {
		s.waitErr = cmd.Wait()
		atomic.StoreInt32(&s.dead, 1)
		close(s.exited)
		ln.Close()
	}()
	ln.(*net.UnixListener).SetDeadline(time.Now().Add(30 * time.Second))
	conn, err := ln.Accept()
	if err != nil {
		s.Kill()
		return nil, fmt.Errorf("sut did not connect: %v (log %s)", err, logPath)
	}
	s.conn = conn
	go s.readLoop()
	if _, err := s.Call(10*time.Second, map[string]interface{}{"op": "ping"}); err != nil {
		s.Kill()
		return nil, err
	}
	return s, nil
}

func (s *SUT) readLoop() {
	sc := bufio.NewScanner(s.conn)
	sc.Buffer(make([]byte, 1<<20), 256<<20)
	for sc.Scan() {
		var r resp
		if json.Unmarshal(sc.Bytes(), &r) != nil {
			continue
		}
		s.pmu.Lock()
		ch := s.pending[r.ID]
		delete(s.pending, r.ID)
		s.pmu.Unlock()
		if ch != nil {
			ch <- r
		}
	}
}

// Call sends one control request and waits for its response.
func (s *SUT) Call(timeout time.Duration, req map[string]interface{}) (json.RawMessage, error) {
	if atomic.LoadInt32(&s.dead) == 1 {
		return nil, ErrDead
	}
	id := atomic.AddInt64(&s.nextID, 1)
	req["id"] = id
	b, err := json.Marshal(req)
	if err != nil {
		return nil, err
	}
	ch := make(chan resp, 1)
	s.pmu.Lock()
	s.pending[id] = ch
	s.pmu.Unlock()
	s.wmu.Lock()
	_, err = s.conn.Write(append(b, '\n'))
	s.wmu.Unlock()
	if err != nil {
		return nil, ErrDead
	}
	t := time.NewTimer(timeout)
	defer t.Stop()
	select {
	case r := <-ch:
		if r.Err != "" {
			return nil, errors.New(r.Err)
		}
		return r.Data, nil
	case <-s.exited:
		return nil, ErrDead
	case <-t.C:
		s.pmu.Lock()
		delete(s.pending, id)
		s.pmu.Unlock()
		return nil, ErrTimeout
	}
}

// Op is a convenience wrapper for calls with a name.
func (s *SUT) Op(timeout time.Duration, op, name string, extra map[string]interface{}) (json.RawMessage, error) {
	req := map[string]interface{}{"op": op}
	if name != "" {
		req["name"] = name
	}
	for k, v := range extra {
		req[k] = v
	}
	return s.Call(timeout, req)
}

const defTimeout = 20 * time.Second

// NewProc creates a processor from a JSON service config.
func (s *SUT) NewProc(name string, cfgJSON []byte, hosts []Host) error {
	_, err := s.Op(defTimeout, "proc_new", name, map[string]interface{}{"config": json.RawMessage(cfgJSON), "hosts": hosts})
	return err
}

func (s *SUT) StartProc(name string) error {
	_, err := s.Op(defTimeout, "proc_start", name, nil)
	return err
}

// StopProc calls Stop and waits up to timeout for it to return.
func (s *SUT) StopProc(name string, timeout time.Duration) error {
	_, err := s.Op(timeout, "proc_stop", name, nil)
	return err
}

func (s *SUT) DrainProc(name string, timeout time.Duration) error {
	_, err := s.Op(timeout, "proc_drain", name, nil)
	return err
}

func (s *SUT) ProcAddr(name string) (string, error) {
	d, err := s.Op(defTimeout, "proc_addr", name, nil)
	if err != nil {
		return "", err
	}
	var a string
	json.Unmarshal(d, &a)
	return a, nil
}

func (s *SUT) HostOp(op, name string, hosts []Host) error {
	_, err := s.Op(defTimeout, op, name, map[string]interface{}{"hosts": hosts})
	return err
}

func (s *SUT) ConfigUpdate(name string, cfgJSON []byte) error {
	_, err := s.Op(defTimeout, "config_update", name, map[string]interface{}{"config": json.RawMessage(cfgJSON)})
	return err
}

// Stats returns counters (by name) and gauges (name prefixed with "gauge:").
func (s *SUT) Stats(prefix string) (map[string]uint64, error) {
	d, err := s.Op(defTimeout, "stats", "", map[string]interface{}{"prefix": prefix})
	if err != nil {
		return nil, err
	}
	out := map[string]uint64{}
	err = json.Unmarshal(d, &out)
	return out, err
}

func (s *SUT) Goroutines() (string, error) {
	d, err := s.Op(defTimeout, "goroutines", "", nil)
	if err != nil {
		return "", err
	}
	var g string
	json.Unmarshal(d, &g)
	return g, nil
}

func (s *SUT) Mem() (map[string]uint64, error) {
	d, err := s.Op(defTimeout, "mem", "", nil)
	if err != nil {
		return nil, err
	}
	out := map[string]uint64{}
	err = json.Unmarshal(d, &out)
	return out, err
}

func (s *SUT) HookArm(point string, a HookAction) error {
	_, err := s.Op(defTimeout, "hook_arm", "", map[string]interface{}{"point": point, "action": a})
	return err
}

func (s *SUT) HookRelease(point string) error {
	_, err := s.Op(defTimeout, "hook_release", "", map[string]interface{}{"point": point})
	return err
}

// HookReleaseParked wakes the goroutines parked at the point now; the point stays armed.
func (s *SUT) HookReleaseParked(point string) error {
	_, err := s.Op(defTimeout, "hook_release_parked", "", map[string]interface{}{"point": point})
	return err
}

func (s *SUT) HookReleaseAll() error {
	_, err := s.Op(defTimeout, "hook_release_all", "", nil)
	return err
}

// HookState returns hits / parked / acted of a point.
func (s *SUT) HookState(point string) (map[string]int64, error) {
	d, err := s.Op(defTimeout, "hook_state", "", map[string]interface{}{"point": point})
	if err != nil {
		return nil, err
	}
	out := map[string]int64{}
	err = json.Unmarshal(d, &out)
	return out, err
}

func (s *SUT) HookSnapshot() (map[string]int64, error) {
	d, err := s.Op(defTimeout, "hook_snapshot", "", nil)
	if err != nil {
		return nil, err
	}
	out := map[string]int64{}
	err = json.Unmarshal(d, &out)
	return out, err
}

// WaitParked waits until n goroutines are parked at the point.
func (s *SUT) WaitParked(point string, n int64, timeout time.Duration) bool {
	deadline := time.Now().Add(timeout)
	for time.Now().Before(deadline) {
		st, err := s.HookState(point)
		if err != nil {
			return false
		}
		if st["parked"] >= n {
			return true
		}
		time.Sleep(2 * time.Millisecond)
	}
	return false
}

func (s *SUT) RedisTimers(freqMs, minRateMs int64) error {
	_, err := s.Op(defTimeout, "redis_timers", "", map[string]interface{}{"a": freqMs, "b": minRateMs})
	return err
}

func (s *SUT) HotkeyIntervals(collectMs, evictMs int64) error {
	_, err := s.Op(defTimeout, "hotkey_intervals", "", map[string]interface{}{"a": collectMs, "b": evictMs})
	return err
}

// Alive reports whether the process is still running.
func (s *SUT) Alive() bool { return atomic.LoadInt32(&s.dead) == 0 }

// Pid returns the process id.
func (s *SUT) Pid() int { return s.cmd.Process.Pid }

// ExitInfo describes how the process ended (valid once !Alive()).
func (s *SUT) ExitInfo() string {
	if s.Alive() {
		return "running"
	}
	if s.waitErr == nil {
		return "exit 0"
	}
	return s.waitErr.Error()
}

// DumpAndKill sends SIGQUIT (goroutine dump into the log) then kills.
func (s *SUT) DumpAndKill() {
	if s.Alive() {
		s.cmd.Process.Signal(syscall.SIGQUIT)
		select {
		case <-s.exited:
		case <-time.After(5 * time.Second):
		}
	}
	s.Kill()
}

// Kill terminates the process and releases resources.
func (s *SUT) Kill() {
	if s.Alive() {
		s.cmd.Process.Kill()
		select {
		case <-s.exited:
		case <-time.After(5 * time.Second):
		}
	}
	if s.conn != nil {
		s.conn.Close()
	}
	s.ln.Close()
	os.Remove(s.sock)
}

// Close asks the process to exit and cleans up.
func (s *SUT) Close() {
	if s.Alive() && s.conn != nil {
		s.wmu.Lock()
		s.conn.Write([]byte("{\"op\":\"exit\"}\n"))
		s.wmu.Unlock()
		select {
		case <-s.exited:
		case <-time.After(3 * time.Second):
		}
	}
	s.Kill()
}

// CrashLine returns the first panic / fatal error line in the SUT's log.
func (s *SUT) CrashLine() string { return child.CrashLine(s.LogPath) }

// LogTail returns the end of the SUT's log.
func (s *SUT) LogTail(n int64) string { return child.Tail(s.LogPath, n) }
