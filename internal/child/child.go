// Package child runs a process under a watchdog with its output in a file
// (never a pipe, so a goroutine dump on SIGQUIT is not lost).
package child

import (
	"bytes"
	"os"
	"os/exec"
	"path/filepath"
	"strings"
	"syscall"
	"time"
)

// Result describes how a child ended.
type Result struct {
	ExitCode int  // -1 when killed by a signal
	Signaled bool // ended by a signal
	TimedOut bool // watchdog fired (SIGQUIT then SIGKILL)
	LogPath  string
}

// Self is the path of the running executable.
func Self() string {
	p, err := os.Executable()
	if err != nil {
		return os.Args[0]
	}
	return p
}

// RaceBin returns the path of the -race build of this binary.
func RaceBin() string {
	if p := os.Getenv("VERIF_RACE_BIN"); p != "" {
		return p
	}
	return filepath.Join(filepath.Dir(Self()), "vcheck-race")
}

// Run runs bin with args, output to logPath, killed after timeout.
func Run(bin string, args []string, env []string, logPath string, timeout time.Duration) (Result, error) {
	os.MkdirAll(filepath.Dir(logPath), 0o755)
	f, err := os.Create(logPath)
	if err != nil {
		return Result{}, err
	}
	defer f.Close()
	cmd := exec.Command(bin, args...)
	cmd.Stdout = f
	cmd.Stderr = f
	cmd.Env = append(os.Environ(), env...)
	if err := cmd.Start(); err != nil {
		return Result{}, err
	}
	done := make(chan error, 1)
	go func() { done <- cmd.Wait() }()
	res := Result{LogPath: logPath}
	select {
	case err = <-done:
	case <-time.After(timeout):
		res.TimedOut = true
		cmd.Process.Signal(syscall.SIGQUIT)
		select {
		case err = <-done:
		case <-time.After(10 * time.Second):
			cmd.Process.Kill()
			err = <-done
		}
	}
	if err == nil {
		return res, nil
	}
	if ee, ok := err.(*exec.ExitError); ok {
		if ws, ok := ee.Sys().(syscall.WaitStatus); ok && ws.Signaled() {
			res.Signaled = true
			res.ExitCode = -1
			return res, nil
		}
		res.ExitCode = ee.ExitCode()
		return res, nil
	}
	return res, err
}

// Tail returns the last n bytes of a file.
func Tail(path string, n int64) string {
	f, err := os.Open(path)
	if err != nil {
		return ""
	}
	defer f.Close()
	st, err := f.Stat()
	if err != nil {
		return ""
	}
	off := st.Size() - n
	if off < 0 {
		off = 0
	}
	buf := make([]byte, st.Size()-off)
	f.ReadAt(buf, off)
	return string(buf)
}

// CrashLine extracts the first "panic:" / "fatal error:" line of a log, if any.
func CrashLine(path string) string {
	b, err := os.ReadFile(path)
	if err != nil {
		return ""
	}
	for _, line := range bytes.Split(b, []byte("\n")) {
		s := string(line)
		if strings.HasPrefix(s, "panic:") || strings.HasPrefix(s, "fatal error:") || strings.Contains(s, "WARNING: DATA RACE") {
			if len(s) > 200 {
				s = s[:200]
			}
			return s
		}
	}
	return ""
}

// VerdictLines returns the lines of a child log that belong to the check protocol.
func VerdictLines(path string) []string {
	b, err := os.ReadFile(path)
	if err != nil {
		return nil
	}
	var out []string
	for _, line := range strings.Split(string(b), "\n") {
		if strings.HasPrefix(line, "VIOLATION ") || strings.HasPrefix(line, "KNOWN-FINDING:") ||
			strings.HasPrefix(line, "SUMMARY ") || strings.HasPrefix(line, "INTERNAL-ERROR ") || strings.HasPrefix(line, "NOTE ") {
			out = append(out, line)
		}
	}
	return out
}
