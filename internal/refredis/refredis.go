// Package refredis is a deterministic, time-free in-memory Redis command
// engine. It is used as the "single Redis server holding all the data"
// reference, as the store of every simulated cluster node, and (restricted to
// one key) as the step function of linearizability models.
//
// Commands whose semantics are not modelled are answered with a deterministic
// echo of their argument vector, on both sides of every comparison.
package refredis

import (
	"bytes"
	"encoding/json"
	"sort"
	"strconv"
	"strings"

	"verif/internal/resp"
)

type kind int

const (
	kString kind = iota
	kHash
	kList
	kSet
	kZSet
)

func (k kind) String() string { return [...]string{"string", "hash", "list", "set", "zset"}[k] }

type zmember struct {
	member string
	score  float64
}

// Entry is the value stored under a key.
type Entry struct {
	kind   kind
	str    []byte
	fields []string // hash field order
	hash   map[string][]byte
	list   [][]byte
	set    map[string]struct{}
	zset   map[string]float64
	ttl    int64 // 0 = none; otherwise the value given by the last EXPIRE-like command
}

// DB is one keyspace.
type DB struct {
	m map[string]*Entry
}

// New creates an empty DB.
func New() *DB { return &DB{m: map[string]*Entry{}} }

// Has reports whether the key exists.
func (d *DB) Has(key string) bool { _, ok := d.m[key]; return ok }

// Take removes and returns the entry of key (nil if absent).
func (d *DB) Take(key string) *Entry {
	e := d.m[key]
	delete(d.m, key)
	return e
}

// Put stores an entry under key.
func (d *DB) Put(key string, e *Entry) {
	if e != nil {
		d.m[key] = e
	}
}

// Keys returns all keys, sorted.
func (d *DB) Keys() []string {
	out := make([]string, 0, len(d.m))
	for k := range d.m {
		out = append(out, k)
	}
	sort.Strings(out)
	return out
}

// Len returns the number of keys.
func (d *DB) Len() int { return len(d.m) }

// RawString returns the stored bytes of a string key.
func (d *DB) RawString(key string) ([]byte, bool) {
	e := d.m[key]
	if e == nil || e.kind != kString {
		return nil, false
	}
	return e.str, true
}

// RawHash returns the stored field map of a hash key.
func (d *DB) RawHash(key string) (map[string][]byte, bool) {
	e := d.m[key]
	if e == nil || e.kind != kHash {
		return nil, false
	}
	return e.hash, true
}

var (
	wrongType = resp.E("WRONGTYPE Operation against a key holding the wrong kind of value")
	notInt    = resp.E("ERR value is not an integer or out of range")
	ok        = resp.S("OK")
)

func arity(cmd string) resp.Value {
	return resp.E("ERR wrong number of arguments for '" + cmd + "' command")
}

func cp(b []byte) []byte { return append([]byte{}, b...) }

// WriteCommands are the modelled commands that can modify data.
var WriteCommands = map[string]bool{}

func init() {
	for _, c := range strings.Fields(`set setnx setex psetex getset append incr decr incrby decrby del unlink expire pexpire expireat pexpireat persist
		hset hsetnx hmset hdel hincrby lpush rpush lpushx rpushx lpop rpop lset lrem ltrim sadd srem spop zadd zrem zincrby`) {
		WriteCommands[c] = true
	}
}

// Exec executes one command.
func (d *DB) Exec(args [][]byte) resp.Value {
	if len(args) == 0 {
		return resp.E("ERR empty command")
	}
	cmd := strings.ToLower(string(args[0]))
	n := len(args)
	key := ""
	if n > 1 {
		key = string(args[1])
	}
	get := func(k kind) (*Entry, bool) { // entry, type ok
		e := d.m[key]
		if e != nil && e.kind != k {
			return nil, false
		}
		return e, true
	}
	switch cmd {
	case "get":
		if n != 2 {
			return arity(cmd)
		}
		e, tok := get(kString)
		if !tok {
			return wrongType
		}
		if e == nil {
			return resp.NullBulk()
		}
		return resp.B(cp(e.str))
	case "set":
		if n < 3 {
			return arity(cmd)
		}
		nx, xx := false, false
		ttl := int64(0)
		for i := 3; i < n; i++ {
			switch strings.ToLower(string(args[i])) {
			case "nx":
				nx = true
			case "xx":
				xx = true
			case "ex", "px":
				if i+1 >= n {
					return resp.E("ERR syntax error")
				}
				v, err := strconv.ParseInt(string(args[i+1]), 10, 64)
				if err != nil || v <= 0 {
					return resp.E("ERR invalid expire time in set")
				}
				ttl = v
				i++
			default:
				return resp.E("ERR syntax error")
			}
		}
		_, exists := d.m[key]
		if (nx && exists) || (xx && !exists) {
			return resp.NullBulk()
		}
		d.m[key] = &Entry{kind: kString, str: cp(args[2]), ttl: ttl}
		return ok
	case "setnx":
		if n != 3 {
			return arity(cmd)
		}
		if _, exists := d.m[key]; exists {
			return resp.I(0)
		}
		d.m[key] = &Entry{kind: kString, str: cp(args[2])}
		return resp.I(1)
	case "setex", "psetex":
		if n != 4 {
			return arity(cmd)
		}
		v, err := strconv.ParseInt(string(args[2]), 10, 64)
		if err != nil {
			return notInt
		}
		if v <= 0 {
			return resp.E("ERR invalid expire time in " + cmd)
		}
		d.m[key] = &Entry{kind: kString, str: cp(args[3]), ttl: v}
		return ok
	case "getset":
		if n != 3 {
			return arity(cmd)
		}
		e, tok := get(kString)
		if !tok {
			return wrongType
		}
		old := resp.NullBulk()
		if e != nil {
			old = resp.B(cp(e.str))
		}
		d.m[key] = &Entry{kind: kString, str: cp(args[2])}
		return old
	case "append":
		if n != 3 {
			return arity(cmd)
		}
		e, tok := get(kString)
		if !tok {
			return wrongType
		}
		if e == nil {
			e = &Entry{kind: kString}
			d.m[key] = e
		}
		e.str = append(e.str, args[2]...)
		return resp.I(int64(len(e.str)))
	case "strlen":
		if n != 2 {
			return arity(cmd)
		}
		e, tok := get(kString)
		if !tok {
			return wrongType
		}
		if e == nil {
			return resp.I(0)
		}
		return resp.I(int64(len(e.str)))
	case "incr", "decr", "incrby", "decrby":
		delta := int64(1)
		if cmd == "incrby" || cmd == "decrby" {
			if n != 3 {
				return arity(cmd)
			}
			v, err := strconv.ParseInt(string(args[2]), 10, 64)
			if err != nil {
				return notInt
			}
			delta = v
		} else if n != 2 {
			return arity(cmd)
		}
		if cmd == "decr" || cmd == "decrby" {
			delta = -delta
		}
		e, tok := get(kString)
		if !tok {
			return wrongType
		}
		cur := int64(0)
		if e != nil {
			v, err := strconv.ParseInt(string(e.str), 10, 64)
			if err != nil {
				return notInt
			}
			cur = v
		} else {
			e = &Entry{kind: kString}
			d.m[key] = e
		}
		cur += delta
		e.str = []byte(strconv.FormatInt(cur, 10))
		return resp.I(cur)
	case "del", "unlink":
		if n < 2 {
			return arity(cmd)
		}
		c := int64(0)
		for _, k := range args[1:] {
			if _, exists := d.m[string(k)]; exists {
				delete(d.m, string(k))
				c++
			}
		}
		return resp.I(c)
	case "exists", "touch":
		if n < 2 {
			return arity(cmd)
		}
		c := int64(0)
		for _, k := range args[1:] {
			if _, exists := d.m[string(k)]; exists {
				c++
			}
		}
		return resp.I(c)
	case "type":
		if n != 2 {
			return arity(cmd)
		}
		e := d.m[key]
		if e == nil {
			return resp.S("none")
		}
		return resp.S(e.kind.String())
	case "expire", "pexpire", "expireat", "pexpireat":
		if n != 3 {
			return arity(cmd)
		}
		v, err := strconv.ParseInt(string(args[2]), 10, 64)
		if err != nil {
			return notInt
		}
		e := d.m[key]
		if e == nil {
			return resp.I(0)
		}
		if v <= 0 {
			v = 1
		}
		e.ttl = v
		return resp.I(1)
	case "ttl", "pttl":
		if n != 2 {
			return arity(cmd)
		}
		e := d.m[key]
		if e == nil {
			return resp.I(-2)
		}
		if e.ttl == 0 {
			return resp.I(-1)
		}
		return resp.I(e.ttl)
	case "persist":
		if n != 2 {
			return arity(cmd)
		}
		e := d.m[key]
		if e == nil || e.ttl == 0 {
			return resp.I(0)
		}
		e.ttl = 0
		return resp.I(1)

	// ---- hash
	case "hset", "hmset":
		if n < 4 || n%2 != 0 {
			return arity(cmd)
		}
		e, tok := get(kHash)
		if !tok {
			return wrongType
		}
		if e == nil {
			e = &Entry{kind: kHash, hash: map[string][]byte{}}
			d.m[key] = e
		}
		added := int64(0)
		for i := 2; i+1 < n; i += 2 {
			f := string(args[i])
			if _, exists := e.hash[f]; !exists {
				e.fields = append(e.fields, f)
				added++
			}
			e.hash[f] = cp(args[i+1])
		}
		if cmd == "hmset" {
			return ok
		}
		return resp.I(added)
	case "hsetnx":
		if n != 4 {
			return arity(cmd)
		}
		e, tok := get(kHash)
		if !tok {
			return wrongType
		}
		if e == nil {
			e = &Entry{kind: kHash, hash: map[string][]byte{}}
			d.m[key] = e
		}
		f := string(args[2])
		if _, exists := e.hash[f]; exists {
			return resp.I(0)
		}
		e.fields = append(e.fields, f)
		e.hash[f] = cp(args[3])
		return resp.I(1)
	case "hget", "hexists", "hstrlen":
		if n != 3 {
			return arity(cmd)
		}
		e, tok := get(kHash)
		if !tok {
			return wrongType
		}
		var v []byte
		exists := false
		if e != nil {
			v, exists = e.hash[string(args[2])]
		}
		switch cmd {
		case "hget":
			if !exists {
				return resp.NullBulk()
			}
			return resp.B(cp(v))
		case "hexists":
			if exists {
				return resp.I(1)
			}
			return resp.I(0)
		default:
			return resp.I(int64(len(v)))
		}
	case "hmget":
		if n < 3 {
			return arity(cmd)
		}
		e, tok := get(kHash)
		if !tok {
			return wrongType
		}
		out := make([]resp.Value, 0, n-2)
		for _, f := range args[2:] {
			if e != nil {
				if v, exists := e.hash[string(f)]; exists {
					out = append(out, resp.B(cp(v)))
					continue
				}
			}
			out = append(out, resp.NullBulk())
		}
		return resp.A(out...)
	case "hgetall", "hkeys", "hvals", "hlen":
		if n != 2 {
			return arity(cmd)
		}
		e, tok := get(kHash)
		if !tok {
			return wrongType
		}
		if cmd == "hlen" {
			if e == nil {
				return resp.I(0)
			}
			return resp.I(int64(len(e.hash)))
		}
		out := []resp.Value{}
		if e != nil {
			for _, f := range e.fields {
				if cmd != "hvals" {
					out = append(out, resp.BS(f))
				}
				if cmd != "hkeys" {
					out = append(out, resp.B(cp(e.hash[f])))
				}
			}
		}
		return resp.A(out...)
	case "hscan":
		// HSCAN key cursor [MATCH p] [COUNT n]: the whole hash in one page (a legal SCAN-family answer), options ignored
		if n < 3 {
			return arity(cmd)
		}
		e, tok := get(kHash)
		if !tok {
			return wrongType
		}
		page := []resp.Value{}
		if e != nil {
			for _, f := range e.fields {
				page = append(page, resp.BS(f), resp.B(cp(e.hash[f])))
			}
		}
		return resp.A(resp.BS("0"), resp.A(page...))
	case "hdel":
		if n < 3 {
			return arity(cmd)
		}
		e, tok := get(kHash)
		if !tok {
			return wrongType
		}
		c := int64(0)
		if e != nil {
			for _, f := range args[2:] {
				if _, exists := e.hash[string(f)]; exists {
					delete(e.hash, string(f))
					for i, x := range e.fields {
						if x == string(f) {
							e.fields = append(e.fields[:i:i], e.fields[i+1:]...)
							break
						}
					}
					c++
				}
			}
			if len(e.hash) == 0 {
				delete(d.m, key)
			}
		}
		return resp.I(c)
	case "hincrby":
		if n != 4 {
			return arity(cmd)
		}
		delta, err := strconv.ParseInt(string(args[3]), 10, 64)
		if err != nil {
			return notInt
		}
		e, tok := get(kHash)
		if !tok {
			return wrongType
		}
		if e == nil {
			e = &Entry{kind: kHash, hash: map[string][]byte{}}
			d.m[key] = e
		}
		f := string(args[2])
		cur := int64(0)
		if v, exists := e.hash[f]; exists {
			c, err := strconv.ParseInt(string(v), 10, 64)
			if err != nil {
				return resp.E("ERR hash value is not an integer")
			}
			cur = c
		} else {
			e.fields = append(e.fields, f)
		}
		cur += delta
		e.hash[f] = []byte(strconv.FormatInt(cur, 10))
		return resp.I(cur)

	// ---- list
	case "lpush", "rpush", "lpushx", "rpushx":
		if n < 3 {
			return arity(cmd)
		}
		e, tok := get(kList)
		if !tok {
			return wrongType
		}
		if e == nil {
			if strings.HasSuffix(cmd, "x") {
				return resp.I(0)
			}
			e = &Entry{kind: kList}
			d.m[key] = e
		}
		for _, v := range args[2:] {
			if cmd[0] == 'l' {
				e.list = append([][]byte{cp(v)}, e.list...)
			} else {
				e.list = append(e.list, cp(v))
			}
		}
		return resp.I(int64(len(e.list)))
	case "lpop", "rpop":
		if n != 2 {
			return arity(cmd)
		}
		e, tok := get(kList)
		if !tok {
			return wrongType
		}
		if e == nil {
			return resp.NullBulk()
		}
		var v []byte
		if cmd == "lpop" {
			v, e.list = e.list[0], e.list[1:]
		} else {
			v, e.list = e.list[len(e.list)-1], e.list[:len(e.list)-1]
		}
		if len(e.list) == 0 {
			delete(d.m, key)
		}
		return resp.B(v)
	case "llen":
		if n != 2 {
			return arity(cmd)
		}
		e, tok := get(kList)
		if !tok {
			return wrongType
		}
		if e == nil {
			return resp.I(0)
		}
		return resp.I(int64(len(e.list)))
	case "lrange", "ltrim":
		if n != 4 {
			return arity(cmd)
		}
		s, err1 := strconv.Atoi(string(args[2]))
		t, err2 := strconv.Atoi(string(args[3]))
		if err1 != nil || err2 != nil {
			return notInt
		}
		e, tok := get(kList)
		if !tok {
			return wrongType
		}
		l := 0
		if e != nil {
			l = len(e.list)
		}
		if s < 0 {
			s += l
		}
		if t < 0 {
			t += l
		}
		if s < 0 {
			s = 0
		}
		if t >= l {
			t = l - 1
		}
		if cmd == "lrange" {
			out := []resp.Value{}
			for i := s; i <= t; i++ {
				out = append(out, resp.B(cp(e.list[i])))
			}
			return resp.A(out...)
		}
		if e != nil {
			if s > t {
				delete(d.m, key)
			} else {
				e.list = append([][]byte{}, e.list[s:t+1]...)
			}
		}
		return ok
	case "lindex":
		if n != 3 {
			return arity(cmd)
		}
		i, err := strconv.Atoi(string(args[2]))
		if err != nil {
			return notInt
		}
		e, tok := get(kList)
		if !tok {
			return wrongType
		}
		if e == nil {
			return resp.NullBulk()
		}
		if i < 0 {
			i += len(e.list)
		}
		if i < 0 || i >= len(e.list) {
			return resp.NullBulk()
		}
		return resp.B(cp(e.list[i]))
	case "lset":
		if n != 4 {
			return arity(cmd)
		}
		i, err := strconv.Atoi(string(args[2]))
		if err != nil {
			return notInt
		}
		e, tok := get(kList)
		if !tok {
			return wrongType
		}
		if e == nil {
			return resp.E("ERR no such key")
		}
		if i < 0 {
			i += len(e.list)
		}
		if i < 0 || i >= len(e.list) {
			return resp.E("ERR index out of range")
		}
		e.list[i] = cp(args[3])
		return ok
	case "lrem":
		if n != 4 {
			return arity(cmd)
		}
		cnt, err := strconv.Atoi(string(args[2]))
		if err != nil {
			return notInt
		}
		e, tok := get(kList)
		if !tok {
			return wrongType
		}
		if e == nil {
			return resp.I(0)
		}
		removed := 0
		keep := make([][]byte, 0, len(e.list))
		if cnt >= 0 {
			for _, v := range e.list {
				if bytes.Equal(v, args[3]) && (cnt == 0 || removed < cnt) {
					removed++
					continue
				}
				keep = append(keep, v)
			}
		} else {
			for i := len(e.list) - 1; i >= 0; i-- {
				v := e.list[i]
				if bytes.Equal(v, args[3]) && removed < -cnt {
					removed++
					continue
				}
				keep = append([][]byte{v}, keep...)
			}
		}
		e.list = keep
		if len(e.list) == 0 {
			delete(d.m, key)
		}
		return resp.I(int64(removed))

	// ---- set
	case "sadd", "srem":
		if n < 3 {
			return arity(cmd)
		}
		e, tok := get(kSet)
		if !tok {
			return wrongType
		}
		if e == nil {
			if cmd == "srem" {
				return resp.I(0)
			}
			e = &Entry{kind: kSet, set: map[string]struct{}{}}
			d.m[key] = e
		}
		c := int64(0)
		for _, m := range args[2:] {
			_, exists := e.set[string(m)]
			if cmd == "sadd" && !exists {
				e.set[string(m)] = struct{}{}
				c++
			}
			if cmd == "srem" && exists {
				delete(e.set, string(m))
				c++
			}
		}
		if len(e.set) == 0 {
			delete(d.m, key)
		}
		return resp.I(c)
	case "smembers", "scard", "spop":
		if n != 2 {
			return arity(cmd)
		}
		e, tok := get(kSet)
		if !tok {
			return wrongType
		}
		if cmd == "scard" {
			if e == nil {
				return resp.I(0)
			}
			return resp.I(int64(len(e.set)))
		}
		ms := []string{}
		if e != nil {
			for m := range e.set {
				ms = append(ms, m)
			}
		}
		sort.Strings(ms)
		if cmd == "spop" {
			if len(ms) == 0 {
				return resp.NullBulk()
			}
			delete(e.set, ms[0])
			if len(e.set) == 0 {
				delete(d.m, key)
			}
			return resp.BS(ms[0])
		}
		out := make([]resp.Value, len(ms))
		for i, m := range ms {
			out[i] = resp.BS(m)
		}
		return resp.A(out...)
	case "sismember":
		if n != 3 {
			return arity(cmd)
		}
		e, tok := get(kSet)
		if !tok {
			return wrongType
		}
		if e != nil {
			if _, exists := e.set[string(args[2])]; exists {
				return resp.I(1)
			}
		}
		return resp.I(0)

	// ---- zset
	case "zadd":
		if n < 4 || n%2 != 0 {
			return arity(cmd)
		}
		scores := make([]float64, 0, (n-2)/2)
		for i := 2; i+1 < n; i += 2 {
			s, err := strconv.ParseFloat(string(args[i]), 64)
			if err != nil {
				return resp.E("ERR value is not a valid float")
			}
			scores = append(scores, s)
		}
		e, tok := get(kZSet)
		if !tok {
			return wrongType
		}
		if e == nil {
			e = &Entry{kind: kZSet, zset: map[string]float64{}}
			d.m[key] = e
		}
		c := int64(0)
		for i, s := range scores {
			m := string(args[3+2*i])
			if _, exists := e.zset[m]; !exists {
				c++
			}
			e.zset[m] = s
		}
		return resp.I(c)
	case "zscore", "zrank":
		if n != 3 {
			return arity(cmd)
		}
		e, tok := get(kZSet)
		if !tok {
			return wrongType
		}
		if e == nil {
			return resp.NullBulk()
		}
		s, exists := e.zset[string(args[2])]
		if !exists {
			return resp.NullBulk()
		}
		if cmd == "zscore" {
			return resp.BS(fmtFloat(s))
		}
		for i, zm := range e.sorted() {
			if zm.member == string(args[2]) {
				return resp.I(int64(i))
			}
		}
		return resp.NullBulk()
	case "zcard":
		if n != 2 {
			return arity(cmd)
		}
		e, tok := get(kZSet)
		if !tok {
			return wrongType
		}
		if e == nil {
			return resp.I(0)
		}
		return resp.I(int64(len(e.zset)))
	case "zrem":
		if n < 3 {
			return arity(cmd)
		}
		e, tok := get(kZSet)
		if !tok {
			return wrongType
		}
		c := int64(0)
		if e != nil {
			for _, m := range args[2:] {
				if _, exists := e.zset[string(m)]; exists {
					delete(e.zset, string(m))
					c++
				}
			}
			if len(e.zset) == 0 {
				delete(d.m, key)
			}
		}
		return resp.I(c)
	case "zincrby":
		if n != 4 {
			return arity(cmd)
		}
		delta, err := strconv.ParseFloat(string(args[2]), 64)
		if err != nil {
			return resp.E("ERR value is not a valid float")
		}
		e, tok := get(kZSet)
		if !tok {
			return wrongType
		}
		if e == nil {
			e = &Entry{kind: kZSet, zset: map[string]float64{}}
			d.m[key] = e
		}
		e.zset[string(args[3])] += delta
		return resp.BS(fmtFloat(e.zset[string(args[3])]))
	case "zrange":
		if n != 4 && n != 5 {
			return arity(cmd)
		}
		s, err1 := strconv.Atoi(string(args[2]))
		t, err2 := strconv.Atoi(string(args[3]))
		if err1 != nil || err2 != nil {
			return notInt
		}
		with := n == 5 && strings.EqualFold(string(args[4]), "withscores")
		if n == 5 && !with {
			return resp.E("ERR syntax error")
		}
		e, tok := get(kZSet)
		if !tok {
			return wrongType
		}
		out := []resp.Value{}
		if e != nil {
			zs := e.sorted()
			l := len(zs)
			if s < 0 {
				s += l
			}
			if t < 0 {
				t += l
			}
			if s < 0 {
				s = 0
			}
			if t >= l {
				t = l - 1
			}
			for i := s; i <= t; i++ {
				out = append(out, resp.BS(zs[i].member))
				if with {
					out = append(out, resp.BS(fmtFloat(zs[i].score)))
				}
			}
		}
		return resp.A(out...)
	}
	// not modelled: deterministic echo of the argument vector
	out := make([]resp.Value, 0, n+1)
	out = append(out, resp.BS("echo"))
	for _, a := range args {
		out = append(out, resp.B(cp(a)))
	}
	return resp.A(out...)
}

func (e *Entry) sorted() []zmember {
	zs := make([]zmember, 0, len(e.zset))
	for m, s := range e.zset {
		zs = append(zs, zmember{m, s})
	}
	sort.Slice(zs, func(i, j int) bool {
		if zs[i].score != zs[j].score {
			return zs[i].score < zs[j].score
		}
		return zs[i].member < zs[j].member
	})
	return zs
}

func fmtFloat(f float64) string { return strconv.FormatFloat(f, 'g', 17, 64) }

// Clone returns a deep copy of the DB.
func (d *DB) Clone() *DB {
	o := New()
	for k, e := range d.m {
		o.m[k] = e.clone()
	}
	return o
}

func (e *Entry) clone() *Entry {
	c := &Entry{kind: e.kind, str: cp(e.str), ttl: e.ttl}
	c.fields = append([]string{}, e.fields...)
	if e.hash != nil {
		c.hash = map[string][]byte{}
		for k, v := range e.hash {
			c.hash[k] = cp(v)
		}
	}
	for _, v := range e.list {
		c.list = append(c.list, cp(v))
	}
	if e.set != nil {
		c.set = map[string]struct{}{}
		for k := range e.set {
			c.set[k] = struct{}{}
		}
	}
	if e.zset != nil {
		c.zset = map[string]float64{}
		for k, v := range e.zset {
			c.zset[k] = v
		}
	}
	return c
}

// Dump renders the value of a key deterministically (for final-state comparison).
func (d *DB) Dump(key string) string {
	e := d.m[key]
	if e == nil {
		return "<none>"
	}
	switch e.kind {
	case kString:
		return "s:" + string(e.str)
	case kHash:
		var b strings.Builder
		b.WriteString("h:")
		for _, f := range e.fields {
			b.WriteString(strconv.Quote(f) + "=" + strconv.Quote(string(e.hash[f])) + ",")
		}
		return b.String()
	case kList:
		var b strings.Builder
		b.WriteString("l:")
		for _, v := range e.list {
			b.WriteString(strconv.Quote(string(v)) + ",")
		}
		return b.String()
	case kSet:
		ms := []string{}
		for m := range e.set {
			ms = append(ms, strconv.Quote(m))
		}
		sort.Strings(ms)
		return "S:" + strings.Join(ms, ",")
	default:
		var b strings.Builder
		b.WriteString("z:")
		for _, zm := range e.sorted() {
			b.WriteString(strconv.Quote(zm.member) + "=" + fmtFloat(zm.score) + ",")
		}
		return b.String()
	}
}

type entryJSON struct {
	K int
	S []byte             `json:",omitempty"`
	F []string           `json:",omitempty"`
	H map[string][]byte  `json:",omitempty"`
	L [][]byte           `json:",omitempty"`
	M []string           `json:",omitempty"`
	Z map[string]float64 `json:",omitempty"`
	T int64              `json:",omitempty"`
}

// Snapshot serialises the value of one key deterministically ("" = absent).
func (d *DB) Snapshot(key string) string {
	e := d.m[key]
	if e == nil {
		return ""
	}
	j := entryJSON{K: int(e.kind), S: e.str, F: e.fields, H: e.hash, L: e.list, Z: e.zset, T: e.ttl}
	for m := range e.set {
		j.M = append(j.M, m)
	}
	sort.Strings(j.M)
	b, _ := json.Marshal(j)
	return string(b)
}

// Restore puts a snapshot back under key.
func (d *DB) Restore(key, snap string) {
	if snap == "" {
		delete(d.m, key)
		return
	}
	var j entryJSON
	if json.Unmarshal([]byte(snap), &j) != nil {
		return
	}
	e := &Entry{kind: kind(j.K), str: j.S, fields: j.F, hash: j.H, list: j.L, zset: j.Z, ttl: j.T}
	if e.kind == kSet {
		e.set = map[string]struct{}{}
		for _, m := range j.M {
			e.set[m] = struct{}{}
		}
	}
	if e.kind == kHash && e.hash == nil {
		e.hash = map[string][]byte{}
	}
	if e.kind == kZSet && e.zset == nil {
		e.zset = map[string]float64{}
	}
	d.m[key] = e
}
