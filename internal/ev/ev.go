// Package ev writes evidence and replay files and implements the verdict
// discipline shared by all checks (violated / held / inconclusive, known findings).
package ev

import (
	"bufio"
	"encoding/json"
	"fmt"
	"os"
	"path/filepath"
	"sort"
	"strings"
	"sync"
	"time"
)

// Root is the /verif directory (cwd of every check).
var Root = func() string {
	if d := os.Getenv("VERIF_ROOT"); d != "" {
		return d
	}
	d, _ := os.Getwd()
	return d
}()

// runTag names this invocation of a check: the pid of the top-level driver, inherited by the children it starts through the
// environment. Two invocations of the same check (parallel sweeps) therefore never share a scratch file.
var runTag, runTagOwner = func() (string, bool) {
	if t := os.Getenv("VERIF_RUN_TAG"); t != "" {
		return t, false
	}
	t := fmt.Sprint(os.Getpid())
	os.Setenv("VERIF_RUN_TAG", t)
	return t, true
}()

// RunDir is the scratch directory of this invocation of check id (logs of children, inputs written before they are sent, progress
// files). The top-level driver removes it at the end of a run that needs no look.
func RunDir(id string) string { return filepath.Join(Root, "run", id+"."+runTag) }

// Run accumulates what one run of one check observed.
type Run struct {
	ID    string
	Tier  string
	Seed  int64
	Level string

	start time.Time
	mu    sync.Mutex

	evaluations  int
	distinct     map[string]struct{}
	distinctN    int
	samples      []interface{}
	maxSamples   int
	rule         string
	extra        map[string]interface{}
	counters     map[string]int64
	assumptions  []string
	inconclusive int

	viol       []violation
	violKeys   map[string]int
	known      map[string]string // key -> description
	knownHit   map[string]int
	internal   []string
	replaySeq  int
	exhaustive bool
}

type violation struct {
	Key    string
	What   string
	Replay string
}

// New starts a run. Tier and seed come from the command line / environment.
func New(id, tier string, seed int64, level string) *Run {
	r := &Run{
		ID: id, Tier: tier, Seed: seed, Level: level,
		start:      time.Now(),
		distinct:   map[string]struct{}{},
		maxSamples: 6,
		extra:      map[string]interface{}{},
		counters:   map[string]int64{},
		violKeys:   map[string]int{},
		known:      map[string]string{},
		knownHit:   map[string]int{},
	}
	r.loadKnown()
	return r
}

func (r *Run) loadKnown() {
	f, err := os.Open(filepath.Join(Root, "known_findings.txt"))
	if err != nil {
		return
	}
	defer f.Close()
	sc := bufio.NewScanner(f)
	for sc.Scan() {
		line := strings.TrimSpace(sc.Text())
		if !strings.HasPrefix(line, "finding:") {
			continue
		}
		fields := strings.Fields(line)
		var prop, key string
		rest := []string{}
		for _, f := range fields[1:] {
			switch {
			case strings.HasPrefix(f, "property=") && prop == "":
				prop = strings.TrimPrefix(f, "property=")
			case strings.HasPrefix(f, "key=") && key == "":
				key = strings.TrimPrefix(f, "key=")
			default:
				rest = append(rest, f)
			}
		}
		if prop == r.ID && key != "" {
			r.known[key] = strings.Join(rest, " ")
		}
	}
}

// Rule states how cases are generated and what makes one distinct / non-trivial.
func (r *Run) Rule(s string) { r.rule = s }

// Assume records an assumption / trusted base element.
func (r *Run) Assume(s string) { r.assumptions = append(r.assumptions, s) }

// Case counts one judged case; distinctKey identifies its non-trivial class
// ("" = trivial, not counted as distinct).
func (r *Run) Case(distinctKey string) {
	r.mu.Lock()
	r.evaluations++
	if distinctKey != "" {
		r.distinct[distinctKey] = struct{}{}
	}
	r.mu.Unlock()
}

// Cases counts n judged cases of the same class.
func (r *Run) Cases(n int, distinctKey string) {
	r.mu.Lock()
	r.evaluations += n
	if distinctKey != "" {
		r.distinct[distinctKey] = struct{}{}
	}
	r.mu.Unlock()
}

// Distinct adds a distinct class without counting an evaluation.
func (r *Run) Distinct(key string) {
	r.mu.Lock()
	r.distinct[key] = struct{}{}
	r.mu.Unlock()
}

// DistinctN adds n distinct non-trivial cases that were counted by the caller
// with its own (measured) set, e.g. a bitset too large to store as strings.
func (r *Run) DistinctN(n int) {
	r.mu.Lock()
	r.distinctN += n
	r.mu.Unlock()
}

// Sample keeps an example case (only the first few are kept).
func (r *Run) Sample(v interface{}) {
	r.mu.Lock()
	if len(r.samples) < r.maxSamples {
		r.samples = append(r.samples, v)
	}
	r.mu.Unlock()
}

// Count adds to a named observation counter (reported under coverage.observed).
func (r *Run) Count(name string, n int64) {
	r.mu.Lock()
	r.counters[name] += n
	r.mu.Unlock()
}

// Counter returns the current value of a named observation counter.
func (r *Run) Counter(name string) int64 {
	r.mu.Lock()
	defer r.mu.Unlock()
	return r.counters[name]
}

// Set stores an extra coverage key.
func (r *Run) Set(name string, v interface{}) {
	r.mu.Lock()
	r.extra[name] = v
	r.mu.Unlock()
}

// Exhaustive marks that a finite space was enumerated completely.
func (r *Run) Exhaustive() { r.exhaustive = true }

// Inconclusive counts a dropped sample (never a verdict).
func (r *Run) Inconclusive(why string) {
	r.mu.Lock()
	r.inconclusive++
	r.counters["inconclusive:"+why]++
	r.mu.Unlock()
}

// Internal records an error of the check itself (hook never reached, too few
// events, child could not be started). The run then exits 3 without a verdict.
func (r *Run) Internal(format string, a ...interface{}) {
	r.mu.Lock()
	r.internal = append(r.internal, fmt.Sprintf(format, a...))
	r.mu.Unlock()
}

// Require fails the run (internal error) if a reach counter is below min.
func (r *Run) Require(name string, min int64) {
	if v := r.Counter(name); v < min {
		r.Internal("reach counter %s=%d below required %d: the workload did not drive what it claims", name, v, min)
	}
}

// Violation records a violation with a stable witness key. The witness is
// written to a replay file. Only the first occurrence of each key is written.
func (r *Run) Violation(key, what string, witness interface{}) {
	r.mu.Lock()
	defer r.mu.Unlock()
	if _, ok := r.known[key]; ok {
		r.knownHit[key]++
		return
	}
	r.violKeys[key]++
	if r.violKeys[key] > 1 || len(r.viol) >= 8 {
		return
	}
	r.replaySeq++
	name := fmt.Sprintf("%s-%s-seed%d-p%d-%d.json", r.ID, r.Tier, r.Seed, os.Getpid(), r.replaySeq)
	dir := filepath.Join(Root, "replays")
	os.MkdirAll(dir, 0o755)
	path := filepath.Join(dir, name)
	doc := map[string]interface{}{
		"property": r.ID, "tier": r.Tier, "seed": r.Seed, "key": key, "what": what, "witness": witness,
	}
	b, err := json.MarshalIndent(doc, "", " ")
	if err != nil {
		b = []byte(fmt.Sprintf("{\"property\":%q,\"key\":%q,\"what\":%q,\"witness\":%q}", r.ID, key, what, fmt.Sprint(witness)))
	}
	os.WriteFile(path, b, 0o644)
	r.viol = append(r.viol, violation{Key: key, What: what, Replay: filepath.Join("replays", name)})
}

// Violations returns the number of unlisted violations so far.
func (r *Run) Violations() int {
	r.mu.Lock()
	defer r.mu.Unlock()
	n := 0
	for _, c := range r.violKeys {
		n += c
	}
	return n
}

// Finish writes the evidence file, prints the verdict lines and returns the
// exit code: 0 held, 1 violated, 3 the check itself is broken / inconclusive.
func (r *Run) Finish() int {
	r.mu.Lock()
	defer r.mu.Unlock()

	cov := map[string]interface{}{
		"evaluations":         r.evaluations,
		"distinct_nontrivial": len(r.distinct) + r.distinctN,
		"rule":                r.rule,
		"samples":             r.samples,
		"observed":            r.counters,
		"inconclusive":        r.inconclusive,
	}
	if r.exhaustive {
		cov["exhaustive"] = true
	}
	for k, v := range r.extra {
		cov[k] = v
	}
	if len(r.samples) == 0 {
		cov["samples"] = []interface{}{}
	}
	nviol := 0
	for _, c := range r.violKeys {
		nviol += c
	}
	knownKeys := make([]string, 0, len(r.knownHit))
	for k := range r.knownHit {
		knownKeys = append(knownKeys, k)
	}
	sort.Strings(knownKeys)
	if len(knownKeys) > 0 {
		kf := map[string]int{}
		for _, k := range knownKeys {
			kf[k] = r.knownHit[k]
		}
		cov["known_findings_observed"] = kf
	}
	if len(r.violKeys) > 0 {
		cov["violation_keys"] = r.violKeys
	}
	if len(r.viol) > 0 {
		vs := []map[string]string{}
		for _, v := range r.viol {
			vs = append(vs, map[string]string{"key": v.Key, "what": v.What, "replay": v.Replay})
		}
		cov["violations_reported"] = vs
	}
	if len(r.internal) > 0 {
		cov["internal_errors"] = r.internal
	}
	doc := map[string]interface{}{
		"property_id": r.ID,
		"tier":        r.Tier,
		"seed":        r.Seed,
		"level":       r.Level,
		"coverage":    cov,
		"assumptions": r.assumptions,
		"wall_s":      time.Since(r.start).Seconds(),
		"violations":  nviol,
	}
	if r.assumptions == nil {
		doc["assumptions"] = []string{}
	}
	b, _ := json.MarshalIndent(doc, "", " ")
	os.MkdirAll(filepath.Join(Root, "evidence"), 0o755)
	if err := os.WriteFile(filepath.Join(Root, "evidence", r.ID+".json"), append(b, '\n'), 0o644); err != nil {
		fmt.Printf("INTERNAL-ERROR property=%s cannot write evidence: %v\n", r.ID, err)
		return 3
	}

	for _, k := range knownKeys {
		fmt.Printf("KNOWN-FINDING: property=%s %s (key=%s, observed %d times)\n", r.ID, r.known[k], k, r.knownHit[k])
	}
	for _, v := range r.viol {
		fmt.Printf("VIOLATION property=%s replay=%s key=%s %s\n", r.ID, v.Replay, v.Key, v.What)
	}
	fmt.Printf("SUMMARY property=%s tier=%s seed=%d evaluations=%d distinct=%d violations=%d known=%d inconclusive=%d wall=%.1fs\n",
		r.ID, r.Tier, r.Seed, r.evaluations, len(r.distinct)+r.distinctN, nviol, len(knownKeys), r.inconclusive, time.Since(r.start).Seconds())
	if nviol > 0 {
		return 1
	}
	if len(r.internal) > 0 {
		for _, e := range r.internal {
			fmt.Printf("INTERNAL-ERROR property=%s %s\n", r.ID, e)
		}
		return 3
	}
	if r.evaluations == 0 || len(r.distinct)+r.distinctN < 2 {
		fmt.Printf("INTERNAL-ERROR property=%s observed nothing (evaluations=%d distinct=%d)\n", r.ID, r.evaluations, len(r.distinct)+r.distinctN)
		return 3
	}
	if runTagOwner && os.Getenv("VERIF_KEEP_RUN_DIR") == "" {
		os.RemoveAll(RunDir(r.ID)) // nothing to look at: logs and scratch files of a silent run are not kept
	}
	return 0
}

type progress struct {
	Evaluations  int
	Distinct     []string
	DistinctN    int
	Samples      []interface{}
	Counters     map[string]int64
	Extra        map[string]interface{}
	Rule         string
	Assumptions  []string
	Inconclusive int
	CurrentCase  interface{}
}

func (r *Run) progressPath() string {
	return filepath.Join(RunDir(r.ID), "progress-"+r.Tier+".json")
}

// Checkpoint persists the counters so that a parent process can still write
// evidence if this process dies; current is the case about to be run.
func (r *Run) Checkpoint(current interface{}) {
	r.mu.Lock()
	p := progress{Evaluations: r.evaluations, Samples: r.samples, Counters: r.counters, Extra: r.extra,
		Rule: r.rule, Assumptions: r.assumptions, Inconclusive: r.inconclusive, CurrentCase: current, DistinctN: r.distinctN}
	for k := range r.distinct {
		p.Distinct = append(p.Distinct, k)
	}
	b, _ := json.Marshal(p)
	r.mu.Unlock()
	path := r.progressPath()
	os.MkdirAll(filepath.Dir(path), 0o755)
	tmp := path + ".tmp"
	if os.WriteFile(tmp, b, 0o644) == nil {
		os.Rename(tmp, path)
	}
}

// ClearProgress removes a stale checkpoint.
func (r *Run) ClearProgress() { os.Remove(r.progressPath()) }

// RestoreProgress loads the last checkpoint of a dead child; it returns the
// case that was current when the checkpoint was written.
func (r *Run) RestoreProgress() interface{} {
	b, err := os.ReadFile(r.progressPath())
	if err != nil {
		return nil
	}
	var p progress
	if json.Unmarshal(b, &p) != nil {
		return nil
	}
	r.mu.Lock()
	defer r.mu.Unlock()
	r.evaluations = p.Evaluations
	for _, k := range p.Distinct {
		r.distinct[k] = struct{}{}
	}
	r.samples = p.Samples
	r.distinctN = p.DistinctN
	if p.Counters != nil {
		r.counters = p.Counters
	}
	if p.Extra != nil {
		r.extra = p.Extra
	}
	r.rule = p.Rule
	r.assumptions = p.Assumptions
	r.inconclusive = p.Inconclusive
	return p.CurrentCase
}

type partDoc struct {
	P        progress
	Viol     []violation
	ViolKeys map[string]int
	KnownHit map[string]int
	Internal []string
}

// FinishPart writes everything this run observed to path, for a parent run to merge (no verdict lines, no evidence file).
func (r *Run) FinishPart(path string) {
	r.mu.Lock()
	defer r.mu.Unlock()
	p := progress{Evaluations: r.evaluations, Samples: r.samples, Counters: r.counters, Extra: r.extra,
		Rule: r.rule, Assumptions: r.assumptions, Inconclusive: r.inconclusive, DistinctN: r.distinctN}
	for k := range r.distinct {
		p.Distinct = append(p.Distinct, k)
	}
	b, _ := json.Marshal(partDoc{P: p, Viol: r.viol, ViolKeys: r.violKeys, KnownHit: r.knownHit, Internal: r.internal})
	os.MkdirAll(filepath.Dir(path), 0o755)
	os.WriteFile(path, b, 0o644)
}

// MergePart merges a part written by FinishPart into this run; false if the file is missing or unreadable.
func (r *Run) MergePart(path string) bool {
	b, err := os.ReadFile(path)
	if err != nil {
		return false
	}
	var d partDoc
	if json.Unmarshal(b, &d) != nil {
		return false
	}
	r.mu.Lock()
	defer r.mu.Unlock()
	r.evaluations += d.P.Evaluations
	r.distinctN += d.P.DistinctN
	for _, k := range d.P.Distinct {
		r.distinct[k] = struct{}{}
	}
	for _, s := range d.P.Samples {
		if len(r.samples) < r.maxSamples+4 {
			r.samples = append(r.samples, s)
		}
	}
	for k, v := range d.P.Counters {
		r.counters[k] += v
	}
	for k, v := range d.P.Extra {
		r.extra[k] = v
	}
	r.assumptions = append(r.assumptions, d.P.Assumptions...)
	r.inconclusive += d.P.Inconclusive
	r.viol = append(r.viol, d.Viol...)
	for k, v := range d.ViolKeys {
		r.violKeys[k] += v
	}
	for k, v := range d.KnownHit {
		r.knownHit[k] += v
	}
	r.internal = append(r.internal, d.Internal...)
	return true
}
