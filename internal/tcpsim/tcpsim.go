// Package tcpsim provides scripted TCP backends for the TCP-proxy checks.
package tcpsim

import (
	"fmt"
	"io"
	"net"
	"sync"
	"sync/atomic"
	"syscall"
	"time"
)

// Backend is a TCP server whose per-connection behaviour is scripted by Handle.
type Backend struct {
	Addr   string
	Handle func(b *Backend, c net.Conn) // default: echo until EOF, then close

	mu      sync.Mutex
	ln      net.Listener
	conns   map[net.Conn]struct{}
	Accepts int64
	closed  bool
}

// NewBackend starts a backend on a loopback port.
func NewBackend(handle func(b *Backend, c net.Conn)) (*Backend, error) {
	ln, err := net.Listen("tcp", "127.0.0.1:0")
	if err != nil {
		return nil, err
	}
	b := &Backend{Addr: ln.Addr().String(), Handle: handle, ln: ln, conns: map[net.Conn]struct{}{}}
	go b.accept(ln)
	return b, nil
}

func (b *Backend) accept(ln net.Listener) {
	for {
		c, err := ln.Accept()
		if err != nil {
			return
		}
		atomic.AddInt64(&b.Accepts, 1)
		b.mu.Lock()
		if b.closed {
			b.mu.Unlock()
			c.Close()
			continue
		}
		b.conns[c] = struct{}{}
		b.mu.Unlock()
		go func() {
			h := b.Handle
			if h == nil {
				h = Echo
			}
			h(b, c)
			b.mu.Lock()
			delete(b.conns, c)
			b.mu.Unlock()
		}()
	}
}

// Echo copies everything back and closes when the peer finishes.
func Echo(b *Backend, c net.Conn) {
	io.Copy(c, c)
	c.Close()
}

// NumConns returns the number of connections whose handler is still running.
func (b *Backend) NumConns() int {
	b.mu.Lock()
	defer b.mu.Unlock()
	return len(b.conns)
}

// StopListening closes the listener but keeps established connections.
func (b *Backend) StopListening() {
	b.mu.Lock()
	if b.ln != nil {
		b.ln.Close()
		b.ln = nil
	}
	b.mu.Unlock()
}

// Listen re-opens the listener on the same address.
func (b *Backend) Listen() error {
	b.mu.Lock()
	defer b.mu.Unlock()
	if b.ln != nil {
		return nil
	}
	var ln net.Listener
	var err error
	for i := 0; i < 50; i++ {
		ln, err = net.Listen("tcp", b.Addr)
		if err == nil {
			break
		}
		time.Sleep(20 * time.Millisecond)
	}
	if err != nil {
		return err
	}
	b.ln = ln
	b.closed = false
	go b.accept(ln)
	return nil
}

// Close stops the backend and closes all its connections.
func (b *Backend) Close() {
	b.mu.Lock()
	b.closed = true
	if b.ln != nil {
		b.ln.Close()
		b.ln = nil
	}
	conns := make([]net.Conn, 0, len(b.conns))
	for c := range b.conns {
		conns = append(conns, c)
	}
	b.mu.Unlock()
	for _, c := range conns {
		c.Close()
	}
}

// BlackHole returns an address on which connects time out (the emulation of a host that vanished): a listening socket with
// a minimal accept queue that is never accepted from; once the queue is full the kernel drops further SYNs. ok is false when the
// queue could not be filled on this platform.
func BlackHole() (addr string, closeFn func(), ok bool) {
	fd, err := syscall.Socket(syscall.AF_INET, syscall.SOCK_STREAM, 0)
	if err != nil {
		return "", func() {}, false
	}
	if err := syscall.Bind(fd, &syscall.SockaddrInet4{Addr: [4]byte{127, 0, 0, 1}}); err != nil {
		syscall.Close(fd)
		return "", func() {}, false
	}
	if err := syscall.Listen(fd, 0); err != nil {
		syscall.Close(fd)
		return "", func() {}, false
	}
	sa, _ := syscall.Getsockname(fd)
	addr = fmt.Sprintf("127.0.0.1:%d", sa.(*syscall.SockaddrInet4).Port)
	var conns []net.Conn
	failures := 0
	for i := 0; i < 64 && failures < 3; i++ {
		c, err := net.DialTimeout("tcp", addr, 300*time.Millisecond)
		if err != nil {
			failures++
			continue
		}
		failures = 0
		conns = append(conns, c)
	}
	closeFn = func() {
		for _, c := range conns {
			c.Close()
		}
		syscall.Close(fd)
	}
	return addr, closeFn, failures >= 3
}
