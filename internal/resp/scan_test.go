package resp

import "testing"

func TestScanValue(t *testing.T) {
	full := CmdS("SET", "key", "value")
	for cut := 0; cut < len(full); cut++ {
		if _, ok := scanValue(full[:cut], 0); ok {
			t.Fatalf("prefix of %d bytes reported complete", cut)
		}
	}
	if n, ok := scanValue(append(append([]byte{}, full...), full[:5]...), 0); !ok || n != len(full) {
		t.Fatalf("complete value: n=%d ok=%v want %d", n, ok, len(full))
	}
	for _, s := range []string{"+OK\r\n", ":1\r\n", "$-1\r\n", "*-1\r\n", "*0\r\n", "PING\r\n", "$3\r\nabc\r\n", "*2\r\n$1\r\na\r\n*1\r\n:5\r\n"} {
		if n, ok := scanValue([]byte(s), 0); !ok || n != len(s) {
			t.Fatalf("%q: n=%d ok=%v", s, n, ok)
		}
	}
}
