// Package resp is the harness's own RESP2 codec. It is deliberately independent
// of the proxy's codec: the harness never uses the code under test to judge it.
package resp

import (
	"bufio"
	"bytes"
	"errors"
	"fmt"
	"io"
	"strconv"
)

// Kinds of values.
const (
	Simple  = '+'
	Error   = '-'
	Integer = ':'
	Bulk    = '$'
	Array   = '*'
)

// Value is a RESP value.
type Value struct {
	Kind byte
	Str  []byte  // Simple, Error, Bulk
	Int  int64   // Integer
	Arr  []Value // Array
	Null bool    // null Bulk or null Array
}

func S(s string) Value        { return Value{Kind: Simple, Str: []byte(s)} }
func E(s string) Value        { return Value{Kind: Error, Str: []byte(s)} }
func I(i int64) Value         { return Value{Kind: Integer, Int: i} }
func B(b []byte) Value        { return Value{Kind: Bulk, Str: b} }
func BS(s string) Value       { return Value{Kind: Bulk, Str: []byte(s)} }
func NullBulk() Value         { return Value{Kind: Bulk, Null: true} }
func NullArray() Value        { return Value{Kind: Array, Null: true} }
func A(vs ...Value) Value     { return Value{Kind: Array, Arr: vs} }
func (v Value) IsError() bool { return v.Kind == Error }

// Equal compares two values exactly (null != empty).
func (v Value) Equal(o Value) bool {
	if v.Kind != o.Kind || v.Null != o.Null {
		return false
	}
	switch v.Kind {
	case Integer:
		return v.Int == o.Int
	case Array:
		if len(v.Arr) != len(o.Arr) {
			return false
		}
		for i := range v.Arr {
			if !v.Arr[i].Equal(o.Arr[i]) {
				return false
			}
		}
		return true
	default:
		return bytes.Equal(v.Str, o.Str)
	}
}

// String renders a short human readable form (long strings are abbreviated).
func (v Value) String() string {
	switch v.Kind {
	case Simple:
		return "+" + abbrev(v.Str)
	case Error:
		return "-" + abbrev(v.Str)
	case Integer:
		return ":" + strconv.FormatInt(v.Int, 10)
	case Bulk:
		if v.Null {
			return "$nil"
		}
		return "$" + abbrev(v.Str)
	case Array:
		if v.Null {
			return "*nil"
		}
		var b bytes.Buffer
		b.WriteString("[")
		for i, e := range v.Arr {
			if i > 0 {
				b.WriteString(" ")
			}
			if i >= 12 {
				fmt.Fprintf(&b, "...(%d)", len(v.Arr))
				break
			}
			b.WriteString(e.String())
		}
		b.WriteString("]")
		return b.String()
	}
	return fmt.Sprintf("?%d", v.Kind)
}

func abbrev(b []byte) string {
	if len(b) <= 48 {
		return strconv.Quote(string(b))
	}
	return fmt.Sprintf("%s...(%d bytes)", strconv.Quote(string(b[:32])), len(b))
}

// Append appends the canonical encoding of v to dst.
func Append(dst []byte, v Value) []byte {
	dst = append(dst, v.Kind)
	switch v.Kind {
	case Simple, Error:
		dst = append(dst, v.Str...)
	case Integer:
		dst = strconv.AppendInt(dst, v.Int, 10)
	case Bulk:
		if v.Null {
			return append(dst, "-1\r\n"...)
		}
		dst = strconv.AppendInt(dst, int64(len(v.Str)), 10)
		dst = append(dst, '\r', '\n')
		dst = append(dst, v.Str...)
	case Array:
		if v.Null {
			return append(dst, "-1\r\n"...)
		}
		dst = strconv.AppendInt(dst, int64(len(v.Arr)), 10)
		dst = append(dst, '\r', '\n')
		for _, e := range v.Arr {
			dst = Append(dst, e)
		}
		return dst
	}
	return append(dst, '\r', '\n')
}

// Encode returns the canonical encoding of v.
func Encode(v Value) []byte { return Append(nil, v) }

// Cmd encodes a command as an array of bulk strings.
func Cmd(args ...[]byte) []byte {
	dst := make([]byte, 0, 16*len(args))
	dst = append(dst, '*')
	dst = strconv.AppendInt(dst, int64(len(args)), 10)
	dst = append(dst, '\r', '\n')
	for _, a := range args {
		dst = append(dst, '$')
		dst = strconv.AppendInt(dst, int64(len(a)), 10)
		dst = append(dst, '\r', '\n')
		dst = append(dst, a...)
		dst = append(dst, '\r', '\n')
	}
	return dst
}

// CmdS encodes a command given as strings.
func CmdS(args ...string) []byte {
	bs := make([][]byte, len(args))
	for i, a := range args {
		bs[i] = []byte(a)
	}
	return Cmd(bs...)
}

// CmdValue builds the array-of-bulk value of a command.
func CmdValue(args ...[]byte) Value {
	vs := make([]Value, len(args))
	for i, a := range args {
		vs[i] = B(a)
	}
	return A(vs...)
}

// Reader decodes values from a stream.
type Reader struct {
	br *bufio.Reader
	// MaxDepth bounds array nesting (default 64).
	MaxDepth int
}

// NewReader creates a Reader.
func NewReader(r io.Reader) *Reader {
	return &Reader{br: bufio.NewReaderSize(r, 64*1024), MaxDepth: 64}
}

var ErrProtocol = errors.New("resp: protocol error")

func (r *Reader) line() ([]byte, error) {
	var full []byte
	for {
		frag, err := r.br.ReadSlice('\n')
		if err == bufio.ErrBufferFull {
			full = append(full, frag...)
			continue
		}
		if err != nil {
			return nil, err
		}
		if full != nil {
			full = append(full, frag...)
			frag = full
		}
		if len(frag) < 2 || frag[len(frag)-2] != '\r' {
			return nil, ErrProtocol
		}
		out := make([]byte, len(frag)-2)
		copy(out, frag)
		return out, nil
	}
}

// Read decodes the next value.
func (r *Reader) Read() (Value, error) { return r.read(0) }

func (r *Reader) read(depth int) (Value, error) {
	k, err := r.br.ReadByte()
	if err != nil {
		return Value{}, err
	}
	switch k {
	case Simple, Error:
		l, err := r.line()
		if err != nil {
			return Value{}, eofToUnexpected(err)
		}
		return Value{Kind: k, Str: l}, nil
	case Integer:
		l, err := r.line()
		if err != nil {
			return Value{}, eofToUnexpected(err)
		}
		n, err := strconv.ParseInt(string(l), 10, 64)
		if err != nil {
			return Value{}, ErrProtocol
		}
		return Value{Kind: k, Int: n}, nil
	case Bulk:
		l, err := r.line()
		if err != nil {
			return Value{}, eofToUnexpected(err)
		}
		n, err := strconv.ParseInt(string(l), 10, 64)
		if err != nil || n < -1 || n > 1<<30 {
			return Value{}, ErrProtocol
		}
		if n == -1 {
			return Value{Kind: k, Null: true}, nil
		}
		buf := make([]byte, n+2)
		if _, err := io.ReadFull(r.br, buf); err != nil {
			return Value{}, eofToUnexpected(err)
		}
		if buf[n] != '\r' || buf[n+1] != '\n' {
			return Value{}, ErrProtocol
		}
		return Value{Kind: k, Str: buf[:n:n]}, nil
	case Array:
		l, err := r.line()
		if err != nil {
			return Value{}, eofToUnexpected(err)
		}
		n, err := strconv.ParseInt(string(l), 10, 64)
		if err != nil || n < -1 || n > 1<<24 {
			return Value{}, ErrProtocol
		}
		if n == -1 {
			return Value{Kind: k, Null: true}, nil
		}
		if depth >= r.MaxDepth {
			return Value{}, ErrProtocol
		}
		arr := make([]Value, n)
		for i := range arr {
			arr[i], err = r.read(depth + 1)
			if err != nil {
				return Value{}, eofToUnexpected(err)
			}
		}
		return Value{Kind: k, Arr: arr}, nil
	default:
		// inline command
		if err := r.br.UnreadByte(); err != nil {
			return Value{}, err
		}
		l, err := r.line()
		if err != nil {
			return Value{}, eofToUnexpected(err)
		}
		var arr []Value
		for _, f := range bytes.Fields(l) {
			arr = append(arr, B(f))
		}
		return Value{Kind: Array, Arr: arr}, nil
	}
}

func eofToUnexpected(err error) error {
	if err == io.EOF {
		return io.ErrUnexpectedEOF
	}
	return err
}

// Buffered returns the number of bytes buffered and not yet consumed.
func (r *Reader) Buffered() int { return r.br.Buffered() }

// CompleteBuffered reports whether the bytes already buffered contain at least one complete value, i.e. whether the next Read
// returns without waiting for the peer. (A server must not hold replies back while it waits for the rest of a request: the peer
// may be waiting for those replies before it sends the rest.) Malformed input counts as complete: Read will fail on it at once.
func (r *Reader) CompleteBuffered() bool {
	n := r.br.Buffered()
	if n == 0 {
		return false
	}
	b, err := r.br.Peek(n)
	if err != nil {
		return false
	}
	_, ok := scanValue(b, 0)
	return ok
}

// scanValue returns the length of the complete value at the start of b (ok=false: more bytes are needed). No allocation.
func scanValue(b []byte, depth int) (int, bool) {
	if len(b) == 0 {
		return 0, false
	}
	eol := bytes.IndexByte(b, '\n')
	if eol < 0 {
		return 0, false
	}
	switch b[0] {
	case Simple, Error, Integer:
		return eol + 1, true
	case Bulk:
		n, err := strconv.ParseInt(string(bytes.TrimSuffix(b[1:eol], []byte{'\r'})), 10, 64)
		if err != nil || n < 0 {
			return eol + 1, true // null or malformed: Read decides at once
		}
		if int64(len(b)) < int64(eol)+1+n+2 {
			return 0, false
		}
		return eol + 1 + int(n) + 2, true
	case Array:
		n, err := strconv.ParseInt(string(bytes.TrimSuffix(b[1:eol], []byte{'\r'})), 10, 64)
		if err != nil || n <= 0 || depth > 64 {
			return eol + 1, true
		}
		off := eol + 1
		for i := int64(0); i < n; i++ {
			l, ok := scanValue(b[off:], depth+1)
			if !ok {
				return 0, false
			}
			off += l
		}
		return off, true
	default: // inline command: one line
		return eol + 1, true
	}
}

// Args extracts the argument vector of a command value.
func Args(v Value) ([][]byte, bool) {
	if v.Kind != Array || v.Null || len(v.Arr) == 0 {
		return nil, false
	}
	out := make([][]byte, len(v.Arr))
	for i, e := range v.Arr {
		if e.Kind != Bulk || e.Null {
			return nil, false
		}
		out[i] = e.Str
	}
	return out, true
}
